#!/bin/sh
# Build the framework from files on disk only (offline). Run once in /verif after a fresh restore.
set -e
cd "$(dirname "$0")"
export CARGO_NET_OFFLINE=true
python3 tools/gen_driver.py
python3 tools/extract_tables.py
(cd lean && lake build BsVerif bsmodel)
(cd harness && cargo build)
if [ -x tools/build_progs.sh ]; then tools/build_progs.sh; fi
echo "setup done"
