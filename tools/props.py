"""Per-property configuration of ./check: every tools/props/<ID>.py defines CONFIG (which Lean modules carry
the theorems, which harness sub-command runs the correspondence / oracle, how much per tier, manifest texts).
A property without such a file must appear in NOT_APPLICABLE below with its reason."""
import importlib.util, os

_D = os.path.join(os.path.dirname(os.path.abspath(__file__)), "props")
PROPS = {}
for _f in sorted(os.listdir(_D)):
    if _f.endswith(".py") and _f[0] == "C":
        _spec = importlib.util.spec_from_file_location("props_" + _f[:-3], os.path.join(_D, _f))
        _m = importlib.util.module_from_spec(_spec)
        _spec.loader.exec_module(_m)
        PROPS[_f[:-3]] = _m.CONFIG

_WIP = "not yet covered by the Lean framework in this revision (work in progress, see DESIGN.md section 10); no other technique is substituted"
NOT_APPLICABLE = {p: _WIP for p in ["C%02d" % i for i in range(1, 20)]}
NOT_APPLICABLE["C20"] = ("needs tokio's in-memory runtime structures; no tokio crate exists in the offline registry, so neither a "
                         "debuggee nor a correspondence run can be produced and a Lean model of tokio internals could not be tied to anything (DESIGN.md C20)")
