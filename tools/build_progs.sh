#!/bin/sh
# Compile the debuggee programs of progs-src/ into progs/ (ignored by git) and record their reference traces.
# Idempotent and offline. usage: tools/build_progs.sh [toolchain ...]   (default: 1.89)
set -e
cd "$(dirname "$0")/.."
mkdir -p progs
TCS="${*:-1.89}"
REFTRACE=harness/target/debug/reftrace
for tc in $TCS; do
  for src in progs-src/*.rs; do
    name=$(basename "$src" .rs)
    # sources with a .custom marker are built by a script of tools/progs.d/ only
    if [ -f "progs-src/$name.custom" ]; then continue; fi
    out="progs/$name-$tc"
    flags="-g -C opt-level=0"
    if [ -f "progs-src/$name.flags" ]; then flags=$(cat "progs-src/$name.flags"); fi
    if [ ! -x "$out" ] || [ "$src" -nt "$out" ]; then
      # shellcheck disable=SC2086
      rustup run "$tc" rustc $flags -o "$out" "$src" 2>"$out.rustc.log" || { cat "$out.rustc.log"; exit 1; }
      rm -f "$out.trace"
    fi
    # plain name = the build with the first (default) toolchain
    if [ "$tc" = "${TCS%% *}" ]; then ln -sf "$name-$tc" "progs/$name"; fi
    if [ -x "$REFTRACE" ] && [ ! -f "$out.trace" ] && [ ! -f "progs-src/$name.notrace" ]; then
      "$REFTRACE" "$out" "$out.trace.tmp" && mv "$out.trace.tmp" "$out.trace" && mv "$out.trace.tmp.stdout" "$out.stdout" && mv "$out.trace.tmp.stderr" "$out.stderr"
    fi
  done
done
# property-specific builds (own naming schemes, other compilers, link modes)
for f in tools/progs.d/*.sh; do
  [ -f "$f" ] && . "$f"
done
exit 0
