#!/bin/sh
# Compile the debuggee programs of progs-src/ into progs/ (idempotent, offline).
set -e
cd "$(dirname "$0")/.."
mkdir -p progs
for src in progs-src/*.rs; do
  name=$(basename "$src" .rs)
  if [ ! -x "progs/$name" ] || [ "$src" -nt "progs/$name" ]; then
    # the source is copied so that DW_AT_name / line table carry a stable relative file name
    (cd progs-src && rustc -g -C opt-level=0 -o "../progs/$name" "$name.rs")
  fi
done
