#!/bin/sh
# Compile the debuggee programs progs-src/*.rs (and *.c) into progs/ (idempotent, offline).
set -e
cd "$(dirname "$0")/.."
mkdir -p progs
for s in progs-src/*.rs; do
  [ -e "$s" ] || continue
  o="progs/$(basename "$s" .rs)"
  if [ ! -x "$o" ] || [ "$s" -nt "$o" ]; then rustc -g -C opt-level=0 -o "$o" "$s"; fi
done
for s in progs-src/*.c; do
  [ -e "$s" ] || continue
  o="progs/$(basename "$s" .c)"
  if [ ! -x "$o" ] || [ "$s" -nt "$o" ]; then gcc -g -O0 -o "$o" "$s"; fi
done
