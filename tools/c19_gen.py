#!/usr/bin/env python3
"""C19: generator of debuggees that follow the conventions of progs-src/c19_scopes.rs (one statement per line,
`let NAME: u64 = hold(<unique literal>);`, blocks opened by a line ending in `{` and closed by a line starting with `}`),
so that harness/src/props/c19.rs can derive the static scope model from the text alone.
usage: c19_gen.py <seed> > progs-src/c19_gen<seed>.rs      (deterministic in the seed)"""
import sys


class Rng:
    def __init__(self, seed): self.s = (seed * 0x9E3779B97F4A7C15 + 12345) & (2**64 - 1)
    def next(self):
        self.s = (self.s + 0x9E3779B97F4A7C15) & (2**64 - 1)
        z = self.s
        z = ((z ^ (z >> 30)) * 0xBF58476D1CE4E5B9) & (2**64 - 1)
        z = ((z ^ (z >> 27)) * 0x94D049BB133111EB) & (2**64 - 1)
        return z ^ (z >> 31)
    def below(self, n): return self.next() % n
    def pick(self, xs): return xs[self.below(len(xs))]


def main():
    seed = int(sys.argv[1])
    rng = Rng(seed)
    lit = [200000 + seed * 10000]
    def fresh():
        lit[0] += 1
        return lit[0]
    names = ["a", "b", "c", "d", "x", "y"]
    out = []
    emit = out.append
    emit(f"// C19 generated debuggee (tools/c19_gen.py {seed}); conventions: see progs-src/c19_scopes.rs")
    emit("use std::hint::black_box;")
    emit("")
    emit("#[inline(never)]")
    emit("fn hold(v: u64) -> u64 {")
    emit("    black_box(v)")
    emit("}")
    emit("")
    emit("#[inline(never)]")
    emit("fn leaf(v: u64) -> u64 {")
    emit(f"    let k: u64 = {fresh()};")
    emit("    hold(v ^ k)")
    emit("}")
    loops = [0]

    def block(ind, depth, visible, budget):
        """statements of one block; `visible` = names usable here (innermost binding wins)"""
        pad = "    " * ind
        vis = list(visible)
        n = 2 + rng.below(4)
        for _ in range(n):
            if budget[0] <= 0: break
            budget[0] -= 1
            k = rng.below(10)
            if k < 4 or not vis:
                nm = rng.pick(names)
                emit(f"{pad}let {nm}: u64 = hold({fresh()});")
                if nm not in vis: vis.append(nm)
            elif k < 6:
                a = rng.pick(vis); b = rng.pick(vis)
                emit(f"{pad}acc += leaf({a} + {b});" if a != b else f"{pad}acc += leaf({a});")
            elif k < 8 and depth < 4:
                emit(f"{pad}{{")
                block(ind + 1, depth + 1, vis, budget)
                emit(f"{pad}}}")
            elif k < 9 and depth < 3:
                emit(f"{pad}if acc % 2 == {rng.below(2)} {{")
                block(ind + 1, depth + 1, vis, budget)
                emit(f"{pad}}} else {{")
                block(ind + 1, depth + 1, vis, budget)
                emit(f"{pad}}}")
            elif depth < 3:
                loops[0] += 1
                i = f"i{loops[0]}"
                emit(f"{pad}let mut {i}: u64 = 0;")
                emit(f"{pad}while {i} < 2 {{")
                block(ind + 1, depth + 1, vis, budget)
                emit(f"{pad}    {i} += 1;")
                emit(f"{pad}}}")
        if vis:
            emit(f"{pad}acc += leaf({rng.pick(vis)});")

    nfn = 3 + rng.below(2)
    calls = []
    for f in range(nfn):
        emit("")
        emit("#[inline(never)]")
        emit(f"fn f{f}(p: u64) -> u64 {{")
        emit("    let mut acc: u64 = 1;")
        block(1, 1, [], [14 + rng.below(10)])
        emit("    acc + p")
        emit("}")
        calls.append((f"f{f}", f"{fresh()}"))
    # direct recursion through ONE call site and recursion through distinct call sites
    depth = 2 + rng.below(2)
    emit("")
    emit("#[inline(never)]")
    emit("fn rec0(n: u64, tag: u64) -> u64 {")
    emit(f"    let own: u64 = {fresh() * 10} + n;")
    emit("    if n == 0 {")
    emit(f"        let base: u64 = hold({fresh()});")
    emit("        return leaf(base + own);")
    emit("    }")
    emit("    let below: u64 = rec0(n - 1, tag + 1);")
    emit("    {")
    emit(f"        let own: u64 = {fresh() * 10} + n;")
    emit("        hold(own + below + tag)")
    emit("    }")
    emit("}")
    emit("")
    emit("fn main() {")
    emit(f"    let m0: u64 = hold({fresh()});")
    rs = []
    for i, (fn, arg) in enumerate(calls):
        emit(f"    let r{i}: u64 = {fn}({arg});")
        rs.append(f"r{i}")
    emit(f"    let rr: u64 = rec0({depth}, 40);")
    emit("    let sum: u64 = m0 ^ rr ^ " + " ^ ".join(rs) + ";")
    emit('    println!("{}", sum);')
    emit("    std::process::exit((sum % 100) as i32);")
    emit("}")
    print("\n".join(out))


main()
