CONFIG = {
    "lean_modules": ["BsVerif.Props.C15"],
    "audit": "BsVerif/Audit/C15.lean",
    "bsv_cmd": "c15",
    "technique": "Lean 4 proofs about an executable model of read_memory_by_pid / DAP write_bytes / RegisterMap / disassembly masking / parse_set_value (all addresses, lengths, data, memories) + differential correspondence on a live debuggee with guard holes + /proc/<pid>/mem, raw PTRACE_GETREGS and the program's own output as oracles",
    "level_text": "Exactness of memory reads (C15_read_spec/_exact/_success_iff/_total: a read succeeds iff the requested bytes are mapped and returns exactly them), of the DAP byte-granular write loop (C15_write_exact, _no_panic, _success_iff, _fail_confined, _write_then_read), of single-word pokes (C15_poke_exact), of the register table round trip (C15_reg_roundtrip, C15_reg_write_visible; tables re-extracted from register.rs on every run), of breakpoint masking in the disassembler (C15_disasm_masks_patches, C15_disasm_total) and of integer setVariable parsing (C15_setvar_int_roundtrip, C15_setvar_range, C15_setvar_accepted_exact) is proved in Lean for every memory, address, length and data, at full strength. Three parts of the property were FALSE of the original code (tail of a mapping unreadable, out-of-range setVariable truncated, breakpoint at a function's end address panicking the disassembler); they have been repaired in the repository (fix commits 829a669, dc03bfb, e37d02d), the model follows the repaired code, and the former witnesses are replayed on the real code by corpus/C15 on every run, a regression being a VIOLATION. The model is tied to the real Debugger on every run: boundary-exhaustive and seeded (offset, length, data) reads, word writes and DAP writes around word ends, page seams and unmapped holes of a live debuggee are executed on both and compared line by line.",
    "level_note": "Trusted: Lean kernel + 3 standard axioms; kernel model of PTRACE_PEEKDATA/POKEDATA (word access succeeds iff all 8 bytes are mapped; a failing POKE leaves the bytes before the first unmapped page written; FOLL_FORCE ignores page protection) — sampled by the correspondence run; page-granular mappings; model<->code tie is sampling (generator distribution in evidence). The DAP JSON layer above write_bytes/parse_set_value (setVariable/setExpression/readMemory/writeMemory request handlers, variable lookup, serialize_dap_value for composites) is not exercised (see uncovered).",
    "runs": {"quick": [{"n": 1500}], "thorough": [{"n": 30000, "timeout": 6000}]},
    "trivial_answers": ["ok", "-", "bad-op", "", "err"],
    "shrinkable": False,  # every replay step starts a live debuggee session (~5 s): the replay is the session prefix up to the failing request
    "rule": "boundary-exhaustive + seeded generator in the harness; a case is one request line (read / poke / DAP write / register get+set / disasm / parse_set_value / window checksum / the program's own checksums) executed on the real Debugger attached to a live debuggee and on the Lean model; distinct = different (request, answer); non-trivial = the answer carries data (bytes, checksums, register values), not only ok/err",
    "assumptions": [
        "Linux ptrace: PEEKDATA/POKEDATA at address a succeed iff [a,a+8) is mapped (any protection, FOLL_FORCE); a failing POKEDATA has written the bytes that precede the first unmapped page (sampled on the live debuggee)",
        "mappings are page granular (4 KiB); used by C15_write_success_iff, C15_write_then_read and, for reads shorter than one word only, by C15_read_success_iff / C15_read_total (C15_read_spec and C15_read_total_long do not need it)",
        "addr + len does not overflow usize (the top of the address space is not exercised); read_n < 2^63",
        "register values are written from the kernel-accepted domain (segment selectors are only read; eflags: arithmetic/direction bits; fs_base/gs_base: user addresses)",
        "x86-64 Linux user_regs_struct field order (constant of tools/tables/regs.py)",
    ],
    "uncovered": [
        "DAP request handlers (setVariable / setExpression / readMemory / writeMemory JSON layer, variable reference lookup): only write_bytes and parse_set_value are driven directly through verif re-exports",
        "serialize_dap_value (composite values), f32/f64/char kinds of parse_set_value",
        "the disassembly masking is tied through its outcome class and through the decoded instruction list (equal to the decoding of the ELF file's bytes), not byte by byte",
        "register writes are observed through raw PTRACE_GETREGS, not by a program that prints the register",
    ],
}
