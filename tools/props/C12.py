CONFIG = {
    "lean_modules": ["BsVerif.Props.C12"],
    "audit": "BsVerif/Audit/C12.lean",
    "bsv_cmd": "c12",
    "technique": "Lean 4 proofs over a writer-interleaving model and a session/handler-skeleton model of the DAP adapter + acceptor correspondence with the real DebugSession driven in-process over a mock transport + independent wire oracle",
    "level_text": "Theorems for ALL request histories (induction over the history) and ALL schedules of the three transport writers (induction over the schedule) about hand-written executable models of DebugSession::run/dispatch/drain_events and of the seq-allocation/transport-write steps; the session model is tied to the real adapter on every run by replaying grammar-derived request histories (valid, missing, ill-typed, absent arguments; repeated, out of order) against the real DebugSession in forked workers and comparing the canonicalised wire per request; the writer model is tied by reconstructing the schedule from the recorded allocation log and comparing sequence numbers in wire order; an independent wire checker re-decides the five clauses.",
    "level_note": "Full statements C12_one_response, C12_seq_is_wire_order, C12_silent_after_terminated are proved for the repaired code (the three defects of the code as found - `continue` answered twice, sequence numbers taken before the transport lock, `initialized` and forwarder output after `terminated` - are fixed in the repository: known_findings.txt `fixed:` lines; the former counterexamples stay as corpus replays). Debuggee outcomes (stop/exit, thread counts, evaluate result) enter the model as observed hints. Scheduler = arbitrary interleaving of atomic steps, a writer scheduled while another holds the transport lock is blocked (the real scheduler is only sampled). The forwarders' part of `nothing after terminated` is proved on a latch model of the writers that is read from the code (tied textually by the table extractor, not by the correspondence run) and re-decided by the wire oracle; `no output lost` is decided by the wire oracle only.",
    "runs": {"quick": [{"n": 280}], "thorough": [{"n": 4000, "timeout": 6000}]},
    "shrinkable": True,
    "assumptions": [
        "the three writers' steps `lock+next_seq` and `write_message+unlock` are atomic and the only accesses to the counter/transport (read from session/mod.rs; the extractor checks that `next_seq` is the only `fetch_add` and that every call site locks the transport first)",
        "debuggee behaviour (stop reason, exit, number of thread start/exit events, whether `acc` can be evaluated) is an input of the session model, taken from the observed wire",
        "the mock transport never fails a write (transport errors end the session by design: `drain_events()?` in run)",
    ],
    "uncovered": ["attach sessions", "restart / restartFrame / goto / setVariable / memory / disassemble handlers", "cancel requests (consume_cancellation)", "malformed envelopes (not well-framed: outside the property)"],
    "trivial_answers": ["ok", "-", "bad-op", "", "closed"],
}
