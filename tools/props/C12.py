import os, re

_ROOT = os.path.dirname(os.path.dirname(os.path.dirname(os.path.abspath(__file__))))


def _not_in_grammar():
    """commands of `dispatch` (table regenerated from session/mod.rs on every run) that the harness grammar does not
    generate: listed under `uncovered`"""
    try:
        gen = open(os.path.join(_ROOT, "lean/BsVerif/Gen/DapDispatch.lean")).read()
        table = re.findall(r'"([A-Za-z]+)"', re.search(r"def commands : List String := \[(.*?)\]", gen, re.S).group(1))
        src = open(os.path.join(_ROOT, "harness/src/props/c12.rs")).read()
        grammar = re.findall(r'"([A-Za-z]+)"', re.search(r"const COMMANDS: &\[&str\] = &\[(.*?)\];", src, re.S).group(1))
        return [f"command `{c}` of dispatch is never generated" for c in table if c not in grammar]
    except Exception as e:  # the table does not exist before the first run
        return [f"(command table not readable: {e})"]


CONFIG = {
    "lean_modules": ["BsVerif.Props.C12"],
    "audit": "BsVerif/Audit/C12.lean",
    "bsv_cmd": "c12",
    "technique": "Lean 4 proofs over a writer-interleaving model and a session/handler-skeleton model of the DAP adapter (all 43 commands of dispatch, cancellation bookkeeping, thread-cache diff, progress ids) + acceptor correspondence with the real DebugSession driven in-process over a mock transport + independent wire oracle",
    "level_text": "Theorems for ALL request histories (induction over the history, invariants linking the session state to wire monitors) and ALL schedules of the three transport writers (induction over the schedule) about hand-written executable models of DebugSession::run/dispatch/drain_events/consume_cancellation/refresh_threads_with_events and of the seq-allocation/transport-write steps; the session model is tied to the real adapter on every run by replaying grammar-derived request histories (every command of dispatch with valid, missing, ill-typed, absent arguments; repeated, out of order, pipelined behind a running request; in every session phase; cancel ahead of / after / of non-existent requests and of progress ids; stepping over thread creation) against the real DebugSession in forked workers and comparing the canonicalised wire per request (thread ids and progress ids included); the writer model is tied by reconstructing the schedule from the recorded allocation log and comparing sequence numbers in wire order; an independent wire checker re-decides the clauses.",
    "level_note": "Full statements C12_one_response, C12_seq_is_wire_order, C12_silent_after_terminated are proved over the 44-command model for the repaired code (the three defects of the code as found - `continue` answered twice, sequence numbers taken before the transport lock, `initialized` and forwarder output after `terminated` - are fixed in the repository: known_findings.txt `fixed:` lines; the former counterexamples stay as corpus replays). Partial: C12_thread_events is FALSE of the code (counterexample proved in Lean and replayed on the real adapter: known_findings.txt, corpus/C12); proved is the _partial version under a named hypothesis. The forwarders' part of `nothing after terminated` is proved on a latch model of the writers that is read from the code (tied textually by the table extractor, not by the correspondence run) and re-decided by the wire oracle; `no output lost` is decided by the wire oracle only. Debuggee / debugger-library outcomes (stop/exit, the thread list the debugger reports to a refresh, success of a fallible debugger call, number of frames without line info) enter the model as observed hints; what the adapter owes (responses, thread events from the cache diff, cancellation, progress ids, lifecycle) is computed by the model. Scheduler = arbitrary interleaving of atomic steps, a writer scheduled while another holds the transport lock is blocked (the real scheduler is only sampled). A quick run samples about a third of the (command, phase) cells: the distribution is in correspondence.distribution (`cp.<command>.<phase>`, `cm.<command>.<mutation>`, `cmd.<command>` = 0 for a command not sent in this run).",
    "runs": {"quick": [{"n": 420}], "thorough": [{"n": 5000, "timeout": 9000}]},
    "shrinkable": True,
    "assumptions": [
        "the three writers' steps `lock+next_seq` and `write_message+unlock` are atomic and the only accesses to the counter/transport (read from session/mod.rs; the extractor checks that `next_seq` is the only `fetch_add` and that every call site locks the transport first)",
        "debuggee behaviour (stop reason, exit, the thread list the debugger returns to refresh_threads_with_events - read through the add-only `verif` thread probe, or from the `threads` response when the probe did not fire -, whether a fallible debugger call succeeded, how many frames needed a disassembly source) is an input of the session model, taken from the observed run",
        "the mock transport never fails a write (transport errors end the session by design: `drain_events()?` in run)",
        "a session whose worker stalls (no answer for 40 s) is run a second time; only a stall that repeats is reported as an adapter hang",
    ],
    "uncovered": ["attach to a live process (attach is generated with missing / ill-typed / absent arguments and with a pid that does not exist)",
                  "runInTerminal with a program that exists is only generated in sessions without a debuggee (the adapter process must have no other children)",
                  "stop reasons other than entry/breakpoint/step/pause/goto/restart/exception-by-SIGTERM (no watchpoint delivery on this VM)",
                  "DEBUGGER_RESPONSE_TIMEOUT / MEMORY_READ_TIMEOUT branches (no 5 s stalls are provoked)",
                  "malformed envelopes (not well-framed: outside the property)"] + _not_in_grammar(),
    "trivial_answers": ["ok", "-", "bad-op", "", "closed"],
}
