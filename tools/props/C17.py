CONFIG = {
    "lean_modules": ["BsVerif.Props.C17"],
    "audit": "BsVerif/Audit/C17.lean",
    "bsv_cmd": "c17",
    "technique": "Lean 4 refinement proof (index = log filtered by component suffix) + differential correspondence with PathSearchIndex",
    "level_text": "Full functional refinement of the path-suffix index proved in Lean for every insert sequence and needle (C17_index_refines_suffix and corollaries); the model is tied to the real PathSearchIndex on every run by executing seeded insert/get sequences on both and comparing, and the real index is also compared with an independent suffix specification.",
    "level_note": "Trusted: Lean kernel + 3 standard axioms; model<->code tie is sampling (generator distribution in evidence); interner modelled as string equality; demangling (rustc-demangle) and the regex engine are environment; the end-to-end leg runs `break <template>` on binaries built with legacy and v0 mangling against the functions listed by `nm -C`, feeding the model the components as the implementation computes them.",
    "runs": {"quick": [{"n": 6000}], "thorough": [{"n": 400000}]},
    "shrinkable": True,
    "assumptions": [
        "interned symbols are equal iff the strings are equal (string-interner contract; sampled by the correspondence run)",
        "the regex engine of `symbol <regex>` is a parameter of the theorem",
    ],
    "uncovered": ["file templates end-to-end (the files index is covered by the pure leg with `/` paths)", "`symbol <regex>` end-to-end (the regex engine is a parameter)", "functions of shared libraries (C18)"],
}
