CONFIG = {
    "lean_modules": ["BsVerif.Props.C06"],
    "audit": "BsVerif/Audit/C06.lean",
    "bsv_cmd": "c06",
    "technique": "Lean 4 proofs about an executable model of the value decoder (parse_inner, the std re-interpretations, hashbrown group scan, B-tree walk, VecDeque ring split, breadth-first field lookup) + differential correspondence on live generated debuggees (type graph as parsed by the debugger + memory image through /proc/<pid>/mem -> model vs the real Value tree) + the program generator's ground truth as oracle",
    "level_text": "PLACEHOLDER",
    "level_note": "PLACEHOLDER",
    "runs": {"quick": [{"n": 5, "timeout": 900}], "thorough": [{"n": 64, "timeout": 6000}]},
    "trivial_answers": ["ok", "-", "bad-op", "", "none"],
    "shrinkable": False,
    "rule": "generated Rust programs (recursive type grammar, boundary values, special collection shapes) compiled with rustc -g and stopped at two breakpoints; a case is one decoded value (variable, argument, static, dereferenced pointer, pointer slice): the request carries the type id and address, preceded by the type graph and the memory blocks; answer = canonical rendering of the whole value tree; distinct = different (request, answer); non-trivial = a rendering (not an acknowledgement of a type/memory line)",
    "assumptions": [],
    "uncovered": [],
}
