CONFIG = {
    "lean_modules": ["BsVerif.Props.C03"],
    "audit": "BsVerif/Audit/C03.lean",
    "bsv_cmd": "c03",
    "technique": "Lean 4 proofs about an executable model of stepi / step_in / step_over_any / step_out_frame over the depth-, frame- and "
                 "return-address-annotated native instruction trace and the debugger's stored line rows (induction over the stepping loops; "
                 "first-position characterisations) + differential correspondence on live debuggees of landing pc, installed temporary "
                 "breakpoints, number of instruction steps, every poked text byte and the hooks fired, with NO observed parameter fed to the model "
                 "+ specification oracle on the independent reference trace (pc+rsp position tracking) and llvm-dwarfdump line tables",
    "level_text": "Proved for every annotated trace, every debug-information lookup, every set of user breakpoints and every start position: "
                  "stepi executes exactly one instruction on its original byte (C03_stepi_one, on the patch-level machine of C01/C02); `step` "
                  "lands exactly on the address of a statement row in another frame or on another (file, line) and never passes a position that "
                  "is such a row outside its function's prologue, in particular the first line of a callee (C03_step_lands_on_statement, "
                  "C03_step_enters_first_line); `finish` lands at the first position after the return of the current activation, with the "
                  "return address as its only temporary, under NoReentry (C03_finish_lands_in_caller_partial) and NOT in general "
                  "(C03_finish_lands_in_caller_counterexample: recursion); the continue phase of `next` stops no later than the return, and before it "
                  "only in the current activation, under NoReentryT (C03_next_not_in_callee_partial; counterexample for recursion), and never passes a "
                  "statement row of the function that is not already a user breakpoint (C03_next_stops_at_first_statement; with a user breakpoint on "
                  "it the row IS passed: C03_next_skips_user_breakpoint_counterexample); a plain `done` is reported only for a stop on the command's "
                  "own temporary, user-breakpoint stops and exit are reported as such (C03_interrupt_reported). The model is tied to the code on every "
                  "run: seeded histories of break/continue/stepi/step/next/finish on three debuggees (recursion, loops, generics, closures, trait "
                  "objects, several calls per line) are executed by the real debugger; the model receives only the reference trace annotations and "
                  "the stored rows/ranges of the functions entered, and must predict landing pc, temporaries (addresses and order), instruction-step "
                  "counts, text patches and hooks.",
    "level_note": "Trusted: Lean kernel + 3 standard axioms. Environment, sampled not proved: the unwinder (return address, CFA) is taken to agree with "
                  "the reference tracer's shadow stack (C05 is about that), gimli's decoding (C04 ties the stored rows to llvm-dwarfdump), the kernel's "
                  "PTRACE_SINGLESTEP/CONT. The refinement between the index-level landing model (Model/Step.lean) and the patch-level machine of "
                  "C01/C02 is checked on every command of every run (both are executed by the driver and must agree), not proved. "
                  "C03_reported_place_is_pc is definitional in the model (the report is computed from the landing position); that the code refreshes "
                  "its exploration context from the real registers is checked by K (ecx pc, on_step pc/line) and by the oracle (raw PTRACE_GETREGS). "
                  "Signals and watchpoints interrupting a step are not modelled (single-threaded, signal-free debuggees).",
    "trivial_answers": ["ok", "ok p=-", "none p=-", "err p=-", "err", "bad-op", "", "after-exit"],
    "runs": {"quick": [{"n": 12, "timeout": 1500}], "thorough": [{"n": 400, "timeout": 20000}]},
    "shrinkable": False,
    "assumptions": [
        "deterministic single-threaded debuggee without int3 of its own and without signals; patches only at instruction starts",
        "RetDiscipline: an activation returns to the return address on top of the reference tracer's shadow stack (checked on the reference traces)",
        "the debugger's unwinder yields the return address and canonical frame address of the reference tracer for the positions visited (sampled by K)",
        "instructions executed outside the executable (libc, ld.so) have no place and no function in the debugger's debug information",
        "PrologInFn: the prologue range of a function lies inside the function (true when the function has a prologue_end row; C04 finding otherwise)",
        "no two consecutive equal pcs in the executable's trace (no rep-prefixed instruction in the program's own text)",
    ],
    "uncovered": [
        "steps interrupted by signals or watchpoints (StepResult::SignalInterrupt / WatchpointInterrupt)",
        "error paths: func.prolog() / find_place_from_pc failing inside a step, return address outside the executable (answered `out`, not compared further)",
        "multi-threaded debuggees (temporary breakpoint pid check)", "async steps",
    ],
}
