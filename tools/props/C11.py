CONFIG = {
    "lean_modules": ["BsVerif.Props.C11"],
    "audit": "BsVerif/Audit/C11.lean",
    "bsv_cmd": "c11",
    "technique": "Lean 4 invariant proofs over all command histories of a model of the debugger life cycle (start / continue / restart / detach / Drop, breakpoint and watchpoint registries, processes, threads, debug registers) + differential correspondence with the real Debugger on launched AND attached, single- and multi-threaded debuggees (answers, breakpoint snapshots, and the ptrace/waitpid boundary recorded by an in-process interposer) + independent oracle on the kernel's view (/proc, own ptrace attachment, the real parent's wait status)",
    "level_text": "TO BE FILLED",
    "level_note": "TO BE FILLED",
    "trivial_answers": ["ok", "bad-op", ""],
    "runs": {"quick": [{"n": 14, "timeout": 900}], "thorough": [{"n": 300, "timeout": 9000}]},
    "shrinkable": True,
    "assumptions": [],
    "uncovered": [],
}
