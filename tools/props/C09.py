CONFIG = {
    "lean_modules": ["BsVerif.Props.C09"],
    "audit": "BsVerif/Audit/C09.lean",
    "bsv_cmd": "c09",
    "technique": "Lean 4 invariant proofs over an executable acceptor model of the ptrace tracer (resume / group_stop_interrupt / apply_new_status / single_step / TraceeCtl / step_over_breakpoint) + trace validation: the recorded waitpid/ptrace stream of real multi-thread debugging sessions must be accepted by the model, which must reach the same stop reasons and thread tables + independent oracle (/proc task states, the debuggee's own arrival counters, native output)",
    "level_text": "WORK IN PROGRESS",
    "level_note": "Partial: theorems hold for the tracer model and for the kernel rules written down in Lean; the real kernel and scheduler are only sampled by the recorded runs.",
    "runs": {"quick": [{"n": 14, "timeout": 900}], "thorough": [{"n": 300, "timeout": 12000}]},
    "shrinkable": False,
    "trivial_answers": ["ok", "-", "bad-op", ""],
    "assumptions": [],
    "uncovered": [],
}
