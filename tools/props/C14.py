CONFIG = {
    "lean_modules": ["BsVerif.Props.C14"],
    "audit": "BsVerif/Audit/C14.lean",
    "bsv_cmd": "c14",
    "technique": "Lean 4 invariant proof over all add/remove/thread-creation (kernel spawn + the two tracer notifications in either order)/hit/end-of-scope/restart/exit+rerun histories of a model of the DR7/DR6 packing and of the watchpoint registry (constants re-extracted from register.rs / watchpoint.rs on every run) + differential correspondence with the real DebugControlRegister / DebugStatusRegister and with live debuggee histories (PTRACE_PEEKUSER of every thread) + independent Intel-layout oracle",
    "level_text": "Proved in Lean for every history: in every thread L_i is set iff an active watchpoint owns slot i and then DR_i/RW_i/LEN_i are its address/condition/size in the Intel encoding, G bits and GE clear, LE iff non-empty, at most four, unique slot owners, lowest free slot reused, no stale enable bit after removal, a new thread is equipped by whichever of its two notifications (parent's PTRACE_EVENT_CLONE, child's PTRACE_EVENT_STOP) the tracer handles first and the other one changes nothing, duplicates refused without side effect, the index loop of clear_local_disable_global leaves exactly the unscoped watchpoints for EVERY registry content (live and dead process) and restart / exit+rerun re-arm exactly those in the new process, DR6 hit -> slot; get/set field lemmas for all four slots. The refusal-without-side-effect clause (C14_refused_no_side_effect) is proved at full strength; it was false of the original code for a fifth watchpoint on a scoped local (companion breakpoint leaked), which has been repaired in the repository (fix commit 0211559: the debug register is taken before the companion is created); the former witness is replayed on the real code by corpus/C14 and by every seeded run, a regression being a VIOLATION. Model tied to the code on every run by exhaustive (slot, cond, size) x prior-image-class execution of the real register operations and by live histories on a real debuggee whose debug registers the harness reads itself after every command, including thread creations with the child's first stop delivered ahead of the clone event (the harness's waitpid interposer re-orders the two genuine kernel statuses) and restarts / exit+rerun with watchpoints on locals still set.",
    "level_note": "Trusted: Lean kernel + 3 standard axioms; tools/tables/dr.py (regex extraction of the layout constants); model<->code tie is exhaustive over the operation arguments and sampled over prior images / histories; hardware delivery of data breakpoints (every write stops once, old/new value) is sampled on live runs, not a theorem; kernel behaviour for a new thread's debug registers (cleared) and ESRCH paths are environment assumptions.",
    "shrinkable": False,
    "runs": {"quick": [{"n": 3000}], "thorough": [{"n": 60000, "extra": ["--live-sessions", "60"]}]},
    "assumptions": [
        "a newly cloned thread starts with DR0-3 cleared and a DR7 that reads back as its parent's (Linux x86 copy_thread drops the breakpoints but copies thread.ptrace_dr7; observed with PTRACE_PEEKUSER), until the tracer writes last_seen_state into it; the model mirrors that (kernelNewThread), with the main thread standing for the parent",
        "PTRACE_POKEUSER/PEEKUSER of u_debugreg round-trips DR0-3 and DR7 for well-formed images (sampled by the live run)",
        "hardware delivery of data breakpoints is not modelled: 'every write stops once and reports old/new value' is sampled, not proved",
        "exit+start and restart are modelled as one atomic step (clear_local_disable_global; new process; refresh): no user command can interleave",
        "a thread the tracer has not registered yet sits in its initial ptrace-stop and executes nothing (PTRACE_SEIZE + PTRACE_O_TRACECLONE auto-attach); the two notifications of a thread creation may be handled in either order, with user commands in between (modelled); a thread whose initial stop is lost or that dies before it is seen is not modelled",
        "with a dead process every ptrace request of clear_local_disable_global fails before anything is changed (ESRCH from PTRACE_PEEKUSER of the reaped pid)",
    ],
    "uncovered": [
        "HardwareDebugState::current/sync error paths (ESRCH while a thread is dying) are not modelled",
        "remove_by_dqe is modelled with an abstract expression id (DQE equality is not modelled)",
        "companion placement (choice of the end-of-scope address from DWARF ranges) is an input of the model, not modelled",
    ],
}
