import os
CONFIG = {
    "lean_modules": ["BsVerif.Props.C13"],
    "audit": "BsVerif/Audit/C13.lean",
    "bsv_cmd": "c13",
    "technique": "Lean 4 proofs over an executable model of the DAP adapter's breakpoint records on top of the debugger's registry with Address identity (Global before start / Relocated after), of should_skip_breakpoint and of HitCondition::parse/matches + differential correspondence with the real DebugSession driven in-process over a mock transport on a live debuggee (responses, stop pcs, console outputs and the INT3 set read from /proc/<pid>/mem after every request) + an independent specification oracle on the reference trace",
    "level_text": "Proved for ALL inputs (no bound): what a consulted record decides (condition false never stops, hitCondition N stops exactly on the N-th hit, a logpoint logs and never stops, comparison forms, N == =N == ==N for every operand text, non-numbers become `invalid`); a filtered run stops only at installed addresses, at an event of the execution, and never when nothing is installed (induction over the execution); for EVERY state of a running process and EVERY setBreakpoints / setFunctionBreakpoints request the installed set afterwards is exactly (old set minus the addresses recorded for the previous request of that kind) plus ALL locations of the new request, and `verified` is true exactly for the breakpoints that resolved, whose locations are then all installed; restart re-installs exactly the installed set and the start installs exactly the templates; the record lookup is sound and complete for the key it is given. The model is tied to the code on every run: seeded histories of setBreakpoints/setFunctionBreakpoints/setInstructionBreakpoints/setDataBreakpoints interleaved with configurationDone/continue/restart, before and after the start, on lines in plain, generic (two instantiations) and inlined code; per request the response flags and ids, the stop address (procfs), the console outputs and the set of INT3 bytes in the live text are compared with the model's answer.",
    "level_note": "PARTIAL on the unchanged tree: the full statements C13_replace_full, C13_options_time_invariant_full, C13_verified_iff_installed_full are FALSE of the code (kernel-checked counterexamples, each replayed on the real adapter: corpus/C13, known_findings.txt). The replace theorem holds for every trace and every history relative to the addresses the adapter RECORDED for the previous request (C13_replace_after_any_history, via the all-histories invariant `a running process has no pending templates`); that recorded = requested holds only for requests made while running with a single location, which is exactly where the counterexamples live; a single invariant `installed = union of the latest requests` under that hypothesis is not yet proved end to end. Line/function resolution (which addresses a line has) is an input of the model, taken from the debugger's own lookup and cross-checked against llvm-dwarfdump rows (C04's subject). Condition truth values of the debuggee's variables are ground truth of the debuggee source. Data breakpoints: only the slot accounting / verified flags (hardware watchpoint delivery does not work in this VM).",
    "runs": {"quick": [{"n": int(os.environ.get("C13_QUICK_N", "8")), "timeout": 1500}], "thorough": [{"n": 150, "timeout": 20000}]},
    "shrinkable": True,
    "assumptions": [
        "ASLR is off (the debugger sets ADDR_NO_RANDOMIZE), so relocated = global + fixed base; the model carries global values and the identity tag",
        "the debuggee is deterministic and single-threaded; its execution restricted to the candidate addresses is the reference trace of the independent single-stepper",
        "hit-condition texts are ASCII (Rust's Unicode `trim` is modelled on ASCII white space only)",
        "one source file per session besides a nonexistent one: the iteration order of the adapter's source HashMap cannot matter",
        "no user breakpoint at the ELF entry point (C01's hypothesis)",
    ],
    "uncovered": [
        "data breakpoint STOPS (no hardware watchpoint delivery in this VM); only verified flags / slot accounting are compared",
        "attach sessions, second `launch` in one session, source maps (client/target path mapping)",
        "conditions other than literals, a bare or parenthesised local, an unknown name, unparsable text; log messages with `{expr}` interpolation",
        "position identity across loop iterations: a stop is identified by its address (and by the order/number of stops), not by the iteration",
    ],
    "trivial_answers": ["ok", "bad-op", "", "- i=-", "o=- err i=-"],
}
