CONFIG = {
    "lean_modules": ["BsVerif.Props.C01"],
    "audit": "BsVerif/Audit/C01.lean",
    "bsv_cmd": "c01",
    "technique": "Lean 4 refinement proof (breakpoint registry + INT3 patching on an abstract trace machine refines 'next trace position in the breakpoint set') + differential correspondence on live debuggees with a ptrace interposer + reference single-step tracer",
    "level_text": "For every instruction trace, every original text and every interleaving of add/remove/start/continue, the Lean model of the registry/INT3 patch/step-over/continue loop reports exactly the successive trace positions whose address is a current user breakpoint, at the true pc, and keeps text = original + INT3 at enabled breakpoints (theorems C01_*). The model is tied to the real debugger on every run: seeded command histories on real debuggees must give the same stops AND the same sequence of text bytes written through PTRACE_POKE (recorded by an in-process interposer), and the real stops are also compared with the projection of an independent single-step reference trace.",
    "level_note": "Trusted: Lean kernel + 3 standard axioms; abstract-machine assumptions (deterministic debuggee, no int3 of its own, one-byte patches at instruction starts; DESIGN 2.1); relocation is identity in the model (C18); single thread (threads: C09); model<->code tie is sampling over generated histories on the programs of progs-src/.",
    "trivial_answers": ["ok", "ok p=-", "none p=-", "err p=-", "bad-op", ""],
    "runs": {"quick": [{"n": 40, "timeout": 600}], "thorough": [{"n": 1500, "timeout": 6000}]},
    "shrinkable": True,
    "assumptions": [
        "the debuggee is deterministic, does not read its own text and contains no int3 of its own on the executed path",
        "breakpoints are placed at instruction starts (the generator only uses addresses of the reference trace)",
        "no user breakpoint at the ELF entry point (the code replaces its internal entry breakpoint there and never reports it; excluded by the hypothesis NoBreakAtEntry of the theorem)",
        "no `remove` by address at the ELF entry point (remove_by_addr ignores the kind: it answers ok and deletes the internal entry breakpoint; hypothesis NoRemoveAtEntry)",
        "the native trace restricted to the executable starts at the ELF entry address (hypothesis of the theorem; true of every reference trace used)",
    ],
    "uncovered": ["line/function breakpoints enter through the address sets C04 resolves", "toolchains other than 1.89 and non-PIE (thorough tier / C18)"],
}
