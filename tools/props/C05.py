CONFIG = {
    "lean_modules": ["BsVerif.Props.C05"],
    "audit": "BsVerif/Audit/C05.lean",
    "bsv_cmd": "c05",
    "technique": "Lean 4 proofs (induction over call stacks of any depth) about an executable model of the DWARF unwinder "
                 "(UnwindContext::new/next, register rules, the unwind loop with its (ip, CFA) repetition guard, the undefined-return-address end of stack "
                 "and MAX_UNWIND_DEPTH, restore_registers_at_frame, return_address, get_cfa/frame_info, set_frame_into_focus) + differential "
                 "correspondence on live debuggees, the model being fed with "
                 "CFI rows decoded by llvm-dwarfdump, raw PTRACE_GETREGS and stack words from /proc/<pid>/mem + the shadow call stack of an "
                 "independent single-step reference tracer as oracle",
    "level_text": "Proved for every CFI table, memory, object map, register file and every real stack of ANY depth, recursion included, whose CFI is sound "
                  "(each frame's row recovers the real CFA and return address; the stack grows downwards): the backtrace is EXACTLY the real call chain, "
                  "innermost first, cut only by MAX_UNWIND_DEPTH (extracted from the source on every run) (C05_backtrace_is_stack); it never exceeds the "
                  "depth cap on any input (C05_depth_bound); the return address used by `finish` is the caller's pc (C05_return_address); selecting frame k "
                  "puts the context on the k-th real frame (C05_frame_select_ip); restore_registers_at_frame(k) hands out, on EVERY input, the registers "
                  "the unwinder carried into frame k (C05_frame_select), and on a sound chain it succeeds for every existing frame and the CFI is sound "
                  "for the rest of the stack from those registers, with the stack pointer of activation k (C05_frame_select_chain, C05_frame_select_sp); "
                  "frame_info() of the selected frame k reports number k, the real CFA of frame k and the pc of its caller's frame (C05_frame_info). "
                  "These full statements were FALSE of the code before the repairs 8bfa5c4, 25b89ab, cff3de5, 9f4a066 (see known_findings.txt, `fixed:` "
                  "lines); their witnesses stay in corpus/C05 and are replayed on the real debugger on every run. "
                  "The model is tied to the real Debugger on every run: at seeded stops (breakpoints after 0..300 continues, single steps through "
                  "prologues/epilogues/calls) of four debuggees (recursion to depth 300, mutual recursion, closures, trait objects, std iterator/sort "
                  "callbacks, one built with frame pointers) backtrace(), set_frame_into_focus(k), frame_info(), restore_registers_at_frame(k) and "
                  "return_addr() are compared line by line with the model's answers.",
    "level_note": "Trusted: Lean kernel + 3 standard axioms. 'CFI sound for the machine state' is a hypothesis (Chain): the rows are produced by "
                  "rustc/LLVM/glibc and decoded by gimli (environment); the correspondence run feeds the model with llvm-dwarfdump's decoding of the same "
                  "sections, so a gimli/llvm disagreement on a visited row shows up as a K mismatch. DWARF-expression CFA/register rules are outside the "
                  "model (stops that need one are skipped and counted). Single thread only (every thread is unwound by the same code from its own "
                  "registers; thread_state is not sampled). Variable/argument reads above restore_registers_at_frame "
                  "(DWARF expression evaluator, frame base) are C06/C19. The model<->code tie is sampling.",
    "trivial_answers": ["ok", "bad-op", "", "no-stop-env", "err"],
    "runs": {"quick": [{"n": 10, "timeout": 900}], "thorough": [{"n": 240, "timeout": 9000}]},
    "shrinkable": False,  # a replay step is a live session; the replay is the session itself
    "rule": "seeded sessions on live debuggees; a case is one observation (bt / frame k / finfo / regs k / retaddr) at a stop whose description "
            "(registers, object ranges, CFI rows of the frame pcs, stack words) was obtained without the debugger; distinct = different (request, answer)",
    "assumptions": [
        "the CFI rows are sound for the machine state (hypothesis `Chain` of the theorems): evaluating the row of each frame's pc on the registers recovered so far yields the real CFA and return address",
        "the outermost frame ends the chain: its row gives the return-address column the rule `undefined` (`_start`, `clone`), or the return address has no unwind information",
        "the stack grows downwards: the CFA of a caller's frame is strictly greater than its callee's (part of `Chain`)",
        "overflow checks are on (RelocatedAddress::offset panics instead of wrapping; harness builds the library with the dev profile)",
        "DWARF register numbers in rules are below the length of DwarfRegisterMap (154, extracted); larger numbers panic in the code and in the model",
        "x86-64 psABI DWARF register numbering and the text format of llvm-dwarfdump-14 --eh-frame (constants of the harness)",
        "object load addresses equal those of the reference run (ASLR off on both sides), relocation is C18",
    ],
    "uncovered": [
        "threads other than the main thread; Debugger::thread_state()",
        "CFA / register rules given as DWARF expressions (PLT stubs, signal trampolines), .debug_frame-only objects",
        "FrameSpan's function name / place lookup (C04), frame base and variable reads in the selected frame (C06/C19)",
        "stops inside shared libraries reached by stepping out of the executable (position unknown to the reference trace: skipped and counted)",
        "toolchains other than 1.89, optimised code",
    ],
}
