CONFIG = {
    "lean_modules": ["BsVerif.Props.C08", "BsVerif.Props.C08Dap"],
    "audit": ["BsVerif/Audit/C08.lean", "BsVerif/Audit/C08Dap.lean"],
    "bsv_cmd": "c08",
    # request files whose first line belongs to the DAP leg (area id C08D) are executed by the sub-command c08dap
    "area_cmds": {"C08D": "c08dap"},
    # which setting of the model's `Quirks` the current tree is compared with: "asfound" (numeric tokens converted with
    # unwrapped()/unwrap(), unchecked slice arithmetic) or "repaired" (after the `try_map` / bounds repair)
    "bsv_extra": ["--quirks", "asfound"],
    "technique": "Lean 4 totality / in-bounds proofs about a PEG model of the console command grammar (numeric tokens with Rust overflow semantics), the slice/index arithmetic and the decoder reads + differential correspondence of outcome classes (ok/err/panic site/abort) with the real code under catch_unwind (parser in-process, slices on a live debuggee in forked workers)",
    "level_text": "Proved in Lean for all inputs: exactness of the numeric conversions (C08_num_conv_exact: checked multiply-add = mathematical value iff in range, any radix/width/digit string), panic-freedom of the command parser model for every string in the repaired setting (C08_cmd_total_repaired) and, as found, for every line whose numeric tokens are in range (C08_cmd_total_partial, decidable predicate) with the refutation of the full statement on `break remove 4294967296` (C08_cmd_total_counterexample); slice arithmetic total within left<=len, left<=right (C08_slice_total_partial), results are in-bounds contiguous runs (C08_slice_in_bounds), pointer-slice reads stay in the requested range (C08_ptr_slice_total_partial), member extraction inside the fetched bytes for every layout whose members lie inside the struct (C08_decode_in_bounds) with a model-level counterexample for DW_ATE_UTF of size 2. The model is tied to the code on every run by executing the same grammar-derived, mutated and garbage command lines through Command::parse and the same slice/index queries through Debugger::read_variable on a live debuggee and comparing outcome classes.",
    "level_note": "Partial: the unchanged tree panics (9 classes reproduced, see known_findings.txt), so the full statements are proved only for the model's repaired setting. Trusted: Lean kernel + 3 standard axioms; chumsky's combinator semantics read as a PEG (sampled by the correspondence run, exact ok/err agreement); ASCII restriction of Unicode identifier classes; tie is sampling. DAP leg (Props/C08Dap.lean, harness c08dap): argument decoding and string/number handling of all 43 request handlers up to the first call into the debugger, tied per message (outcome class incl. the rejection site); what the debugger answers after that is taken from the wire. Not covered: hashbrown/B-tree walks, decoder reads on the real code (model + theorem only; needs `verif::probe` hooks).",
    "runs": {"quick": [{"n": 6000, "timeout": 900}, {"cmd": "c08dap", "n": 700, "timeout": 2400}],
             "thorough": [{"n": 150000, "timeout": 3000}, {"cmd": "c08dap", "n": 9000, "timeout": 12000}]},
    "trivial_answers": ["ok", "-", "bad-op", "", "nopanic", "closed", "ignored"],
    "assumptions": [
        "chumsky 0.10 combinators are a PEG: ordered choice commits to the first success, repetition is greedy, `unwrapped()` panics only in emit mode (all numeric tokens of the grammar are in emit mode)",
        "input is ASCII (text::ident() uses Unicode XID classes; the model uses their ASCII restriction)",
        "dev/test profile (overflow checks on): `-(i64::MIN)`, usize `-`, `*`, `+` panic; in a release build these wrap instead (Quirks.overflowChecks)",
        "allocation requests above 2^47 bytes fail (abort), requests up to 64 KiB succeed; nothing in between is generated",
        "the debuggee's stack pointer variable lies in [4096, 2^47)",
        "DAP leg: messages are JSON objects or scalars (serde also accepts an array as a `DapRequest` sequence: not generated); values behind placeholders (thread id, frame id, variables reference, mapped address) are taken from the wire at run time, the model sees a representative of the same shape",
        "DAP leg: expressions carrying an out-of-range numeric token are ASCII (the identifier classes of the parser model are ASCII-restricted); `cancel` never names a progress id of the adapter (`bs-progress-N`)",
        "DAP leg: `attach`, `terminateThreads`, `runInTerminal` are only given process ids / programs that cannot exist on a Linux machine (ids above 4194304, paths under /nonexistent); thread id 0 is sent only inside a worker that is its own process group",
    ],
    "uncovered": ["DAP: what the debugger does after the arguments are decoded (evaluation, stepping, memory access) is not modelled: there the run itself is the search (any panic / death / hang is an oracle failure); array-shaped request envelopes, unparsable JSON text (transport), `attach` to an existing process, `runInTerminal` of an existing program, signals to existing thread ids are never generated", "decoder reads on the real code (scalar_from_bytes / StructureMember::value): theorem + model only, no probe hook yet",
                  "hashbrown / B-tree walks on arbitrary memory (C08_decode_terminates)", "Unicode identifiers / Unicode white space in command lines", "command lines longer than ~300 characters; deep nesting (stack overflow of the recursive-descent parser) is not explored"],
}
