CONFIG = {
    "lean_modules": ["BsVerif.Props.C19"],
    "audit": "BsVerif/Audit/C19.lean",
    "bsv_cmd": "c19",
    "technique": "Lean 4 proofs about an executable model of the scope filter (queue-based breadth-first traversal of the function's DIE subtree, "
                 "nearest enclosing lexical_block/subprogram ranges), name lookup (first valid match in traversal order), parameter selection, "
                 "location-list entry selection, the DWARF<->machine register tables (re-extracted from register.rs on every run) and the stack "
                 "pointer of the selected frame + differential correspondence on live debuggees (opt-level 0 and 1) whose DIE trees, location "
                 "lists and frame bases are decoded independently by llvm-dwarfdump + oracle from the debuggee's source text (static scope "
                 "model, unique literal per binding, per-activation argument values) and an independent evaluation of register locations",
    "level_text": "Proved for every DIE tree, pc and name: `var locals` lists exactly the DW_TAG_variable descendants whose nearest enclosing "
                  "lexical block / subprogram has a half-open range containing the pc (C19_locals_in_scope, the breadth-first queue traversal "
                  "visits exactly the proper descendants); `var <name>` returns a live binding of the name, none iff there is none, and one of "
                  "MINIMAL depth (C19_lookup_sound/_complete/_is_shallowest) - so the property's clause 'a shadowed name resolves to its innermost "
                  "live binding' is proved only where the name has at most one live binding (C19_shadow_innermost_partial) and is refuted on a "
                  "witness (C19_shadow_innermost_counterexample; reproduced on the real debugger: known finding). Location lists: the entry used is "
                  "the first whose half-open range contains the pc unless the pc is an entry's end address (C19_loclist_entry_partial; "
                  "_counterexample at a boundary pc, reproduced on an opt-level=1 binary: known finding). Registers: for every register file and "
                  "every DWARF register number the map built by DwarfRegisterMap::from yields exactly the psABI register "
                  "(C19_regmap_reads_abi_register, C19_register_resident_value); dwarf_register/From<gimli::Register> are mutually inverse except "
                  "for rip (C19_regmap_bijection_partial/_counterexample). Frames: a stack variable of frame k+1 is read relative to the CFA of "
                  "frame k, so activations of a recursive function show their own values (C19_frame_values, _distinct).",
    "level_note": "Trusted: Lean kernel + 3 standard axioms. The tie model<->code is sampling: per run some hundred stops (biased to block-range and "
                  "location-list boundaries), every user frame of each stop, every variable name of the frame's function. gimli (DIE decoding, "
                  "expression evaluation) is environment; its view of the DIE tree is compared with llvm-dwarfdump's through the answers. The "
                  "callee-saved registers of OUTER frames come from the CFI rules (C05's domain): for register-resident values in outer frames "
                  "the model echoes the implementation (counted in the distribution as read.in-outer-frame hints); the oracle checks them "
                  "against the source values at opt-level 0 only. That rustc opens a new lexical block after each `let` (which is what makes "
                  "'declared later' a block-range question) is an assumption about the compiler, sampled by the oracle.",
    "runs": {"quick": [{"n": 4, "timeout": 900}], "thorough": [{"n": 40, "timeout": 6000}]},
    "shrinkable": False,
    "trivial_answers": ["ok", "-", "bad-op", "", "none", "nofn", "noframe", "exit"],
    "assumptions": [
        "the function DIE handed to the scope filter is the subprogram whose range contains the pc (C04_pc_to_function)",
        "DIE offsets increase from parent to child and a unit's DIEs form a tree (gimli's entries_tree)",
        "rustc emits one lexical block per `let` scope; DW_AT_frame_base of the sampled functions is DW_OP_reg7 (checked per function by the driver)",
        "RegisterMap field order = enum Register order (C15's extracted tables)",
        "outer frames: only rsp := CFA(callee) is modelled; other restored registers are C05's CFI model",
    ],
    "uncovered": ["global / thread-local variables (find_variables fallback when no local matches and local_only is false)",
                  "DW_OP_entry_value, DW_OP_piece, implicit pointers, TLS locations", "inlined_subroutine parameters (abstract origins)",
                  "callee-saved register restore in outer frames (echoed, see level_note)", "shared-library debug information"],
}
