CONFIG = {
    "lean_modules": ["BsVerif.Props.C16"],
    "audit": "BsVerif/Audit/C16.lean",
    "bsv_cmd": "c16",
    "technique": "Lean 4 proofs about an executable model of Debugger::call (literal conversion, System V register assignment, CallContext save/restore, the mmap / jmp / call;int3 / munmap trampoline with every ptrace request fallible, breakpoints disabled around it, and a kernel+CPU model of the three injected instruction sequences with an ARBITRARY callee) + differential correspondence of the COMPLETE ptrace traffic of every call on a live debuggee (in-process interposer: every PEEK/POKE word, every SETREGS register file, STEP/CONT order, injected ptrace failures) + independent oracles (the debuggee's own argument log, raw GETREGS, /proc/<pid>/mem text vs ELF, /proc/<pid>/maps, program output vs native run)",
    "level_text": "Proved in Lean for all inputs: an in-range literal reaches the callee as exactly that value at the parameter's width and sign (C16_literal_faithful_*), wrong literal kinds are refused (C16_literal_kind_checked), argument i travels in the i-th System V integer register and no other register is touched (C16_sysv_order — table re-extracted from get_reg_for_no on every run —, C16_args_in_sysv_registers, C16_args_touch_only_sysv_registers), and with_ccx restores every register and the code word at pc after ANY body, i.e. from every failure point (C16_restore_from_any_failure; the only escape is the debugger's own panic when the restoring requests fail). The clause 'a literal that does not fit is refused' is FALSE of the code (C16_literal_range_counterexample: 300 for a u8 is passed as 44) and replayed on the real code. The model is tied to the real Debugger on every run: for seeded calls (0..7 arguments of every integer width, bool, pointer, unsupported kinds, wrong counts, unknown functions) made at stops in main, in a loop, inside a callee and inside a leaf function, with breakpoints present, the model predicts the outcome class, the complete ptrace traffic and the post-state, compared line by line.",
    "level_note": "Trusted: Lean kernel + 3 standard axioms; the kernel/CPU model of `syscall` (mmap/munmap only), `jmp *%rax`, `call *%rax; int3` (the callee returns normally: no signal, no exit); the callee's effect is not observable at the ptrace boundary, it is quantified in the theorems and checked by the oracle (argument log, program output). Stop state (pc, registers), the kernel's choice of the page and the HashMap walk order of the breakpoints are read off the ptrace boundary and passed to the model (the theorems hold for every such choice). vard/argd ({:?} rendering through injected calls) is not modelled.",
    "trivial_answers": ["ok", "bad-op", "", "e-notstarted t=- post=-;0;0", "after-fault t=- post=-;0;0"],
    "runs": {"quick": [{"n": 10, "timeout": 900}], "thorough": [{"n": 150, "timeout": 12000}]},
    "shrinkable": False,
    "rule": "seeded generator in the harness; a case is one `call` request executed on the real Debugger at a stop of a live debuggee and on the Lean model; distinct = different (request, answer); non-trivial = the answer carries ptrace traffic",
    "assumptions": [
        "deterministic single-threaded debuggee; the callee returns normally onto the trampoline's int3 (no signal, no exit, no breakpoint inside: they are disabled)",
        "Linux x86-64: `syscall` returns in rax, clobbers rcx/r11; a fresh anonymous page is zero-filled and disjoint from everything mapped; PTRACE_POKEDATA writes exactly 8 bytes",
        "the function address is the ELF symbol's address and the parameter types are those of the debuggee's source (ground truth table in the harness)",
    ],
    "uncovered": [
        "vard/argd (call_debug_fmt): not modelled; oracle-only if exercised",
        "floating-point / by-value aggregate parameters (the code refuses them; only the refusal is exercised)",
        "multi-threaded debuggees; callee that raises a signal or exits",
        "the global CallCache across debuggees in one process (every session is a fresh worker process)",
    ],
}
