CONFIG = {
    "lean_modules": ["BsVerif.Props.C07"],
    "audit": "BsVerif/Audit/C07.lean",
    "bsv_cmd": "c07",
    "technique": "Lean 4 proofs about (i) a character-level recursive-descent mirror of the chumsky DQE grammar with a canonical printer and (ii) an executable model of Value::{field,index,slice,deref,address,canonic} and match_literal over abstract value trees + differential correspondence: strings through the real expression::parser() (AST compared as canonical text) and expressions through Debugger::read_variable on a live debuggee whose values are known from its source; independent oracle = the documented meaning evaluated over that ground truth, and Literal::to_string() must parse back",
    "level_text": "PLACEHOLDER",
    "level_note": "PLACEHOLDER",
    "runs": {"quick": [{"n": 2500, "timeout": 900}], "thorough": [{"n": 40000, "timeout": 6000}]},
    "trivial_answers": ["ok", "-", "bad-op", "", "err", "perr", "none"],
    "shrinkable": True,
    "rule": "seeded generators in the harness; parse leg: canonical / padded / mutated / garbage texts and Display texts of random literals, one request line each, answered by the real parser and by the Lean grammar mirror (AST as canonical text); eval leg: type-directed random operator chains (with deliberate misapplications) over the 46 variables of progs/c07_vals, answered by Debugger::read_variable and by the Lean operator model over the shipped ground-truth trees; distinct = different (request, answer); non-trivial = the answer carries an AST or a value",
    "assumptions": ["PLACEHOLDER"],
    "uncovered": ["PLACEHOLDER"],
}
