CONFIG = {
    "lean_modules": ["BsVerif.Props.C02"],
    "audit": "BsVerif/Audit/C02.lean",
    "bsv_cmd": "c02",
    "technique": "Lean 4 invariant proof (text = ELF image + INT3 at registered breakpoints; temporaries never survive a step; single-step executes once) + differential correspondence of every poked text byte on live debuggees + /proc/<pid>/mem text-vs-ELF oracle + native output/exit oracle",
    "level_text": "The Lean model of the registry, of temporary breakpoints and of the step-command bookkeeping is proved (for every trace, text, breakpoint set, choice of temporaries and command history) to keep the text equal to the on-disk image except for an INT3 at exactly the user breakpoints and the documented entry breakpoint, to leave no temporary behind a completed step, and to execute each instruction of the native trace exactly once in order; all of it also with context-only commands (frame selection, backtrace, reading locals) interleaved at will (C02_text_at_prompt_ctx, C02_native_equivalence_ctx, C02_ctx_ops_invisible_steps: the step commands start from the thread's real pc whatever frame is focused). It is tied to the real debugger on every run by comparing, per command, the stop/landing pc and every text byte written through PTRACE_POKE (in-process ptrace interposer) on seeded histories of break/remove/continue/stepi/step/next/finish with frame selections and inspections in between; independently, after every command the live text is read through /proc/<pid>/mem and compared with the ELF file, and output + exit status are compared with a native run.",
    "level_note": "Trusted: Lean kernel + 3 standard axioms; abstract machine assumptions (DESIGN 2.1); the set of temporaries and the number of instruction steps of a step command are taken from the observed ptrace traffic (the theorems hold for every such choice; where steps SHOULD land is C03); watch/call/restart/detach are covered by C14/C16/C11; single thread.",
    "trivial_answers": ["ok", "ok p=-", "none p=-", "err p=-", "bad-op", ""],
    "runs": {"quick": [{"n": 24, "timeout": 900}], "thorough": [{"n": 800, "timeout": 12000}]},
    "assumptions": [
        "deterministic debuggee without int3 of its own; patches only at instruction starts",
        "no two consecutive equal pcs in the executable's trace (no rep-prefixed instruction in the program's own text); checked on the reference traces",
    ],
    "uncovered": ["error paths of step commands under injected ptrace faults (planned: fault_enumeration via the interposer)", "watch/call/restart/detach commands (C14/C16/C11)"],
}
