CONFIG = {
    "lean_modules": ["BsVerif.Props.C04"],
    "audit": "BsVerif/Audit/C04.lean",
    "bsv_cmd": "c04",
    "technique": "Lean 4 proofs about an executable model of the line-table / DIE-range lookups (binary search of core::slice written out, "
                 "pc->row, pc->unit, pc->function, line->places, function->prologue end) + exhaustive-per-binary differential correspondence with the "
                 "real lookups on the debugger's own parsed tables + llvm-dwarfdump/objdump as independent decoder",
    "level_text": "Proved for every address-sorted row table and every query: the binary search returns the last index whose key is <= the target "
                  "(C04_binary_search_*), pc->row is the last stored row with address <= pc (C04_pc_to_row_last) and, for EVERY line program as the parser stores it "
                  "(stable sort by (address, !end_sequence), modelled: storeRows), a non-end_sequence row of greatest address <= pc whenever one exists "
                  "(C04_pc_to_row, full strength after the repair of the sort); pc->unit, pc->function (range containing pc with the greatest begin); every place of a line breakpoint is "
                  "an is_stmt row of the line, or of the next line only if NO compilation unit has an is_stmt row of the line (one decision over the whole list of "
                  "units: C04_line_to_addrs_sound, _line_wins, _fallback), at most one per function; a function "
                  "breakpoint is the first prologue_end row of the function at or after its low_pc row and below its end, else that low_pc row, so it lies inside the function's ranges whenever low_pc has a row (C04_fn_to_addr, _cases, _first_pe; full after the repair of prolog_end_place); file-range places are is_stmt rows that do not end a sequence (C04_file_range_places_sound). The model is "
                  "tied to the code on every run: the implementation's stored tables are shipped to the model, every instruction address of the user "
                  "functions, every source line and every function of several compiled binaries are asked on both sides and compared (two of the binaries are an rlib + a "
                  "binary crate in 16 codegen units: one source file with rows in up to 7 units; every line of every file for which some unit lacks "
                  "the line but has the next one is asked, the other multi-unit lines are sampled); the stored tables and "
                  "all answers are also compared with llvm-dwarfdump's decoding.",
    "level_note": "Trusted: Lean kernel + 3 standard axioms; the model<->code tie is sampling (per-binary exhaustive for user code, seeded samples of the "
                  "standard-library units); gimli's decoding is environment but its result is compared with llvm-dwarfdump on every run; path-template "
                  "matching is C17's theorem (queries use full paths). Completeness of line breakpoints (one per function containing the line) is NOT proved: "
                  "it is false of the code (C04_line_to_addrs_counterexample: sibling rule, known finding; the prologue_end look-ahead defect is repaired: C04_line_to_addrs_pe_lookahead_witness). The oracle identifies a source file by its exact path (/rustc/<hash>/ remapped to the default toolchain's sources, the rule the debugger applies).",
    "runs": {"quick": [{"n": 120, "timeout": 3000}], "thorough": [{"n": 1500, "extra": ["--all-progs"], "timeout": 6000}]},
    "shrinkable": False,
    "trivial_answers": ["ok", "-", "bad-op", "", "none"],
    "assumptions": [
        "core::slice::binary_search_by is the size-halving loop of the pinned toolchain 1.89 (written out in the model; differs between Rust releases)",
        "interned/equal strings: file paths and function names are represented by ids (equal ids iff equal strings)",
        "files_index.get(full path) yields the (unit, file) pairs in registry order (C17_index_refines_suffix)",
    ],
    "uncovered": ["find_eb / epilogue lookups", "find_lines_for_range", "path templates shorter than the full path (C17)", "shared-library debug information (only the main executable's tables are queried)"],
}
