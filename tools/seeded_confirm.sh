#!/bin/sh
# usage: tools/seeded_confirm.sh <scratch-worktree-of-repo> <dir with patch.diff and demo/run.sh>
# Confirms a seeded property-breaking change: applies, pinned suite still passes, demo fails with / passes without the change.
# Leaves the worktree clean. Prints CONFIRM lines; exit 0 iff all three hold.
WT="$1"; D="$2"
git -C "$WT" checkout -- . || exit 2
git -C "$WT" apply "$D/patch.diff" || { echo "CONFIRM apply=FAILED"; exit 1; }
# suite with the change (baseline_check.sh reruns load-induced misses serially)
"$(dirname "$0")/baseline_check.sh" "$WT" > "$D/suite_with_patch.log" 2>&1
if grep -q "NOT PASSING" "$D/suite_with_patch.log"; then SUITE=FAIL; else SUITE=pass; fi
echo "CONFIRM suite_with_patch=$SUITE"
CARGO_TARGET_DIR="$WT/target" sh "$D/demo/run.sh" "$WT" > "$D/demo_with_patch.confirm.log" 2>&1; RC1=$?
echo "CONFIRM demo_with_patch rc=$RC1 (want != 0)"
git -C "$WT" checkout -- .
CARGO_TARGET_DIR="$WT/target" sh "$D/demo/run.sh" "$WT" > "$D/demo_without_patch.confirm.log" 2>&1; RC0=$?
echo "CONFIRM demo_without_patch rc=$RC0 (want 0)"
[ "$SUITE" = pass ] && [ "$RC1" != 0 ] && [ "$RC0" = 0 ]
