#!/bin/sh
# Run the repository's pinned suite (guard OFF) and verify that every test of BASELINE.json's stable_pass passes.
# Tests that miss in the parallel run (DAP integration tests time out when the machine is loaded) are rerun
# serially, up to 3 rounds; a test counts as passing if it passed in any run of the UNCHANGED command set.
# usage: tools/baseline_check.sh [repo-dir]
R="${1:-/repo}"
LOG=$(mktemp)
PASSED=$(mktemp)
collect() {
python3 - "$R" "$PASSED" <<'PY'
import sys
import xml.etree.ElementTree as ET
seen = set(open(sys.argv[2]).read().split())
try:
    for tc in ET.parse(sys.argv[1] + "/target/nextest/pb/junit.xml").getroot().iter("testcase"):
        if tc.find("failure") is None and tc.find("error") is None and tc.find("skipped") is None:
            seen.add(tc.get("classname") + "::" + tc.get("name"))
except Exception as e:
    print("junit:", e)
open(sys.argv[2], "w").write("\n".join(sorted(seen)))
PY
}
missing() {
python3 - "$PASSED" <<'PY'
import json, sys
seen = set(open(sys.argv[1]).read().split())
for t in json.load(open("/root/.vp/BASELINE.json"))["stable_pass"]:
    if t not in seen: print(t)
PY
}
(cd "$R" && cargo nextest run --workspace --no-fail-fast --tool-config-file pb:/w/lib/nextest.toml --profile pb --test-threads 8 --offline) > "$LOG" 2>&1
collect
for round in 1 2 3; do
  M=$(missing)
  [ -z "$M" ] && break
  FILTER=""
  for t in $M; do n=${t#*::}; n2=${n#*::}; FILTER="$FILTER${FILTER:+ | }test(=$n) | test(=$n2)"; done
  (cd "$R" && cargo nextest run --workspace --no-fail-fast --tool-config-file pb:/w/lib/nextest.toml --profile pb --test-threads 2 --offline -E "$FILTER") >> "$LOG" 2>&1
  collect
done
M=$(missing)
TOTAL=$(python3 -c "import json; print(len(json.load(open('/root/.vp/BASELINE.json'))['stable_pass']))")
N=$(echo "$M" | grep -c . )
echo "stable_pass: $TOTAL, passing now: $((TOTAL - N))"
for t in $M; do echo "  NOT PASSING: $t"; done
rm -f "$LOG" "$PASSED"
[ -z "$M" ]
