#!/bin/sh
# Run the repository's pinned suite (guard OFF) and verify that every test of BASELINE.json's stable_pass passes.
# usage: tools/baseline_check.sh [repo-dir]
R="${1:-/repo}"
LOG=$(mktemp)
(cd "$R" && cargo nextest run --workspace --no-fail-fast --tool-config-file pb:/w/lib/nextest.toml --profile pb --test-threads 8 --offline) > "$LOG" 2>&1
python3 - "$LOG" "$R" <<'PY'
import json, re, sys
import xml.etree.ElementTree as ET
passed = set()
for tc in ET.parse(sys.argv[2] + "/target/nextest/pb/junit.xml").getroot().iter("testcase"):
    if tc.find("failure") is None and tc.find("error") is None and tc.find("skipped") is None:
        passed.add(tc.get("classname") + "::" + tc.get("name"))
want = json.load(open("/root/.vp/BASELINE.json"))["stable_pass"]
missing = [t for t in want if t not in passed]
print(f"stable_pass: {len(want)}, passing now: {len(want) - len(missing)}")
for t in missing: print("  NOT PASSING:", t)
sys.exit(1 if missing else 0)
PY
RC=$?
rm -f "$LOG"
exit $RC
