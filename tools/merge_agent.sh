#!/bin/sh
# usage: tools/merge_agent.sh <name>   — merge branch a-<name> into /verif main, resolving the generated-file conflicts
N="$1"
cd /verif || exit 1
git merge "a-$N" -m "merge a-$N" >/tmp/merge_$N.log 2>&1
python3 - <<'PY'
import re, subprocess
out = subprocess.run(["git","diff","--name-only","--diff-filter=U"],capture_output=True,text=True).stdout.split()
for f in out:
    if f in ("known_findings.txt", "DESIGN.md"):
        s = open(f).read()
        s = s.replace('<<<<<<< HEAD\n','').replace('=======\n','\n' if f == 'DESIGN.md' else '')
        s = re.sub(r'>>>>>>> a-[\w-]+\n','',s)
        open(f,'w').write(s)
    elif f in ("MANIFEST.json","lean/Driver/Main.lean") or f.startswith("evidence/"):
        subprocess.run(["git","checkout","--ours",f])
    else:
        print("UNRESOLVED:", f)
PY
