#!/usr/bin/env python3
"""Write MANIFEST.json from tools/props.py (claimed properties) and the NOT_APPLICABLE table below."""
import json, os, sys
ROOT = os.path.dirname(os.path.dirname(os.path.abspath(__file__)))
sys.path.insert(0, os.path.join(ROOT, "tools"))
from props import PROPS, NOT_APPLICABLE

all_ids = [json.loads(l)["id"] for l in open(os.path.join(ROOT, "properties.jsonl"))]
checks = []
for pid in all_ids:
    if pid not in PROPS: continue
    c = PROPS[pid]
    checks.append({
        "property_id": pid,
        "quick_cmd": f"./check {pid} quick",
        "thorough_cmd": f"./check {pid} thorough",
        "evidence_file": f"evidence/{pid}.json",
        "replay_cmd_template": f"./check {pid} --replay {{path}}",
        "engine": "lean4-proof+correspondence",
        "level_claimed": {"category": "proof", "text": c["level_text"], "design_ref": f"DESIGN.md section 4 ({pid})"},
        "level_note": c["level_note"],
        "technique": c["technique"],
    })
na = [{"property_id": p, "reason": NOT_APPLICABLE[p]} for p in all_ids if p not in PROPS]
missing = [p for p in all_ids if p not in PROPS and p not in NOT_APPLICABLE]
assert not missing, missing
m = {
    "version": 1,
    "setup_cmd": "./setup.sh",
    "hooks": {
        "guard": "cargo feature `verif`",
        "enable": "the harness crate depends on bugstalker with features = [\"verif\"] (harness/Cargo.toml); cargo rebuilds /repo's working tree on every check",
        "baseline_off_cmd": "cd /repo && cargo nextest run --workspace --no-fail-fast --tool-config-file pb:/w/lib/nextest.toml --profile pb --test-threads 8 --offline",
        "source_commits": [l.split()[0] for l in os.popen("git -C /repo log --format='%h %s' 8e73170..HEAD").read().split("\n") if l and l.split()[1].startswith("verif")],
        "add_only": True,
    },
    "engines": [{"name": "lean4-proof+correspondence", "path": "check", "serves_properties": [c["property_id"] for c in checks],
                 "kind_free_text": "Lean 4 theorems about hand-written executable models (lean/BsVerif), tied to /repo on every run by a differential correspondence run (harness/ executes the same request lines on the real code and on the model driver `bsmodel`) plus an independent oracle; tables regenerated from source by tools/extract_tables.py"}],
    "checks": checks,
    "not_applicable": na,
    "notes": "See DESIGN.md. A broken proof obligation or model<->code disagreement triggers a search for a failing input; known genuine defects are listed in known_findings.txt.",
}
json.dump(m, open(os.path.join(ROOT, "MANIFEST.json"), "w"), indent=1)
print("claimed:", [c["property_id"] for c in checks], "not_applicable:", [x["property_id"] for x in na])
