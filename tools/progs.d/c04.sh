# C04 matrix: <source>__<toolchain>__<opt>[__d5]   (C objects: <source>__gcc / __clang); sourced by tools/build_progs.sh
build_rs() { # src toolchain name flags...
    src=$1; tc=$2; out=progs/$3; shift 3
    if [ ! -x "$out" ] || [ "progs-src/$src.rs" -nt "$out" ]; then
        if rustup run "$tc" rustc --version >/dev/null 2>&1; then
            rustup run "$tc" rustc -g "$@" "progs-src/$src.rs" -o "$out" 2>/dev/null || echo "build_progs: $out not built (rustc $tc $*)" >&2
        else
            echo "build_progs: toolchain $tc missing, $out skipped" >&2
        fi
    fi
}
build_c() { # src compiler name flags...
    src=$1; cc=$2; out=progs/$3; shift 3
    if [ ! -x "$out" ] || [ "progs-src/$src.c" -nt "$out" ]; then
        if command -v "$cc" >/dev/null 2>&1; then
            "$cc" -g "$@" "progs-src/$src.c" -o "$out" 2>/dev/null || echo "build_progs: $out not built ($cc $*)" >&2
        else
            echo "build_progs: $cc missing, $out skipped" >&2
        fi
    fi
}
# --- C04
for src in c04_gen c04_inl; do
    for tc in 1.89 stable nightly; do
        for opt in 0 1; do
            build_rs $src $tc ${src}__${tc}__o${opt} -C opt-level=$opt
        done
    done
    build_rs $src 1.89 ${src}__1.89__o0__d5 -C opt-level=0 -C dwarf-version=5
    build_rs $src stable ${src}__stable__o1__d5 -C opt-level=1 -C dwarf-version=5
    build_rs $src stable ${src}__stable__o0__nopie -C opt-level=0 -C relocation-model=static
done
build_c c04_c gcc c04_c__gcc -O0
build_c c04_c clang c04_c__clang -O0
# --- C04 multi-unit debuggee: rlib crate progs-src/c04_mulib.rs (generic + #[inline] functions) + binary crate
# progs-src/c04_mu.rs split into several codegen units: ONE source file has line rows in several compilation units.
build_mu() { # toolchain name flags...
    tc=$1; out=progs/$2; dir=progs/c04_mu.d/$2; shift 2
    if [ ! -x "$out" ] || [ progs-src/c04_mu.rs -nt "$out" ] || [ progs-src/c04_mulib.rs -nt "$out" ] || [ tools/progs.d/c04.sh -nt "$out" ]; then
        if rustup run "$tc" rustc --version >/dev/null 2>&1; then
            mkdir -p "$dir"
            { rustup run "$tc" rustc -g "$@" --crate-type rlib --crate-name c04_mulib progs-src/c04_mulib.rs --out-dir "$dir" \
              && rustup run "$tc" rustc -g "$@" -C codegen-units=16 --extern c04_mulib="$dir/libc04_mulib.rlib" progs-src/c04_mu.rs -o "$out"; } 2>"$dir/rustc.log" \
              || echo "build_progs: $out not built (rustc $tc $*), see $dir/rustc.log" >&2
        else
            echo "build_progs: toolchain $tc missing, $out skipped" >&2
        fi
    fi
}
for tc in 1.89 stable nightly; do
    for opt in 0 1; do
        build_mu $tc c04_mu__${tc}__o${opt} -C opt-level=$opt
    done
done
build_mu 1.89 c04_mu__1.89__o0__d5 -C opt-level=0 -C dwarf-version=5
build_mu stable c04_mu__stable__o0__nopie -C opt-level=0 -C relocation-model=static
