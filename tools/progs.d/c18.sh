# C18 link modes: <name> built from progs-src/c18_main.rs with --cfg plain|startup|dl; two cdylibs libc18a.so / libc18b.so.
# Sourced by tools/build_progs.sh (cwd = /verif). Idempotent, offline, toolchain 1.89.
c18_rs() { # out src flags...
    out=progs/$1; src=progs-src/$2.rs; shift 2
    if [ ! -x "$out" ] || [ "$src" -nt "$out" ] || [ tools/progs.d/c18.sh -nt "$out" ]; then
        rustup run 1.89 rustc -g -C opt-level=0 "$@" "$src" -o "$out" 2>"$out.rustc.log" || { echo "build_progs: $out not built" >&2; cat "$out.rustc.log" >&2; }
    fi
}
c18_rs libc18a.so c18_liba --crate-type cdylib --crate-name c18a
c18_rs libc18b.so c18_libb --crate-type cdylib --crate-name c18b
c18_rs c18_pie          c18_main --cfg plain
c18_rs c18_nopie        c18_main --cfg plain -C relocation-model=static -C link-arg=-no-pie
c18_rs c18_staticpie    c18_main --cfg plain -C target-feature=+crt-static
c18_rs c18_static       c18_main --cfg plain -C target-feature=+crt-static -C relocation-model=static -C link-arg=-no-pie
c18_rs c18_startup      c18_main --cfg startup -L progs -C link-arg=-Wl,-rpath,\$ORIGIN
c18_rs c18_startup_nopie c18_main --cfg startup -L progs -C link-arg=-Wl,-rpath,\$ORIGIN -C relocation-model=static -C link-arg=-no-pie
c18_rs c18_startup2     c18_main --cfg startup2 -L progs -C link-arg=-Wl,-rpath,\$ORIGIN
c18_rs c18_dl           c18_main --cfg dl
c18_rs c18_dl_nopie     c18_main --cfg dl -C relocation-model=static -C link-arg=-no-pie
