# C17 symbol listing over several objects: three builds of progs-src/c17_sym_lib.rs (cdylib, no_std)
#   libc17d.so  -g                      .symtab + DWARF units
#   libc17p.so  -C strip=debuginfo      .symtab, no DWARF units
#   libc17s.so  -C strip=symbols        only .dynsym
# and two link modes of progs-src/c17_sym_main.rs (startup: all three DT_NEEDED; dl: p and s loaded by dlopen).
# Sourced by tools/build_progs.sh (cwd = /verif). Idempotent, offline, toolchain 1.89.
c17_rs() { # out src flags...
    out=progs/$1; src=progs-src/$2.rs; shift 2
    if [ ! -x "$out" ] || [ "$src" -nt "$out" ] || [ tools/progs.d/c17.sh -nt "$out" ]; then
        rustup run 1.89 rustc -C opt-level=0 "$@" "$src" -o "$out" 2>"$out.rustc.log" || { echo "build_progs: $out not built" >&2; cat "$out.rustc.log" >&2; }
    fi
}
c17_rs libc17d.so c17_sym_lib --crate-type cdylib --crate-name c17libd --cfg d -C panic=abort -g
c17_rs libc17p.so c17_sym_lib --crate-type cdylib --crate-name c17libp --cfg p -C panic=abort -g -C strip=debuginfo
c17_rs libc17s.so c17_sym_lib --crate-type cdylib --crate-name c17libs --cfg s -C panic=abort -C strip=symbols
c17_rs c17_sym_startup c17_sym_main --crate-name c17sym -g --cfg startup -L progs -C link-arg=-Wl,-rpath,\$ORIGIN
c17_rs c17_sym_dl      c17_sym_main --crate-name c17sym -g --cfg dl
