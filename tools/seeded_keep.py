#!/usr/bin/env python3
"""usage: tools/seeded_keep.py <src dir (patch.diff, demo/, meta.json)> <seed id e.g. C12-1> <confirm log> [detected-by note]
Copies a CONFIRMED seeded change into /verif/seeded/<id>/ (patch.diff, demo sources, meta.json extended with what was run)."""
import json, os, shutil, sys
src, sid, clog = sys.argv[1:4]
note = sys.argv[4] if len(sys.argv) > 4 else ""
dst = os.path.join(os.path.dirname(os.path.dirname(os.path.abspath(__file__))), "seeded", sid)
shutil.rmtree(dst, ignore_errors=True)
os.makedirs(dst)
shutil.copy(os.path.join(src, "patch.diff"), dst)
def ign(d, names): return [n for n in names if n in ("target", "Cargo.lock") or n.endswith(".bin") or n.endswith(".confirm.log")]
shutil.copytree(os.path.join(src, "demo"), os.path.join(dst, "demo"), ignore=ign)
meta = json.load(open(os.path.join(src, "meta.json")))
meta["confirmed_by_coordinator"] = {
    "how": "tools/seeded_confirm.sh <scratch worktree> <dir>: patch applies to HEAD; the 98 pinned tests pass with it (load-induced DAP timeouts rerun alone); demo/run.sh exits non-zero with the patch and 0 without",
    "log": open(clog).read().strip().split("\n"),
}
if note: meta["checks"] = note
json.dump(meta, open(os.path.join(dst, "meta.json"), "w"), indent=1)
print("kept", dst)
