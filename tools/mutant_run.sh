#!/bin/sh
# usage: tools/mutant_run.sh <prop-id> <file-in-repo> <sed-expr> [more prop ids...]  — apply a mutation to /repo, run the check(s), undo.
# Prints one summary line per property. NEVER leaves /repo modified.
ID="$1"; F="$2"; E="$3"; shift 3
cd /repo || exit 2
if [ -n "$(git status --short)" ]; then echo "repo not clean"; exit 2; fi
sed -i "$E" "$F"
if [ -z "$(git diff --stat)" ]; then echo "MUTANT-NOOP $F $E"; exit 2; fi
for P in $ID "$@"; do
  OUT=$(cd /verif && ./check "$P" quick 2>&1)
  RC=$?
  echo "MUTANT [$F :: $E] -> $P rc=$RC :: $(echo "$OUT" | grep -c VIOLATION) violation line(s); $(echo "$OUT" | tail -1)"
  echo "$OUT" | grep VIOLATION | head -3
done
git checkout -- . 
