#!/bin/sh
# usage: tools/cherry_hook.sh <commit>...  — cherry-pick add-only hook commits into /repo, resolving conflicts by union
cd /repo || exit 1
for c in "$@"; do
  if ! git cherry-pick "$c" >/dev/null 2>&1; then
    for f in $(git diff --name-only --diff-filter=U); do
      python3 - "$f" <<'PY'
import re, sys
f = sys.argv[1]
s = open(f).read()
s = s.replace('<<<<<<< HEAD\n','').replace('=======\n','')
s = re.sub(r'>>>>>>> [0-9a-f]+ .*\n','',s)
open(f,'w').write(s)
PY
      git add "$f"
    done
    git -c core.editor=true cherry-pick --continue >/dev/null 2>&1 || { echo "cherry-pick $c failed"; exit 1; }
  fi
  echo "picked $c -> $(git log --format=%h -1)"
done
cargo check --offline --features verif 2>&1 | tail -1
cargo check --offline 2>&1 | tail -1
