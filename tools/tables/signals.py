"""C10: signal tables of src/debugger/debugee/tracer.rs -> lean/BsVerif/Gen/Signals.lean.
Re-read on every run: `QUIET_SIGNALS` and `TRANSPARENT_SIGNALS` (lists of `Signal::SIGxxx`, comments stripped).
Signal numbers are the x86-64 Linux ABI values (constant of this file, <asm/signal.h>).
Raises when a table is not found or an entry is not a known `Signal::SIGxxx` (broken tie)."""
import re

SIGNO = {"SIGHUP": 1, "SIGINT": 2, "SIGQUIT": 3, "SIGILL": 4, "SIGTRAP": 5, "SIGABRT": 6, "SIGBUS": 7, "SIGFPE": 8,
         "SIGKILL": 9, "SIGUSR1": 10, "SIGSEGV": 11, "SIGUSR2": 12, "SIGPIPE": 13, "SIGALRM": 14, "SIGTERM": 15,
         "SIGSTKFLT": 16, "SIGCHLD": 17, "SIGCONT": 18, "SIGSTOP": 19, "SIGTSTP": 20, "SIGTTIN": 21, "SIGTTOU": 22,
         "SIGURG": 23, "SIGXCPU": 24, "SIGXFSZ": 25, "SIGVTALRM": 26, "SIGPROF": 27, "SIGWINCH": 28, "SIGIO": 29,
         "SIGPWR": 30, "SIGSYS": 31}


def table(src, name):
    m = re.search(r"static\s+" + name + r"\s*:\s*&\[Signal\]\s*=\s*&\[(.*?)\];", src, re.S)
    if not m:
        raise Exception(f"table {name} not found in tracer.rs")
    body = re.sub(r"//[^\n]*", "", m.group(1))
    items = [x.strip() for x in body.split(",") if x.strip()]
    out = []
    for it in items:
        mm = re.fullmatch(r"Signal::(SIG\w+)", it)
        if not mm or mm.group(1) not in SIGNO:
            raise Exception(f"{name}: entry `{it}` is not a known Signal::SIGxxx")
        out.append(SIGNO[mm.group(1)])
    return out


def extract(read):
    src = read("src/debugger/debugee/tracer.rs")
    quiet = table(src, "QUIET_SIGNALS")
    transparent = table(src, "TRANSPARENT_SIGNALS")
    # the two uses the model mirrors must still be there (membership tests on these very tables)
    for pat in [r"!TRANSPARENT_SIGNALS\.contains\(&signal\)", r"QUIET_SIGNALS\.contains\(&signal\)"]:
        if not re.search(pat, src):
            raise Exception(f"tracer.rs no longer contains `{pat}`")
    L = ["/-- `QUIET_SIGNALS` of tracer.rs (x86-64 signal numbers, source order) -/",
         f"def quiet : List Nat := {quiet}",
         "/-- `TRANSPARENT_SIGNALS` of tracer.rs -/",
         f"def transparent : List Nat := {transparent}"]
    return "\n".join(L)
