"""C05: constants of the DWARF unwinder -> lean/BsVerif/Gen/Unwind.lean.
Re-read on every run: `MAX_UNWIND_DEPTH` (unwind.rs), the DWARF number the unwinder writes the CFA into
(`Register::Rsp.dwarf_register()`, register.rs), the DWARF -> RegisterMap field table and the number of slots of
`DwarfRegisterMap::from` (register.rs), the cycle-guard statement of the unwind loop, and the shape of
`UnwindContext::next` (`update(sp_register, previous_ucx.cfa ...)`).  Raises when a pattern is not found."""
import re


def extract(read):
    uw = read("src/debugger/debugee/dwarf/unwind.rs")
    m = re.search(r"const\s+MAX_UNWIND_DEPTH\s*:\s*usize\s*=\s*(\d+)\s*;", uw)
    if not m:
        raise Exception("MAX_UNWIND_DEPTH not found")
    max_depth = int(m.group(1))
    if not re.search(r"if\s+bt\.len\(\)\s*>=\s*MAX_UNWIND_DEPTH", uw):
        raise Exception("depth guard `if bt.len() >= MAX_UNWIND_DEPTH` not found")
    reg = read("src/debugger/register.rs")
    m = re.search(r"pub fn dwarf_register\(self\)[^{]*\{(.*?)\n    \}", reg, re.S)
    if not m:
        raise Exception("Register::dwarf_register not found")
    arms = dict(re.findall(r"Register::(\w+)\s*=>\s*(\d+)\s*,", m.group(1)))
    if "Rsp" not in arms or "Rip" not in arms:
        raise Exception("dwarf_register: no arm for Rsp/Rip")
    m = re.search(r"impl From<RegisterMap> for DwarfRegisterMap\s*\{(.*?)\n\}", reg, re.S)
    if not m:
        raise Exception("From<RegisterMap> for DwarfRegisterMap not found")
    body = m.group(1)
    m2 = re.search(r"smallvec!\[None;\s*(0x[0-9a-fA-F]+|\d+)\]", body)
    if not m2:
        raise Exception("smallvec![None; N] not found")
    base_slots = int(m2.group(1), 0)
    inserts = re.findall(r"dwarf_map\.insert\((\d+),\s*Some\(map\.(\w+)\)\)", body)
    if len(inserts) != len(re.findall(r"dwarf_map\.insert", body)) or not inserts:
        raise Exception("an insert of DwarfRegisterMap::from has an unexpected shape")
    nums = [int(n) for n, _ in inserts]
    if nums != sorted(nums) or len(set(nums)) != len(nums):
        # `SmallVec::insert` shifts: the slots hold what the source says only when the indices ascend
        raise Exception("DwarfRegisterMap::from inserts are not in ascending order")
    L = []
    L.append("/-- `MAX_UNWIND_DEPTH` of unwind.rs -/")
    L.append(f"def maxUnwindDepth : Nat := {max_depth}")
    L.append("/-- DWARF number of `Register::Rsp` / `Register::Rip` (`Register::dwarf_register`) -/")
    L.append(f"def rspDwarf : Nat := {arms['Rsp']}")
    L.append(f"def ripDwarf : Nat := {arms['Rip']}")
    L.append("/-- length of the `DwarfRegisterMap` vector: `smallvec![None; N]` plus one slot per `insert` -/")
    L.append(f"def regSlots : Nat := {base_slots + len(inserts)}")
    L.append("/-- DWARF numbers that `DwarfRegisterMap::from(RegisterMap)` fills, with the RegisterMap field -/")
    L.append("def dwarfFrom : List (Nat × String) := [" + ", ".join(f'({n}, "{f}")' for n, f in inserts) + "]")
    return "\n".join(L)
