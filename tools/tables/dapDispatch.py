"""C12: the command list of `DebugSession::dispatch` (src/dap/yadap/session/mod.rs) and the arms that leave
the `run` loop (`return Ok(false)`).  The session model's `Cmd` enumeration and its `endSession` skeletons are
checked against this table at build time (Props/C12.lean `#guard`s)."""
import re

def extract(read):
    src = read("src/dap/yadap/session/mod.rs")
    m = re.search(r"fn dispatch\(&mut self.*?match req\.command\.as_str\(\) \{(.*?)\n            other => \{", src, re.S)
    if not m:
        raise RuntimeError("dispatch match not found in session/mod.rs")
    body = m.group(1)
    arms = re.findall(r'^\s*"([A-Za-z]+)" => (\{.*?^\s{12}\}|[^\n]*)', body, re.S | re.M)
    if len(arms) < 30:
        raise RuntimeError(f"only {len(arms)} dispatch arms found")
    cmds = [a for a, _ in arms]
    ends = [a for a, b in arms if "return Ok(false)" in b]
    if not ends:
        raise RuntimeError("no session-ending arm found")
    # the sequence number is taken before the transport lock in send_event_raw
    ev = re.search(r"fn send_event_raw\(.*?\n    \}\n", src, re.S)
    seq_before_lock = bool(ev and ev.group(0).index("self.next_seq()") < ev.group(0).index("self.io.lock()"))
    q = lambda xs: "[" + ", ".join('"%s"' % x for x in xs) + "]"
    return (f"def commands : List String := {q(cmds)}\n\n"
            f"def endsSession : List String := {q(ends)}\n\n"
            f"/-- `send_event_raw` calls `next_seq()` textually before `io.lock()` -/\n"
            f"def seqBeforeLock : Bool := {'true' if seq_before_lock else 'false'}\n")
