"""C12: the command list of `DebugSession::dispatch` (src/dap/yadap/session/mod.rs) and the arms that leave
the `run` loop (`return Ok(false)`).  The session model's `Cmd` enumeration and its `endSession` skeletons are
checked against this table at build time (Props/C12.lean `#guard`s)."""
import re

def extract(read):
    src = read("src/dap/yadap/session/mod.rs")
    m = re.search(r"fn dispatch\(&mut self.*?match req\.command\.as_str\(\) \{(.*?)\n            other => \{", src, re.S)
    if not m:
        raise RuntimeError("dispatch match not found in session/mod.rs")
    body = m.group(1)
    arms = re.findall(r'^\s*"([A-Za-z]+)" => (\{.*?^\s{12}\}|[^\n]*)', body, re.S | re.M)
    if len(arms) < 30:
        raise RuntimeError(f"only {len(arms)} dispatch arms found")
    cmds = [a for a, _ in arms]
    ends = [a for a, b in arms if "return Ok(false)" in b]
    if not ends:
        raise RuntimeError("no session-ending arm found")
    # the sequence number is taken while the transport is locked: `next_seq` is the only `fetch_add` of the
    # counter, it demands the locked transport, and every call site locks `io` just before calling it
    fetches = len(re.findall(r"fetch_add\(", src))
    helper = re.search(r"fn next_seq\(server_seq: &AtomicI64, _locked_io: &mut dyn DapTransport\) -> i64 \{\s*server_seq\.fetch_add\(", src)
    calls = [m.start() for m in re.finditer(r"Self::next_seq\(", src)]
    def locked_before(pos):
        before = src[max(0, pos - 400):pos]
        k = before.rfind(".lock().unwrap();")
        return k >= 0 and "}" not in before[k:]
    seq_under_lock = bool(helper) and fetches == 1 and len(calls) >= 3 and all(locked_before(c) for c in calls)
    # the forwarder reads the `terminated` latch after it locked the transport and before it takes a number;
    # the session stores `true` into it before it sends `terminated`
    fw = re.search(r"fn spawn_output_forwarder\(.*?\n    \}\n", src, re.S)
    fwt = fw.group(0) if fw else ""
    i_lock, i_latch, i_seq = fwt.find("io.lock().unwrap()"), fwt.find("if !terminated.load("), fwt.find("Self::next_seq(")
    dr = re.search(r"fn drain_events\(.*?\n    \}\n", src, re.S)
    drt = dr.group(0) if dr else ""
    stores = [m.start() for m in re.finditer(r"self\.terminated\.store\(true", drt)]
    sends = [m.start() for m in re.finditer(r'self\.send_event\("terminated"\)', drt)]
    latch_under_lock = (0 <= i_lock < i_latch < i_seq and len(stores) == 2 and len(sends) == 2
                        and all(a < b for a, b in zip(stores, sends)))
    q = lambda xs: "[" + ", ".join('"%s"' % x for x in xs) + "]"
    return (f"def commands : List String := {q(cmds)}\n\n"
            f"def endsSession : List String := {q(ends)}\n\n"
            f"/-- every sequence number is taken by `next_seq`, with the transport locked by the caller -/\n"
            f"def seqUnderLock : Bool := {'true' if seq_under_lock else 'false'}\n\n"
            f"/-- a forwarder reads the `terminated` latch under the transport lock, before it takes a number; the session\n"
            f"sets the latch before it sends `terminated` -/\n"
            f"def latchUnderLock : Bool := {'true' if latch_under_lock else 'false'}\n")
