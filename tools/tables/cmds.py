"""Console command keywords and the dispatch order, re-read from src/ui/command/parser/mod.rs on every run.

* every `pub const <NAME>: &str = "<kw>";` of the parser module becomes `def <NAME> : List Char := [..]`
  (character lists, so that kernel evaluation in proofs never has to unfold string literals);
* the order of `command(<NAME>, ...)` inside the final `choice((...))` of `Command::parser` becomes `dispatchOrder`;
* the call sites of `.unwrapped()` / `.unwrap()` on numeric conversions are counted (`numericSites`), so that a new
  numeric token in the grammar breaks the tie with the model (lean/BsVerif/Model/CmdNum.lean checks the counts).
A renamed / removed keyword makes the Lean model fail to build; a new or re-ordered command makes
`dispatchOrder` differ from the order the model transcribes (checked by a `#guard`/theorem there)."""
import re

SRC = "src/ui/command/parser/mod.rs"
EXPR = "src/ui/command/parser/expression.rs"

def extract(read):
    src = read(SRC)
    consts = re.findall(r'^pub const ([A-Z0-9_]+): &str = "([^"\\]*)";', src, re.M)
    if len(consts) < 40:
        raise Exception(f"cmds: only {len(consts)} keyword constants found in {SRC}")
    m = re.search(r"\n        choice\(\(\n((?:\s+command\([A-Z_]+, [a-z_#]+\),\n)+)\s+\)\)\n    \}", src)
    if not m:
        raise Exception("cmds: final dispatch `choice((command(..), ...))` not found")
    order = re.findall(r"command\(([A-Z_]+), ([a-z_#]+)\)", m.group(1))
    names = {n for n, _ in consts}
    for n, _ in order:
        if n not in names: raise Exception(f"cmds: dispatch uses unknown constant {n}")
    code = src.split("#[test]")[0]
    expr = read(EXPR).split("#[cfg(test)]")[0]
    n_unwrapped = len(re.findall(r"\.unwrapped\(\)", code))
    n_hex_unwrap = len(re.findall(r"from_str_radix\([^)]*\)\s*\.unwrap\(\)", code))
    e_unwrapped = len(re.findall(r"\.unwrapped\(\)", expr))
    e_unwrap = len(re.findall(r"\.parse::<usize>\(\)\.unwrap\(\)", expr))
    L = []
    for n, v in consts:
        L.append(f"def {n} : List Char := [" + ", ".join("'" + c + "'" for c in v) + "]")
    L.append("")
    L.append("/-- first arguments of `command(..)` in the final `choice` of `Command::parser`, in order -/")
    L.append("def dispatchOrder : List (List Char) := [" + ", ".join(n for n, _ in order) + "]")
    L.append("def dispatchVars : List String := [" + ", ".join('"' + v.replace("r#", "") + '"' for _, v in order) + "]")
    L.append("")
    L.append("/-- numbers of numeric conversion call sites: (`.unwrapped()` in mod.rs, `from_str_radix(..).unwrap()` in mod.rs,")
    L.append("    `.unwrapped()` in expression.rs, `.parse::<usize>().unwrap()` in expression.rs) -/")
    L.append(f"def numericSites : Nat × Nat × Nat × Nat := ({n_unwrapped}, {n_hex_unwrap}, {e_unwrapped}, {e_unwrap})")
    return "\n".join(L)
