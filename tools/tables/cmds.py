"""Console command keywords and the dispatch order, re-read from src/ui/command/parser/mod.rs on every run.

* every `pub const <NAME>: &str = "<kw>";` of the parser module becomes `def <NAME> : List Char := [..]`
  (character lists, so that kernel evaluation in proofs never has to unfold string literals);
* the order of `command(<NAME>, ...)` inside the final `choice((...))` of `Command::parser` becomes `dispatchOrder`;
* the call sites of the checked numeric conversions are counted (`numericSites`: `number()` in mod.rs,
  `from_str_radix(..)` inside `try_map` in mod.rs, `number::<u64>()` and `number::<usize>()` in expression.rs), and so are
  the conversions that can panic (`uncheckedSites`: `.unwrapped()`, `from_str_radix(..).unwrap()`, `.parse::<..>().unwrap()`;
  none since the repair), so that a new numeric token in the grammar or a conversion that panics breaks the tie with the
  model (lean/BsVerif/Props/C08.lean checks the counts).
A renamed / removed keyword makes the Lean model fail to build; a new or re-ordered command makes
`dispatchOrder` differ from the order the model transcribes (checked by a `#guard`/theorem there)."""
import re

SRC = "src/ui/command/parser/mod.rs"
EXPR = "src/ui/command/parser/expression.rs"

def extract(read):
    src = read(SRC)
    consts = re.findall(r'^pub const ([A-Z0-9_]+): &str = "([^"\\]*)";', src, re.M)
    if len(consts) < 40:
        raise Exception(f"cmds: only {len(consts)} keyword constants found in {SRC}")
    m = re.search(r"\n        choice\(\(\n((?:\s+command\([A-Z_]+, [a-z_#]+\),\n)+)\s+\)\)\n    \}", src)
    if not m:
        raise Exception("cmds: final dispatch `choice((command(..), ...))` not found")
    order = re.findall(r"command\(([A-Z_]+), ([a-z_#]+)\)", m.group(1))
    names = {n for n, _ in consts}
    for n, _ in order:
        if n not in names: raise Exception(f"cmds: dispatch uses unknown constant {n}")
    code = src.split("#[test]")[0]
    expr = read(EXPR).split("#[cfg(test)]")[0]
    # `number()` = `text::int(10).from_str::<T>().try_map(..)`: its definition must be the checked one
    if not re.search(r"pub fn number<'a, T>\(\)[^{]*\{\s*text::int\(10\)\s*\.from_str::<T>\(\)\s*\.try_map\(", code):
        raise Exception("cmds: the checked decimal conversion `number()` not found in " + SRC)
    n_number = len(re.findall(r"(?<![A-Za-z0-9_])number\(\)", code))
    n_hex = len(re.findall(r"\.try_map\(\|s: &str, span\| \{\s*usize::from_str_radix\(s, 16\)\.map_err\(", code))
    e_u64 = len(re.findall(r"(?<![A-Za-z0-9_])number::<u64>\(\)", expr))
    e_usize = len(re.findall(r"(?<![A-Za-z0-9_])number::<usize>\(\)", expr))
    n_unchecked = sum(len(re.findall(rx, code + expr)) for rx in (
        r"\.unwrapped\(\)", r"from_str_radix\([^)]*\)\s*\.unwrap\(\)", r"\.parse::<[a-z0-9]+>\(\)\s*\.unwrap\(\)"))
    L = []
    for n, v in consts:
        L.append(f"def {n} : List Char := [" + ", ".join("'" + c + "'" for c in v) + "]")
    L.append("")
    L.append("/-- first arguments of `command(..)` in the final `choice` of `Command::parser`, in order -/")
    L.append("def dispatchOrder : List (List Char) := [" + ", ".join(n for n, _ in order) + "]")
    L.append("def dispatchVars : List String := [" + ", ".join('"' + v.replace("r#", "") + '"' for _, v in order) + "]")
    L.append("")
    L.append("/-- numbers of checked numeric conversion call sites: (`number()` in mod.rs, `from_str_radix(..)` in `try_map` in mod.rs,")
    L.append("    `number::<u64>()` in expression.rs, `number::<usize>()` in expression.rs) -/")
    L.append(f"def numericSites : Nat × Nat × Nat × Nat := ({n_number}, {n_hex}, {e_u64}, {e_usize})")
    L.append("/-- number of numeric conversions that can panic (`unwrapped()` / `unwrap()`) in the two parser files -/")
    L.append(f"def uncheckedSites : Nat := {n_unchecked}")
    return "\n".join(L)
