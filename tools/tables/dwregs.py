"""C19: DWARF <-> machine register tables of src/debugger/register.rs -> lean/BsVerif/Gen/Dwregs.lean.
Re-read on every run: `enum Register` (variant order), `struct RegisterMap` (field order), the arms of
`Register::dwarf_register`, the arms of `From<gimli::Register> for Register` (with the scrutinee cast), and the
sequence of `dwarf_map.insert(n, Some(map.f))` calls of `From<RegisterMap> for DwarfRegisterMap` together with
the initial vector (`smallvec![None; N]`).  Raises when a pattern is not found (broken tie)."""
import re


def block(src, header_re):
    m = re.search(header_re, src)
    if not m:
        raise Exception(f"pattern not found: {header_re}")
    i = src.index("{", m.end() - 1)
    depth, j = 0, i
    while True:
        if src[j] == "{": depth += 1
        elif src[j] == "}":
            depth -= 1
            if depth == 0: break
        j += 1
    return src[i + 1:j]


def strip_comments(s):
    return re.sub(r"//[^\n]*", "", s)


def extract(read):
    src = read("src/debugger/register.rs")
    enum = strip_comments(block(src, r"pub enum Register\s*\{"))
    variants = re.findall(r"^\s*([A-Z]\w*)\s*,", enum, re.M)
    vidx = {v: i for i, v in enumerate(variants)}
    struct = strip_comments(block(src, r"pub struct RegisterMap\s*\{"))
    fields = re.findall(r"^\s*(\w+)\s*:\s*u64\s*,", struct, re.M)
    fidx = {f: i for i, f in enumerate(fields)}
    if len(variants) < 16 or len(fields) != len(variants):
        raise Exception("enum Register / struct RegisterMap: unexpected shape")

    # Register::dwarf_register
    fn = strip_comments(block(block(src, r"impl Register\s*\{"), r"pub fn dwarf_register\b[^{]*\{"))
    m = block(fn, r"match self\s*\{")
    arms = re.findall(r"Register::(\w+)\s*=>\s*(\d+)\s*,", m)
    none_arms = re.findall(r"Register::(\w+)\s*=>\s*return None\s*,", m)
    if len(arms) + len(none_arms) != len(re.findall(r"=>", m)):
        raise Exception("dwarf_register: an arm is neither `Register::X => <n>,` nor `=> return None,`")
    if not re.search(r"Some\(DwarfRegister\(register\)\)", fn):
        raise Exception("dwarf_register: result is no longer Some(DwarfRegister(register))")

    # From<gimli::Register> for Register
    fr = strip_comments(block(src, r"impl From<gimli::Register> for Register\s*\{"))
    mm = re.search(r"match\s+value\.0\s+as\s+(\w+)\s*\{", fr)
    if not mm:
        raise Exception("From<gimli::Register>: scrutinee is no longer `value.0 as <int type>`")
    cast = mm.group(1)
    body = block(fr, r"match\s+value\.0\s+as\s+\w+\s*\{")
    farms = re.findall(r"(-?\d+)\s*=>\s*Register::(\w+)\s*,", body)
    n_arrows = len(re.findall(r"=>", body))
    if n_arrows != len(farms) + 1 or not re.search(r"_\s*=>\s*\{\s*panic!", body):
        raise Exception("From<gimli::Register>: arms are not `<n> => Register::X,` plus one panicking wildcard")

    # From<RegisterMap> for DwarfRegisterMap
    dm = strip_comments(block(src, r"impl From<RegisterMap> for DwarfRegisterMap\s*\{"))
    init = re.search(r"smallvec!\[None;\s*(0x[0-9a-fA-F]+|\d+)\]", dm)
    if not init:
        raise Exception("DwarfRegisterMap::from: initial vector is not smallvec![None; N]")
    n0 = int(init.group(1), 0)
    stmts = re.findall(r"dwarf_map\.(\w+)\(([^;]*)\);", dm)
    ins = []
    for meth, args in stmts:
        a = re.fullmatch(r"\s*(\d+)\s*,\s*Some\(map\.(\w+)\)\s*", args)
        if meth != "insert" or not a:
            raise Exception(f"DwarfRegisterMap::from: statement `dwarf_map.{meth}({args})` is not `insert(<n>, Some(map.<f>))`")
        ins.append((int(a.group(1)), fidx[a.group(2)]))
    if not ins:
        raise Exception("DwarfRegisterMap::from: no inserts found")

    def pairs(xs): return "[" + ", ".join(f"({a}, {b})" for a, b in xs) + "]"
    L = []
    L.append("/-- number of variants of `enum Register` (= fields of `RegisterMap`, same order checked by C15's tables) -/")
    L.append(f"def numRegs : Nat := {len(variants)}")
    L.append(f"def regIndex : List (String × Nat) := [" + ", ".join(f'("{v}", {i})' for v, i in vidx.items()) + "]")
    L.append("/-- arms of `Register::dwarf_register`: (register index, DWARF number) -/")
    L.append(f"def toDwarfTable : List (Nat × Nat) := {pairs((vidx[r], int(n)) for r, n in arms)}")
    L.append("/-- registers for which `dwarf_register` returns None -/")
    L.append(f"def toDwarfNone : List Nat := [{', '.join(str(vidx[r]) for r in none_arms)}]")
    L.append(f"/-- the scrutinee of `From<gimli::Register>` is `value.0 as {cast}` (value.0 : u16) -/")
    L.append(f'def fromDwarfCast : String := "{cast}"')
    L.append("/-- arms of `From<gimli::Register> for Register`: (pattern, register index); anything else panics -/")
    L.append(f"def fromDwarfArms : List (Int × Nat) := {pairs((int(n), vidx[r]) for n, r in farms)}")
    L.append("/-- `DwarfRegisterMap::from`: length of the initial all-None vector -/")
    L.append(f"def dwarfMapInit : Nat := {n0}")
    L.append("/-- `DwarfRegisterMap::from`: the `insert(n, Some(map.f))` calls in source order: (n, field index of f) -/")
    L.append(f"def dwarfMapInserts : List (Nat × Nat) := {pairs(ins)}")
    return "\n".join(L)
