"""C16 tables: the constants of the injected-call trampoline, re-read from src/debugger/call/mod.rs (and the
`enum Register` order from src/debugger/register.rs) on every run:
  * `get_reg_for_no`  -> argRegs (System V integer argument registers, by argument number)
  * CALL_FN / JMP_RAX / SYSCALL words and their masks, MMAP / MUNMAP syscall numbers, PROT / FLAGS
  * the register assignments of `CallHelper::mmap` and `CallHelper::munmap`
libc constants (PROT_*, MAP_*) and the page size are kernel ABI constants of this file.
Raises when a pattern is not found (broken tie)."""
import re

LIBC = {"PROT_READ": 1, "PROT_WRITE": 2, "PROT_EXEC": 4, "MAP_PRIVATE": 2, "MAP_ANONYMOUS": 0x20}
PAGE_SIZE = 4096


def strip(s):
    return re.sub(r"//[^\n]*", "", s)


def block(src, header_re, what):
    m = re.search(header_re, src)
    if not m:
        raise Exception(f"callAbi.py: {what}: pattern not found: {header_re}")
    i = src.index("{", m.end() - 1)
    depth, j = 0, i
    while True:
        if src[j] == "{": depth += 1
        elif src[j] == "}":
            depth -= 1
            if depth == 0: break
        j += 1
    return src[i + 1:j]


def const_expr(e, env):
    """evaluate `0xFFusize | (0xD0usize << 0x8) | ...`, `(nix::libc::A | nix::libc::B) as u64`, numerals"""
    e = re.sub(r"nix::libc::(\w+)", lambda m: str(LIBC[m.group(1)]), e)
    e = re.sub(r"\b(0x[0-9A-Fa-f_]+|\d[\d_]*)(usize|u64|i32|u32)?\b", lambda m: str(int(m.group(1).replace("_", ""), 0)), e)
    e = re.sub(r"\s+as\s+(u64|usize)", "", e)
    for k, v in env.items():
        e = re.sub(rf"\b{k}\b", str(v), e)
    if not re.fullmatch(r"[\d\s|&()<>+-]+", e):
        raise Exception(f"callAbi.py: cannot evaluate constant expression {e!r}")
    return eval(e)  # digits and | & << ( ) only


def extract(read):
    src = strip(read("src/debugger/call/mod.rs"))
    regsrc = read("src/debugger/register.rs")
    enum = strip(block(regsrc, r"pub enum Register\s*\{", "enum Register"))
    variants = re.findall(r"^\s*([A-Z]\w*)\s*,", enum, re.M)
    if len(variants) < 20:
        raise Exception("callAbi.py: enum Register: unexpected shape")
    idx = {v: i for i, v in enumerate(variants)}

    g = block(src, r"fn get_reg_for_no\b[^{]*\{", "get_reg_for_no")
    arms = re.findall(r"\((\d+),\s*RegType::General\)\s*=>\s*Register::(\w+)\s*,", g)
    if [int(a) for a, _ in arms] != list(range(len(arms))) or len(arms) != len(re.findall(r"RegType::General\)", g)):
        raise Exception(f"callAbi.py: get_reg_for_no: arms are not numbered 0..n-1: {arms}")
    arg_regs = [idx[r] for _, r in arms]

    consts = {}
    for name, ty in [("CALL_FN", "usize"), ("JMP_RAX", "usize"), ("JMP_RAX_MASK", "usize"), ("SYSCALL", "usize"),
                     ("SYSCALL_MASK", "usize"), ("MMAP", "u64"), ("MUNMAP", "u64"), ("PROT", "u64"), ("FLAGS", "u64")]:
        vals = set()
        for m in re.finditer(rf"const {name}\s*:\s*{ty}\s*=\s*([^;]+);", src):
            vals.add(const_expr(m.group(1).strip(), {}))
        if len(vals) != 1:
            raise Exception(f"callAbi.py: constant {name}: found values {vals}")
        consts[name] = vals.pop()

    def updates(fn_name, env):
        b = block(src, rf"fn {fn_name}\(ccx: &CallContext[^{{]*\{{", fn_name)
        out = []
        for m in re.finditer(r"regs\.update\(Register::(\w+),\s*([^;]+)\);", b):
            e = m.group(2).strip()
            if e == "-1i32 as u64": v = 2**64 - 1
            elif e in env: v = env[e]
            else: v = const_expr(e, consts)
            out.append((idx[m.group(1)], v))
        if not out:
            raise Exception(f"callAbi.py: {fn_name}: no register assignments found")
        return out
    mmap_regs = updates("mmap", {"page_size": PAGE_SIZE})
    munmap_regs = updates("munmap", {"page_size": PAGE_SIZE, "addr": "addr"})

    L = []
    L.append("/-- position of each variant in `enum Register` (src/debugger/register.rs) -/")
    for v in variants:
        L.append(f"def {v} : Nat := {idx[v]}")
    L.append(f"def numRegs : Nat := {len(variants)}")
    L.append("/-- `get_reg_for_no`: register (enum position) of integer argument number i -/")
    L.append(f"def argRegs : List Nat := {arg_regs}")
    for k, v in consts.items():
        L.append(f"def {k} : Nat := {v}")
    L.append(f"def PAGE_SIZE : Nat := {PAGE_SIZE}")
    L.append("/-- `CallHelper::mmap`: registers set before the `syscall`, in source order -/")
    L.append("def mmapRegs : List (Nat × Nat) := [" + ", ".join(f"({r}, {v})" for r, v in mmap_regs) + "]")
    L.append("/-- `CallHelper::munmap` -/")
    L.append("def munmapRegs (addr : Nat) : List (Nat × Nat) := [" + ", ".join(f"({r}, {v})" for r, v in munmap_regs) + "]")
    return "\n".join(L)
