"""C09/C10: the two signal lists of src/debugger/debugee/tracer.rs -> lean/BsVerif/Gen/Sigs.lean.
`QUIET_SIGNALS` (injected without stopping the debuggee, no group stop) and `TRANSPARENT_SIGNALS` (never injected).
Signal numbers are the Linux x86-64 ones (constant of this file). Raises when a list or a name is not found."""
import re

NUM = {"SIGHUP": 1, "SIGINT": 2, "SIGQUIT": 3, "SIGILL": 4, "SIGTRAP": 5, "SIGABRT": 6, "SIGBUS": 7, "SIGFPE": 8,
       "SIGKILL": 9, "SIGUSR1": 10, "SIGSEGV": 11, "SIGUSR2": 12, "SIGPIPE": 13, "SIGALRM": 14, "SIGTERM": 15,
       "SIGSTKFLT": 16, "SIGCHLD": 17, "SIGCONT": 18, "SIGSTOP": 19, "SIGTSTP": 20, "SIGTTIN": 21, "SIGTTOU": 22,
       "SIGURG": 23, "SIGXCPU": 24, "SIGXFSZ": 25, "SIGVTALRM": 26, "SIGPROF": 27, "SIGWINCH": 28, "SIGIO": 29,
       "SIGPWR": 30, "SIGSYS": 31}


def lst(src, name):
    m = re.search(r"static\s+" + name + r"\s*:\s*&\[Signal\]\s*=\s*&\[(.*?)\];", src, re.S)
    if not m:
        raise Exception(f"{name} not found in tracer.rs")
    body = re.sub(r"//[^\n]*", "", m.group(1))
    names = re.findall(r"Signal::(\w+)", body)
    if not names:
        raise Exception(f"{name} is empty or has an unexpected shape")
    return [NUM[n] for n in names]


def extract(read):
    src = read("src/debugger/debugee/tracer.rs")
    q, t = lst(src, "QUIET_SIGNALS"), lst(src, "TRANSPARENT_SIGNALS")
    return (f"/-- `QUIET_SIGNALS` of tracer.rs (Linux x86-64 numbers) -/\ndef quiet : List Nat := {q}\n\n"
            f"/-- `TRANSPARENT_SIGNALS` of tracer.rs -/\ndef transparent : List Nat := {t}\n")
