"""C14 tables: DR7/DR6 bit layout constants, BreakCondition/BreakSize discriminants, the slot orders used by the
free-slot search and by detect_and_flush -- re-read from src/debugger/register.rs and src/debugger/watchpoint.rs
on every run.  Any pattern that is not found raises (broken tie)."""
import re


def norm(s):
    s = re.sub(r"//[^\n]*", "", s)
    return re.sub(r"\s+", " ", s)


def must(pat, s, what):
    m = re.search(pat, s)
    if not m:
        raise RuntimeError(f"dr.py: pattern for {what} not found: {pat}")
    return m


def body_of(src, header_pat, what):
    """text of the brace block that follows the first match of header_pat (whitespace-normalised source)"""
    m = must(header_pat, src, what)
    i = src.index("{", m.end() - 1)
    depth, j = 0, i
    while True:
        if src[j] == "{": depth += 1
        elif src[j] == "}":
            depth -= 1
            if depth == 0: break
        j += 1
    return src[i + 1:j]


def lin(expr, var, what):
    """parse `var * M + A`, `var * M`, `(var * M)`, `B + (var * M)` -> (M, A)"""
    e = expr.replace("(", " ").replace(")", " ")
    e = re.sub(r"\s+", " ", e).strip()
    m = re.fullmatch(rf"(?:(\d+) \+ )?{var} \* (\d+)(?: \+ (\d+))?", e)
    if not m:
        raise RuntimeError(f"dr.py: cannot parse index expression for {what}: {expr!r}")
    return int(m.group(2)), int(m.group(1) or 0) + int(m.group(3) or 0)


def lit(tok):
    tok = tok.strip().replace("_", "")
    if tok.startswith("0b"): return int(tok[2:], 2)
    if tok.startswith("0x"): return int(tok[2:], 16)
    return int(tok)


def enum_variants(src, name):
    b = body_of(src, rf"pub enum {name} \{{", f"enum {name}")
    b = re.sub(r"///[^\n]*", "", b)
    b = re.sub(r"#\[[^\]]*\]", "", b)
    out = []
    for part in b.split(","):
        part = part.strip()
        if not part: continue
        m = re.fullmatch(r"(\w+)(?: = (\S+))?", part)
        if not m: raise RuntimeError(f"dr.py: enum {name}: cannot parse variant {part!r}")
        out.append((m.group(1), m.group(2)))
    return out


def lean_bool(b): return "true" if b else "false"


def extract(read):
    raw = read("src/debugger/register.rs")
    # doc comments contain commas and braces: strip all comments first
    reg = norm(re.sub(r"///[^\n]*", "", raw))
    wpt = norm(read("src/debugger/watchpoint.rs"))
    L = []

    # ---- DebugRegisterNumber (repr(usize), implicit discriminants in order)
    drn = enum_variants(reg, "DebugRegisterNumber")
    if any(v is not None for _, v in drn): raise RuntimeError("dr.py: DebugRegisterNumber has explicit discriminants")
    drno = {n: i for i, (n, _) in enumerate(drn)}
    if [n for n, _ in drn] != ["DR0", "DR1", "DR2", "DR3"]: raise RuntimeError(f"dr.py: unexpected DebugRegisterNumber variants {drn}")

    # ---- BreakCondition / BreakSize discriminants
    for name in ("BreakCondition", "BreakSize"):
        vs = enum_variants(reg, name)
        if any(v is None for _, v in vs): raise RuntimeError(f"dr.py: {name} without explicit discriminant")
        L.append(f"inductive {name} where\n" + "\n".join(f"  | {n}" for n, _ in vs) + "\n  deriving Repr, DecidableEq, Inhabited")
        L.append(f"def {name}.code : {name} → Nat\n" + "\n".join(f"  | .{n} => {lit(v)}" for n, v in vs))
        L.append(f"def {name}.all : List {name} := [" + ", ".join(f".{n}" for n, _ in vs) + "]")
    tf = body_of(reg, r"impl TryFrom<u8> for BreakSize \{", "TryFrom<u8> for BreakSize")
    arms = re.findall(r"(\d+) => BreakSize::(\w+),", tf)
    if not arms or "_ => return Err(Error::WatchpointWrongSize)" not in tf: raise RuntimeError("dr.py: BreakSize::try_from arms not found")
    L.append("def BreakSize.ofBytes? : Nat → Option BreakSize\n" + "\n".join(f"  | {n} => some .{v}" for n, v in arms) + "\n  | _ => none")
    L.append("def BreakSize.bytes : BreakSize → Nat\n" + "\n".join(f"  | .{v} => {n}" for n, v in arms))

    # ---- DR6
    traps = []
    for n in range(4):
        m = must(rf"const TRAP{n}: usize = (1(?: << (\d+))?);", reg, f"TRAP{n}")
        traps.append(int(m.group(2) or 0))
    L.append("/-- bit number of TRAPn in DR6 (the constants are `1 << k`) -/\ndef trapBit : List Nat := " + str(traps))
    for n in range(4):
        must(rf"impl_trap!\(trap{n}, Self::TRAP{n}\);", reg, f"impl_trap trap{n}")
    mac = body_of(reg, r"macro_rules! impl_trap \{", "impl_trap macro")
    must(r"let is_set = \(self\.0 & \$trap\) == \$trap; self\.0 &= !\$trap; is_set", mac, "impl_trap body")
    daf = body_of(reg, r"pub fn detect_and_flush\(&mut self\) -> Option<DebugRegisterNumber> \{", "detect_and_flush")
    order = re.findall(r"if self\.trap(\d)\(\) \{ DebugRegisterNumber::(\w+) \}", daf)
    if len(order) != 4 or "else { return None; }" not in daf: raise RuntimeError("dr.py: detect_and_flush chain not recognised")
    L.append("/-- detect_and_flush: (trap index tested, DR number returned), in the order of the if-chain -/\n"
             "def detectOrder : List (Nat × Nat) := [" + ", ".join(f"({t}, {drno[d]})" for t, d in order) + "]")

    # ---- DR7
    le = lit(must(r"const LOCAL_EXACT_BREAKPOINT_ENABLE_BIT: usize = (\w+);", reg, "LOCAL_EXACT bit").group(1))
    ge = lit(must(r"const GLOBAL_EXACT_BREAKPOINT_ENABLE_BIT: usize = (\w+);", reg, "GLOBAL_EXACT bit").group(1))
    L.append(f"abbrev localExactBit : Nat := {le}\nabbrev globalExactBit : Nat := {ge}")
    en = body_of(reg, r"pub fn dr_enabled\(&self, dr: DebugRegisterNumber, global: bool\) -> bool \{", "dr_enabled")
    m = must(r"let dr = dr as usize; let idx = if global \{ ([^}]*) \} else \{ ([^}]*) \}; debug_assert!\(idx <= 7\); self\.0\.get_bit\(idx\)", en, "dr_enabled body")
    gm, ga = lin(m.group(1), "dr", "dr_enabled global"); lm, la = lin(m.group(2), "dr", "dr_enabled local")
    L.append(f"/-- bit index read by `dr_enabled` -/\n@[simp] def enabledIdx (dr : Nat) (global : Bool) : Nat := if global then dr * {gm} + {ga} else dr * {lm} + {la}")
    sd = body_of(reg, r"pub fn set_dr\(&mut self, dr: DebugRegisterNumber, global: bool, enable: bool\) \{", "set_dr")
    m = must(r"let dr = dr as usize; let idx = if global \{ ([^}]*) \} else \{ ([^}]*) \}; self\.0\.set_bit\(idx, enable\);", sd, "set_dr index")
    gm, ga = lin(m.group(1), "dr", "set_dr global"); lm, la = lin(m.group(2), "dr", "set_dr local")
    L.append(f"/-- bit index written by `set_dr` -/\n@[simp] def setDrIdx (dr : Nat) (global : Bool) : Nat := if global then dr * {gm} + {ga} else dr * {lm} + {la}")
    m = must(r"let detection_bit = if global \{ Self::(\w+) \} else \{ Self::(\w+) \};", sd, "set_dr detection bit")
    names = {"GLOBAL_EXACT_BREAKPOINT_ENABLE_BIT": "globalExactBit", "LOCAL_EXACT_BREAKPOINT_ENABLE_BIT": "localExactBit"}
    L.append(f"@[simp] def detectionBit (global : Bool) : Nat := if global then {names[m.group(1)]} else {names[m.group(2)]}")
    must(r"if enable \{ self\.0\.set_bit\(detection_bit, true\); \} else \{ let all_disabled = \[([\d, ]+)\]\.iter\(\)\.all\(\|&n\| \{ !self\.dr_enabled\( DebugRegisterNumber::from_repr\(n\)\.expect\(\"infallible\"\), global, \) \}\); if all_disabled \{ self\.0\.set_bit\(detection_bit, false\); \} \}", sd, "set_dr tail")
    scan = re.search(r"let all_disabled = \[([\d, ]+)\]", sd).group(1)
    L.append("def allDisabledScan : List Nat := [" + ", ".join(x.strip() for x in scan.split(",") if x.strip()) + "]")
    cb = body_of(reg, r"pub fn configure_bp\( &mut self, dr: DebugRegisterNumber, cond: BreakCondition, size: BreakSize, \) \{", "configure_bp")
    m = must(r"let dr = dr as usize; let idx = ([^;]*); self\.0\.set_bits\(idx\.\.=idx \+ (\d+), cond as usize\); let idx = ([^;]*); self\.0\.set_bits\(idx\.\.=idx \+ (\d+), size as usize\);", cb, "configure_bp body")
    cs, cbase = lin(m.group(1), "dr", "configure_bp cond"); ss, sbase = lin(m.group(3), "dr", "configure_bp size")
    L.append(f"abbrev condBase : Nat := {cbase}\nabbrev condStride : Nat := {cs}\nabbrev condWidth : Nat := {int(m.group(2)) + 1}\n"
             f"abbrev sizeBase : Nat := {sbase}\nabbrev sizeStride : Nat := {ss}\nabbrev sizeWidth : Nat := {int(m.group(4)) + 1}")

    # ---- watchpoint.rs: how the registry uses the register image
    en = body_of(wpt, r"fn enable\(&mut self, tracee_ctl: &TraceeCtl\) -> Result<HardwareDebugState, Error> \{", "HardwareBreakpoint::enable")
    m = must(r"let free_register = \[((?: ?DebugRegisterNumber::\w+,)+) ?\] \.into_iter\(\) \.find\(\|&dr_num\| !state\.dr7\.dr_enabled\(dr_num, (true|false)\)\) \.ok_or\(Error::WatchpointLimitReached\)\?;", en, "free-slot search")
    order = re.findall(r"DebugRegisterNumber::(\w+)", m.group(1))
    L.append("/-- order in which `HardwareBreakpoint::enable` looks for a free slot, and which enable bit it tests -/\n"
             "def freeSearchOrder : List Nat := [" + ", ".join(str(drno[d]) for d in order) + "]\n"
             f"abbrev freeSearchGlobal : Bool := {m.group(2)}")
    m = must(r"state\.address_regs\[free_register as usize\] = self\.address\.as_usize\(\); state \.dr7 \.configure_bp\(free_register, self\.condition, self\.size\); state\.dr7\.set_dr\(free_register, (true|false), (true|false)\);", en, "enable: register programming")
    if m.group(2) != "true": raise RuntimeError("dr.py: enable() does not enable the slot")
    L.append(f"abbrev enableGlobal : Bool := {m.group(1)}")
    di = body_of(wpt, r"fn disable\(&mut self, tracee_ctl: &TraceeCtl\) -> Result<HardwareDebugState, Error> \{", "HardwareBreakpoint::disable")
    m = must(r"state\.dr7\.set_dr\(register, (true|false), (true|false)\);", di, "disable: set_dr")
    if m.group(2) != "false": raise RuntimeError("dr.py: disable() does not disable the slot")
    L.append(f"abbrev disableGlobal : Bool := {m.group(1)}")
    ao = body_of(wpt, r"fn address_already_observed\(", "address_already_observed")
    m = must(r"let enabled = state\.dr7\.dr_enabled\( DebugRegisterNumber::from_repr\(dr\)\.expect\(\"infallible\"\), (true|false), \); enabled && \*in_use_addr == address\.as_usize\(\)", ao, "address_already_observed body")
    L.append(f"abbrev observedGlobal : Bool := {m.group(1)}")
    return "\n\n".join(L)
