"""Constants of the value decoder, re-read from /repo on every run (C06):
LEN_GUARD / CAP_GUARD and the shape of guard_len / guard_cap (specialization/mod.rs), B of the B-tree reflection
(specialization/btree.rs), the hashbrown group width and the inverted EMPTY/DELETED mask (specialization/hashbrown.rs),
and the ORDER in which parse_vec_dequeue_inner clamps the capacity and reduces the head (the defect repaired by
26a941a: `guard_cap` was applied to the capacity before `head % cap`; now the capacity that positions the ring is unclamped).  A pattern that is not found raises: broken tie."""
import re

def extract(read):
    m = read("src/debugger/variable/value/specialization/mod.rs")
    lg = re.search(r"const LEN_GUARD: i64 = ([0-9_]+);", m)
    cg = re.search(r"const CAP_GUARD: i64 = ([0-9_]+);", m)
    if not lg or not cg: raise Exception("valGuards: LEN_GUARD / CAP_GUARD not found")
    if not re.search(r"fn guard_len\(len: i64\) -> i64 \{\s*if len > LEN_GUARD \{ LEN_GUARD \} else \{ len \}\s*\}", m):
        raise Exception("valGuards: guard_len has changed shape")
    if not re.search(r"fn guard_cap\(cap: i64\) -> i64 \{\s*if cap > CAP_GUARD \{ CAP_GUARD \} else \{ cap \}\s*\}", m):
        raise Exception("valGuards: guard_cap has changed shape")
    dq = m[m.index("fn parse_vec_dequeue_inner"):]
    dq = dq[:dq.index("pub fn parse_cell")]
    i_mod = dq.find("head % cap")
    if i_mod < 0: raise Exception("valGuards: `head % cap` not found in parse_vec_dequeue_inner")
    i_cap = dq.find("let cap = ")
    if not 0 <= i_cap < i_mod: raise Exception("valGuards: `let cap = ` not found before `head % cap` in parse_vec_dequeue_inner")
    # any clamp of the capacity (guard_cap, min, CAP_GUARD) between its definition and the modulo
    clamp_before_mod = re.search(r"guard_cap|CAP_GUARD|\.min\(", dq[i_cap:i_mod]) is not None
    b = read("src/debugger/variable/value/specialization/btree.rs")
    bb = re.search(r"^const B: usize = (\d+);", b, re.M)
    if not bb: raise Exception("valGuards: B not found")
    h = read("src/debugger/variable/value/specialization/hashbrown.rs")
    w = re.search(r"fn width\(\) -> usize \{\s*(\d+)\s*\}", h)
    if not w: raise Exception("valGuards: group width not found")
    inv = len(re.findall(r"\.match_empty_or_deleted\(\)\s*\.invert\(\)", h))
    L = [f"def LEN_GUARD : Int := {int(lg.group(1).replace('_', ''))}",
         f"def CAP_GUARD : Int := {int(cg.group(1).replace('_', ''))}",
         "/-- `guard_cap` is applied to the VecDeque capacity BEFORE `head % cap` -/",
         f"def dequeClampBeforeMod : Bool := {'true' if clamp_before_mod else 'false'}",
         f"def B : Nat := {bb.group(1)}",
         f"def groupWidth : Nat := {w.group(1)}",
         "/-- group loads followed by `.match_empty_or_deleted().invert()` (iter + next) -/",
         f"def invertedLoads : Nat := {inv}"]
    return "\n".join(L)
