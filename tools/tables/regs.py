"""C15: register tables of src/debugger/register.rs -> lean/BsVerif/Gen/Regs.lean.
Re-read on every run: `enum Register` (variants, strum snake_case names), `struct RegisterMap` (fields),
the arms of `RegisterMap::value` / `RegisterMap::update`, and both `From` conversions with
`user_regs_struct`.  The kernel's field order (x86-64 Linux ABI, <sys/user.h>) is a constant of this file.
Raises when a pattern is not found or an arm does not have the expected shape (broken tie)."""
import re

KERNEL_FIELDS = ["r15", "r14", "r13", "r12", "rbp", "rbx", "r11", "r10", "r9", "r8", "rax", "rcx", "rdx", "rsi",
                 "rdi", "orig_rax", "rip", "cs", "eflags", "rsp", "ss", "fs_base", "gs_base", "ds", "es", "fs", "gs"]


def snake(v):
    return re.sub(r"(?<!^)(?=[A-Z])", "_", v).lower()


def block(src, header_re):
    """text between the `{` that follows the header and its matching `}`"""
    m = re.search(header_re, src)
    if not m:
        raise Exception(f"pattern not found: {header_re}")
    i = src.index("{", m.end() - 1)
    depth, j = 0, i
    while True:
        if src[j] == "{": depth += 1
        elif src[j] == "}":
            depth -= 1
            if depth == 0: break
        j += 1
    return src[i + 1:j]


def strip_comments(s):
    return re.sub(r"//[^\n]*", "", s)


def extract(read):
    src = read("src/debugger/register.rs")
    enum = strip_comments(block(src, r"pub enum Register\s*\{"))
    variants = re.findall(r"^\s*([A-Z]\w*)\s*,", enum, re.M)
    if len(variants) < 16 or len(set(variants)) != len(variants):
        raise Exception(f"enum Register: unexpected variants {variants}")
    if not re.search(r'strum\(serialize_all\s*=\s*"snake_case"\)\]\s*pub enum Register', src):
        raise Exception("enum Register is no longer serialised as snake_case")
    names = [snake(v) for v in variants]
    vidx = {v: i for i, v in enumerate(variants)}

    struct = strip_comments(block(src, r"pub struct RegisterMap\s*\{"))
    fields = re.findall(r"^\s*(\w+)\s*:\s*u64\s*,", struct, re.M)
    if len(fields) != len(re.findall(r":", struct)):
        raise Exception("struct RegisterMap: a field is not `name: u64`")
    fidx = {f: i for i, f in enumerate(fields)}
    kidx = {f: i for i, f in enumerate(KERNEL_FIELDS)}

    impl = block(src, r"impl RegisterMap\s*\{")
    value_fn = strip_comments(block(impl, r"pub fn value\b[^{]*\{"))
    value_arms = re.findall(r"Register::(\w+)\s*=>\s*self\.(\w+)\s*,", block(value_fn, r"match register\s*\{"))
    n_arms = len(re.findall(r"=>", block(value_fn, r"match register\s*\{")))
    if n_arms != len(value_arms):
        raise Exception("RegisterMap::value: an arm is not `Register::X => self.f,`")
    update_fn = strip_comments(block(impl, r"pub fn update\b[^{]*\{"))
    ub = block(update_fn, r"match register\.into\(\)\s*\{")
    update_arms = re.findall(r"Register::(\w+)\s*=>\s*self\.(\w+)\s*=\s*value\s*,", ub)
    if len(re.findall(r"=>", ub)) != len(update_arms):
        raise Exception("RegisterMap::update: an arm is not `Register::X => self.f = value,`")

    from_user = strip_comments(block(block(src, r"impl From<user_regs_struct> for RegisterMap\s*\{"), r"Self\s*\{"))
    from_arms = re.findall(r"(\w+)\s*:\s*value\.(\w+)\s*,", from_user)
    if len(from_arms) != len(re.findall(r":", from_user)):
        raise Exception("From<user_regs_struct>: an initialiser is not `f: value.k,`")
    tu = block(src, r"impl From<RegisterMap> for user_regs_struct\s*\{")
    body = block(tu, r"->\s*user_regs_struct\s*\{")
    lit = strip_comments(block(body, r"user_regs_struct\s*\{"))
    to_arms = re.findall(r"(\w+)\s*:\s*reg_map\.(\w+)\s*,", lit)
    if len(to_arms) != len(re.findall(r":", lit)) or not to_arms:
        raise Exception("From<RegisterMap> for user_regs_struct: an initialiser is not `k: reg_map.f,`")

    def pairs(xs): return "[" + ", ".join(f"({a}, {b})" for a, b in xs) + "]"
    def strs(xs): return "[" + ", ".join(f'"{x}"' for x in xs) + "]"
    L = []
    L.append("/-- `enum Register`, in declaration order, under their strum `snake_case` names -/")
    L.append(f"def regNames : List String := {strs(names)}")
    L.append(f"def numRegs : Nat := {len(names)}")
    L.append("/-- fields of `struct RegisterMap`, in declaration order -/")
    L.append(f"def structFields : List String := {strs(fields)}")
    L.append("/-- fields of the kernel's `user_regs_struct` (x86-64 ABI order) -/")
    L.append(f"def kernelFields : List String := {strs(KERNEL_FIELDS)}")
    L.append("/-- arms of `RegisterMap::value`: (register, struct field) -/")
    L.append(f"def valueTable : List (Nat × Nat) := {pairs((vidx[r], fidx[f]) for r, f in value_arms)}")
    L.append("/-- arms of `RegisterMap::update`: (register, struct field) -/")
    L.append(f"def updateTable : List (Nat × Nat) := {pairs((vidx[r], fidx[f]) for r, f in update_arms)}")
    L.append("/-- `From<user_regs_struct> for RegisterMap`: (struct field, kernel field) -/")
    L.append(f"def fromUserTable : List (Nat × Nat) := {pairs((fidx[f], kidx[k]) for f, k in from_arms)}")
    L.append("/-- `From<RegisterMap> for user_regs_struct`: (kernel field, struct field) -/")
    L.append(f"def toUserTable : List (Nat × Nat) := {pairs((kidx[k], fidx[f]) for k, f in to_arms)}")
    return "\n".join(L)
