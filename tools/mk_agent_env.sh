#!/bin/sh
# Create an isolated environment for a sub-agent:  /var/tmp/bsv-agents/<name>/{verif,repo}
# (git worktrees of /verif and /repo on branch a-<name>; harness/Cargo.toml uses ../../repo so it resolves there)
set -e
N="$1"; B=/var/tmp/bsv-agents/$N
mkdir -p "$B"
git -C /verif worktree add -q -b "a-$N" "$B/verif" HEAD
git -C /repo worktree add -q -b "a-$N" "$B/repo" HEAD
# seed build caches (registry crates compiled once)
mkdir -p "$B/verif/harness" "$B/verif/lean"
cp -a /verif/harness/target "$B/verif/harness/target" 2>/dev/null || true
cp -a /verif/lean/.lake "$B/verif/lean/.lake" 2>/dev/null || true
[ -d /verif/progs ] && cp -a /verif/progs "$B/verif/progs" || true
echo "$B"
