#!/bin/sh
# usage: tools/seeded_run.sh <dir with patch.diff> <prop-id>...   — apply a seeded change to /repo, run the checks, undo.
D="$(cd "$1" && pwd)"; shift
cd /repo || exit 2
if [ -n "$(git status --short)" ]; then echo "repo not clean"; exit 2; fi
git apply "$D/patch.diff" 2>/dev/null || git apply --3way "$D/patch.diff" || { echo "SEEDED $D: patch does not apply to the current tree"; git reset -q --hard HEAD; exit 2; }
for P in "$@"; do
  OUT=$(cd /verif && ./check "$P" quick 2>&1); RC=$?
  echo "SEEDED $(basename $(dirname $D))/$(basename $D) -> $P rc=$RC :: $(echo "$OUT" | grep -c '^VIOLATION') violation line(s); $(echo "$OUT" | tail -1)"
  echo "$OUT" | grep '^VIOLATION' | head -4
done
git reset -q --hard HEAD
# the runs above rewrote evidence/<id>.json under a PATCHED repo: evidence must come from the unchanged tree only
git -C /verif checkout -- evidence/
