use std::io::Write;
fn main() {
    // libthread_db looks up the ps_* callbacks in the executable
    println!("cargo:rustc-link-arg=-Wl,--export-dynamic");
    // one module per property sub-command: every src/props/<name>.rs exposes `pub fn run(args: &[String])`
    println!("cargo:rerun-if-changed=src/props");
    let dir = std::path::Path::new(&std::env::var("CARGO_MANIFEST_DIR").unwrap()).join("src/props");
    let mut names: Vec<String> = std::fs::read_dir(&dir).unwrap().filter_map(|e| {
        let n = e.unwrap().file_name().into_string().unwrap();
        n.strip_suffix(".rs").map(String::from)
    }).collect();
    names.sort();
    let out = std::path::Path::new(&std::env::var("OUT_DIR").unwrap()).join("dispatch.rs");
    let mut f = std::fs::File::create(out).unwrap();
    for n in &names {
        writeln!(f, "#[path = {:?}] pub mod {n};", dir.join(format!("{n}.rs"))).unwrap();
    }
    writeln!(f, "pub fn dispatch(cmd: &str, args: &[String]) -> bool {{ match cmd {{").unwrap();
    for n in &names { writeln!(f, "  {n:?} => {n}::run(args),").unwrap(); }
    writeln!(f, "  _ => return false }} true }}").unwrap();
    writeln!(f, "pub const COMMANDS: &[&str] = &{names:?};").unwrap();
}
