fn main() {
    // libthread_db looks up the ps_* callbacks in the executable
    println!("cargo:rustc-link-arg=-Wl,--export-dynamic");
}
