//! Small shared helpers: seeded PRNG (splitmix64), protocol encoders, output bundle.
use std::fmt::Write as _;
use std::io::Write as _;
use std::path::{Path, PathBuf};

#[derive(Clone)]
pub struct Rng(pub u64);
impl Rng {
    pub fn new(seed: u64) -> Self { Rng(seed ^ 0x9E37_79B9_7F4A_7C15) }
    pub fn next(&mut self) -> u64 {
        self.0 = self.0.wrapping_add(0x9E37_79B9_7F4A_7C15);
        let mut z = self.0;
        z = (z ^ (z >> 30)).wrapping_mul(0xBF58_476D_1CE4_E5B9);
        z = (z ^ (z >> 27)).wrapping_mul(0x94D0_49BB_1331_11EB);
        z ^ (z >> 31)
    }
    pub fn below(&mut self, n: u64) -> u64 { if n == 0 { 0 } else { self.next() % n } }
    pub fn range(&mut self, lo: u64, hi: u64) -> u64 { lo + self.below(hi - lo + 1) }
    pub fn chance(&mut self, num: u64, den: u64) -> bool { self.below(den) < num }
    pub fn pick<'a, T>(&mut self, xs: &'a [T]) -> &'a T { &xs[self.below(xs.len() as u64) as usize] }
    pub fn fork(&mut self) -> Rng { Rng::new(self.next()) }
}

pub fn enc_str(s: &str) -> String {
    let mut o = String::with_capacity(1 + 2 * s.len());
    o.push('x');
    for b in s.bytes() { write!(o, "{b:02x}").unwrap(); }
    o
}
pub fn enc_list<T>(xs: &[T], f: impl Fn(&T) -> String) -> String {
    if xs.is_empty() { "-".into() } else { xs.iter().map(f).collect::<Vec<_>>().join(",") }
}

/// Everything one harness run hands to `check`: model requests, the implementation's
/// answers to them, oracle failures, and statistics for the evidence file.
pub struct Out {
    dir: PathBuf,
    pub req: Vec<String>,
    pub imp: Vec<String>,
    pub oracle_failures: Vec<serde_json::Value>,
    pub stats: serde_json::Map<String, serde_json::Value>,
    pub samples: Vec<serde_json::Value>,
    pub oracle_evals: u64,
}
impl Out {
    pub fn new(dir: &Path) -> Self {
        std::fs::create_dir_all(dir).unwrap();
        Out { dir: dir.to_path_buf(), req: vec![], imp: vec![], oracle_failures: vec![],
              stats: Default::default(), samples: vec![], oracle_evals: 0 }
    }
    /// one model request together with what the implementation answered
    pub fn pair(&mut self, req: String, imp: String) {
        debug_assert!(!req.contains('\n') && !imp.contains('\n'));
        self.req.push(req); self.imp.push(imp);
    }
    pub fn count(&mut self, key: &str, by: u64) {
        let e = self.stats.entry(key.to_string()).or_insert(serde_json::json!(0));
        *e = serde_json::json!(e.as_u64().unwrap_or(0) + by);
    }
    pub fn sample(&mut self, v: serde_json::Value) { if self.samples.len() < 5 { self.samples.push(v); } }
    /// an implementation-vs-oracle failure: `key` classifies it (matched against known_findings.txt)
    pub fn oracle_fail(&mut self, key: &str, what: &str, replay: serde_json::Value) {
        self.oracle_failures.push(serde_json::json!({"key": key, "what": what, "replay": replay}));
    }
    pub fn finish(self) {
        let w = |name: &str, lines: &[String]| {
            let mut f = std::io::BufWriter::new(std::fs::File::create(self.dir.join(name)).unwrap());
            for l in lines { writeln!(f, "{l}").unwrap(); }
        };
        w("req.txt", &self.req);
        w("impl.txt", &self.imp);
        let mut f = std::fs::File::create(self.dir.join("oracle.jsonl")).unwrap();
        for o in &self.oracle_failures { writeln!(f, "{o}").unwrap(); }
        let stats = serde_json::json!({"stats": self.stats, "samples": self.samples,
            "oracle_evals": self.oracle_evals, "pairs": self.req.len()});
        std::fs::write(self.dir.join("stats.json"), serde_json::to_string_pretty(&stats).unwrap()).unwrap();
    }
}

pub struct Args { pub seed: u64, pub n: u64, pub out: PathBuf, pub replay: Option<PathBuf>, pub rest: Vec<String> }
pub fn parse_args(args: &[String]) -> Args {
    let mut a = Args { seed: 0, n: 1000, out: PathBuf::from("out"), replay: None, rest: vec![] };
    let mut i = 0;
    while i < args.len() {
        match args[i].as_str() {
            "--seed" => { a.seed = args[i + 1].parse().unwrap(); i += 2; }
            "--n" => { a.n = args[i + 1].parse().unwrap(); i += 2; }
            "--replay" => { a.replay = Some(PathBuf::from(&args[i + 1])); i += 2; }
            "--out" => { a.out = PathBuf::from(&args[i + 1]); i += 2; }
            _ => { a.rest.push(args[i].clone()); i += 1; }
        }
    }
    a
}

pub fn dec_str(tok: &str) -> String {
    let h = tok.strip_prefix('x').expect("string token");
    let bytes: Vec<u8> = (0..h.len() / 2).map(|i| u8::from_str_radix(&h[2 * i..2 * i + 2], 16).unwrap()).collect();
    String::from_utf8(bytes).unwrap()
}
pub fn dec_list<T>(tok: &str, f: impl Fn(&str) -> T) -> Vec<T> {
    if tok == "-" { vec![] } else { tok.split(',').map(f).collect() }
}
/// request lines of a replay file (lines starting with `#` are comments)
pub fn read_lines(p: &Path) -> Vec<String> {
    std::fs::read_to_string(p).unwrap().lines().filter(|l| !l.starts_with('#') && !l.is_empty()).map(String::from).collect()
}
