//! Shared infrastructure for properties that need a live debuggee:
//! * `ipose`  — in-process interposer of `ptrace`/`waitpid` (DESIGN 1.2.2): logs and can inject faults;
//! * `worker` — one forked worker process per debugger session (the tracer calls `waitpid(-1)`);
//! * `Prog`   — a compiled debuggee + its independent reference trace (`reftrace`) + ELF facts;
//! * `Live`   — a `Debugger` on a launched `Prog`, with independent observers (/proc/<pid>/mem, maps).
use bugstalker::debugger::process::Child;
use bugstalker::debugger::{Debugger, DebuggerBuilder, NopHook, rust};
use object::{Object, ObjectSection, ObjectSymbol};
use std::collections::BTreeMap;
use std::io::{BufRead, BufReader, Read, Seek, SeekFrom, Write};
use std::path::{Path, PathBuf};
use std::sync::{Arc, Mutex};

pub mod ipose {
    use std::sync::Mutex;
    use std::sync::atomic::{AtomicBool, AtomicI64, AtomicU32, Ordering};

    #[derive(Clone, Debug)]
    pub enum Ev {
        Ptrace { req: u32, pid: i32, addr: u64, data: u64, ret: i64, errno: i32, rip: u64 },
        Wait { arg: i32, ret: i32, status: i32 },
    }
    pub static ENABLED: AtomicBool = AtomicBool::new(false);
    pub static LOG: Mutex<Vec<Ev>> = Mutex::new(Vec::new());
    /// fault injection: make the n-th (1-based, counted from `arm`) call of request `FAIL_REQ` fail with EIO
    pub static FAIL_REQ: AtomicU32 = AtomicU32::new(u32::MAX);
    pub static FAIL_AT: AtomicI64 = AtomicI64::new(-1);
    /// (C16, additive) when switched on by `enable_regs()`: the complete register file of every successful
    /// GETREGS / SETREGS, tagged with the index its event has in `LOG`; emptied by `take_with_regs()` and `take()`.
    pub static REGS_ENABLED: AtomicBool = AtomicBool::new(false);
    pub static REGLOG: Mutex<Vec<(usize, libc::user_regs_struct)>> = Mutex::new(Vec::new());

    type PtraceFn = unsafe extern "C" fn(libc::c_uint, libc::pid_t, *mut libc::c_void, *mut libc::c_void) -> libc::c_long;
    type WaitFn = unsafe extern "C" fn(libc::pid_t, *mut libc::c_int, libc::c_int) -> libc::pid_t;

    #[unsafe(no_mangle)]
    pub unsafe extern "C" fn ptrace(req: libc::c_uint, pid: libc::pid_t, addr: *mut libc::c_void, data: *mut libc::c_void) -> libc::c_long {
        unsafe {
            static REAL: std::sync::OnceLock<usize> = std::sync::OnceLock::new();
            let f: PtraceFn = std::mem::transmute(*REAL.get_or_init(|| libc::dlsym(libc::RTLD_NEXT, c"ptrace".as_ptr()) as usize));
            if FAIL_REQ.load(Ordering::Relaxed) == req {
                let left = FAIL_AT.fetch_sub(1, Ordering::Relaxed);
                if left == 1 {
                    *libc::__errno_location() = libc::EIO;
                    if ENABLED.load(Ordering::Relaxed) {
                        let mut log = LOG.lock().unwrap();
                        // (C16) the register file a faulted SETREGS asked for is part of the traffic too
                        if REGS_ENABLED.load(Ordering::Relaxed) && req == libc::PTRACE_SETREGS && !data.is_null() {
                            REGLOG.lock().unwrap().push((log.len(), *(data as *const libc::user_regs_struct)));
                        }
                        log.push(Ev::Ptrace { req, pid, addr: addr as u64, data: data as u64, ret: -1, errno: libc::EIO, rip: 0 });
                    }
                    return -1;
                }
            }
            delay(req as u64);
            *libc::__errno_location() = 0;
            let ret = f(req, pid, addr, data);
            let errno = *libc::__errno_location();
            if ENABLED.load(Ordering::Relaxed) {
                // for GETREGS/SETREGS keep the program counter that was read / written
                let rip = if (req == libc::PTRACE_GETREGS || req == libc::PTRACE_SETREGS) && ret == 0 && !data.is_null() {
                    (*(data as *const libc::user_regs_struct)).rip
                } else if req == libc::PTRACE_GETSIGINFO && ret == 0 && !data.is_null() {
                    // (C09) the si_code that was read travels in the `rip` field
                    (*(data as *const libc::siginfo_t)).si_code as u32 as u64
                } else if req == libc::PTRACE_GETEVENTMSG && ret == 0 && !data.is_null() {
                    // (C09) the event message (new thread id of a clone event) travels in the `rip` field
                    *(data as *const libc::c_ulong) as u64
                } else { 0 };
                let mut log = LOG.lock().unwrap();
                if REGS_ENABLED.load(Ordering::Relaxed) && (req == libc::PTRACE_GETREGS || req == libc::PTRACE_SETREGS) && ret == 0 && !data.is_null() {
                    REGLOG.lock().unwrap().push((log.len(), *(data as *const libc::user_regs_struct)));
                }
                log.push(Ev::Ptrace { req, pid, addr: addr as u64, data: data as u64, ret: ret as i64, errno, rip });
                drop(log);
                *libc::__errno_location() = errno;
            }
            ret
        }
    }

    #[unsafe(no_mangle)]
    pub unsafe extern "C" fn waitpid(pid: libc::pid_t, st: *mut libc::c_int, opt: libc::c_int) -> libc::pid_t {
        unsafe {
            static REAL: std::sync::OnceLock<usize> = std::sync::OnceLock::new();
            let f: WaitFn = std::mem::transmute(*REAL.get_or_init(|| libc::dlsym(libc::RTLD_NEXT, c"waitpid".as_ptr()) as usize));
            let mut ret = 0;
            // (C14) a PTRACE_EVENT_CLONE status held back earlier is handed over now
            if clone_order::ACTIVE.load(Ordering::Relaxed) { ret = clone_order::deliver_held(pid, st); }
            if ret == 0 {
                ret = f(pid, st, opt);
                if clone_order::ACTIVE.load(Ordering::Relaxed) { ret = clone_order::after_wait(f, pid, st, ret); }
            }
            if DELAY_MAX_US.load(Ordering::Relaxed) != 0 { let e = *libc::__errno_location(); delay(0x1000); *libc::__errno_location() = e; }
            if ENABLED.load(Ordering::Relaxed) {
                let errno = *libc::__errno_location();
                let status = if st.is_null() { 0 } else { *st };
                LOG.lock().unwrap().push(Ev::Wait { arg: pid, ret, status });
                *libc::__errno_location() = errno;
            }
            ret
        }
    }

    /// (C14, additive; off unless `clone_order::track()` was called) order of the two notifications of a thread
    /// creation.  The kernel reports PTRACE_EVENT_CLONE on the parent and the initial PTRACE_EVENT_STOP on the child,
    /// and `waitpid(-1)` may return them in either order.  While tracking, every PTRACE_EVENT_CLONE returned by
    /// `waitpid(-1)` is classified (`CF`: the child has not been returned by any `waitpid` yet, `SF_NATURAL`: it has).
    /// `arm_child_first(n)`: for the next `n` clone events of the first kind the parent's status is put aside, the
    /// child's own first stop is collected with `waitpid(child, __WALL)` and returned instead, and the put-aside status
    /// is returned by the next `waitpid(-1 | parent)`.  Only genuine kernel statuses are handed out, in an order the
    /// kernel itself may choose.
    pub mod clone_order {
        use std::sync::Mutex;
        use std::sync::atomic::{AtomicBool, AtomicI32, AtomicU32, Ordering};
        pub static ACTIVE: AtomicBool = AtomicBool::new(false);
        static ARMED: AtomicU32 = AtomicU32::new(0);
        static HELD_PID: AtomicI32 = AtomicI32::new(0);
        static HELD_ST: AtomicI32 = AtomicI32::new(0);
        static SEEN: Mutex<Vec<i32>> = Mutex::new(Vec::new());
        pub static CF: AtomicU32 = AtomicU32::new(0);
        pub static SF_NATURAL: AtomicU32 = AtomicU32::new(0);
        pub static SF_FORCED: AtomicU32 = AtomicU32::new(0);
        pub fn track() { ACTIVE.store(true, Ordering::Relaxed); }
        pub fn arm_child_first(n: u32) { track(); ARMED.store(n, Ordering::Relaxed); }
        pub fn disarm() { ARMED.store(0, Ordering::Relaxed); }
        /// (clone-first, child-stop-first by itself, child-stop-first forced) since the last call
        pub fn take_counts() -> (u32, u32, u32) {
            (CF.swap(0, Ordering::Relaxed), SF_NATURAL.swap(0, Ordering::Relaxed), SF_FORCED.swap(0, Ordering::Relaxed))
        }
        pub(super) unsafe fn deliver_held(pid: libc::pid_t, st: *mut libc::c_int) -> libc::pid_t {
            let hp = HELD_PID.load(Ordering::Relaxed);
            if hp != 0 && (pid == -1 || pid == hp) {
                HELD_PID.store(0, Ordering::Relaxed);
                if !st.is_null() { unsafe { *st = HELD_ST.load(Ordering::Relaxed); } }
                return hp;
            }
            0
        }
        pub(super) unsafe fn after_wait(f: super::WaitFn, pid: libc::pid_t, st: *mut libc::c_int, ret: libc::pid_t) -> libc::pid_t {
            unsafe {
                if ret <= 0 || st.is_null() { return ret; }
                let s = *st;
                let is_clone = pid == -1 && libc::WIFSTOPPED(s) && (s >> 8) == (libc::SIGTRAP | (libc::PTRACE_EVENT_CLONE << 8));
                if !is_clone {
                    let mut seen = SEEN.lock().unwrap();
                    if !seen.contains(&ret) { seen.push(ret); }
                    return ret;
                }
                // the real request, not the logging wrapper: the tracer is not to see this question
                type PtraceFn = unsafe extern "C" fn(libc::c_uint, libc::pid_t, *mut libc::c_void, *mut libc::c_void) -> libc::c_long;
                static REALP: std::sync::OnceLock<usize> = std::sync::OnceLock::new();
                let p: PtraceFn = std::mem::transmute(*REALP.get_or_init(|| libc::dlsym(libc::RTLD_NEXT, c"ptrace".as_ptr()) as usize));
                let mut child: libc::c_ulong = 0;
                let rc = p(libc::PTRACE_GETEVENTMSG, ret, std::ptr::null_mut(), &mut child as *mut libc::c_ulong as *mut libc::c_void);
                *libc::__errno_location() = 0;
                if rc != 0 || child == 0 { return ret; }
                let child = child as libc::pid_t;
                let mut seen = SEEN.lock().unwrap();
                if !seen.contains(&ret) { seen.push(ret); }
                if seen.contains(&child) { SF_NATURAL.fetch_add(1, Ordering::Relaxed); return ret; }
                if ARMED.load(Ordering::Relaxed) == 0 { CF.fetch_add(1, Ordering::Relaxed); return ret; }
                let mut cst: libc::c_int = 0;
                let r2 = f(child, &mut cst, libc::__WALL);
                if r2 != child { CF.fetch_add(1, Ordering::Relaxed); return ret; }
                seen.push(child);
                ARMED.fetch_sub(1, Ordering::Relaxed);
                HELD_PID.store(ret, Ordering::Relaxed);
                HELD_ST.store(s, Ordering::Relaxed);
                *st = cst;
                SF_FORCED.fetch_add(1, Ordering::Relaxed);
                r2
            }
        }
    }

    /// (C09) seeded schedule perturbation: with `set_delay(seed, max_us)` every `waitpid` return and every
    /// PTRACE_INTERRUPT / PTRACE_CONT / PTRACE_SINGLESTEP call is preceded by a pseudo-random sleep of 0..max_us
    /// microseconds (three quarters of the points do not sleep at all). Off (max_us = 0) by default.
    pub static DELAY_MAX_US: std::sync::atomic::AtomicU64 = std::sync::atomic::AtomicU64::new(0);
    pub static DELAY_STATE: std::sync::atomic::AtomicU64 = std::sync::atomic::AtomicU64::new(0);
    pub fn set_delay(seed: u64, max_us: u64) { DELAY_STATE.store(seed | 1, Ordering::Relaxed); DELAY_MAX_US.store(max_us, Ordering::Relaxed); }
    fn delay(point: u64) {
        let max = DELAY_MAX_US.load(Ordering::Relaxed);
        if max == 0 { return; }
        if point != 0x1000 && point != libc::PTRACE_INTERRUPT as u64 && point != libc::PTRACE_CONT as u64 && point != libc::PTRACE_SINGLESTEP as u64 { return; }
        let mut z = DELAY_STATE.load(Ordering::Relaxed).wrapping_add(0x9E37_79B9_7F4A_7C15);
        DELAY_STATE.store(z, Ordering::Relaxed);
        z = (z ^ (z >> 30)).wrapping_mul(0xBF58_476D_1CE4_E5B9);
        z = (z ^ (z >> 27)).wrapping_mul(0x94D0_49BB_1331_11EB);
        z ^= z >> 31;
        if z & 3 != 0 { return; }
        std::thread::sleep(std::time::Duration::from_micros((z >> 8) % (max + 1)));
    }

    pub fn enable() { ENABLED.store(true, Ordering::Relaxed); }
    pub fn take() -> Vec<Ev> { REGLOG.lock().unwrap().clear(); std::mem::take(&mut *LOG.lock().unwrap()) }
    pub fn enable_regs() { REGS_ENABLED.store(true, Ordering::Relaxed); }
    /// events since the last take, plus the register files of the GETREGS/SETREGS among them (index into the events)
    pub fn take_with_regs() -> (Vec<Ev>, Vec<(usize, libc::user_regs_struct)>) {
        let mut log = LOG.lock().unwrap();
        let regs = std::mem::take(&mut *REGLOG.lock().unwrap());
        (std::mem::take(&mut *log), regs)
    }
    pub fn arm_fault(req: u32, nth: i64) { FAIL_REQ.store(req, Ordering::Relaxed); FAIL_AT.store(nth, Ordering::Relaxed); }
    pub fn disarm_fault() { FAIL_REQ.store(u32::MAX, Ordering::Relaxed); FAIL_AT.store(-1, Ordering::Relaxed); }
    pub fn fault_fired() -> bool { FAIL_REQ.load(Ordering::Relaxed) != u32::MAX && FAIL_AT.load(Ordering::Relaxed) <= 0 }
}

/// Run `f` in a forked worker process (own process group). `f` appends answer lines through the `emit`
/// callback; each is flushed to a file at once, so answers survive a crash of the worker.
/// Returns (lines, how the worker ended: "ok" | "exit:<n>" | "signal:<n>" | "timeout").
pub fn worker(tmp: &Path, timeout_s: u64, f: impl FnOnce(&mut dyn FnMut(String))) -> (Vec<String>, String) {
    let _ = std::fs::remove_file(tmp);
    let pid = unsafe { libc::fork() };
    if pid == 0 {
        unsafe { libc::setpgid(0, 0) };
        let file = std::fs::File::create(tmp).unwrap();
        let mut w = std::io::LineWriter::new(file);
        let mut emit = |l: String| { writeln!(w, "{l}").unwrap(); w.flush().unwrap(); };
        std::panic::set_hook(Box::new(|_| {}));
        let r = std::panic::catch_unwind(std::panic::AssertUnwindSafe(|| f(&mut emit)));
        unsafe { libc::_exit(if r.is_ok() { 0 } else { 101 }) };
    }
    let start = std::time::Instant::now();
    let timeout_s = timeout_s * load_factor();
    let mut status = 0;
    let how;
    loop {
        let r = unsafe { libc::waitpid(pid, &mut status, libc::WNOHANG) };
        if r == pid {
            how = if libc::WIFEXITED(status) {
                if libc::WEXITSTATUS(status) == 0 { "ok".to_string() } else { format!("exit:{}", libc::WEXITSTATUS(status)) }
            } else { format!("signal:{}", libc::WTERMSIG(status)) };
            break;
        }
        if start.elapsed().as_secs() >= timeout_s {
            unsafe { libc::kill(-pid, libc::SIGKILL); libc::kill(pid, libc::SIGKILL); libc::waitpid(pid, &mut status, 0); }
            how = "timeout".to_string();
            break;
        }
        std::thread::sleep(std::time::Duration::from_millis(5));
    }
    // whatever the worker left behind (a stopped debuggee) dies with its process group
    unsafe { libc::kill(-pid, libc::SIGKILL) };
    let lines = std::fs::read_to_string(tmp).unwrap_or_default().lines().map(String::from).collect();
    let _ = std::fs::remove_file(tmp);
    (lines, how)
}

/// Run one worker per session, `par` at a time (the parent stays single-threaded; it only forks and polls).
/// Returns, per session, (lines, how it ended).
pub fn run_sessions<S: Sync>(sessions: &[S], tmpdir: &Path, tag: &str, par: usize, timeout_s: u64,
                             f: impl Fn(&S, &mut dyn FnMut(String))) -> Vec<(Vec<String>, String)> {
    // The watchdog is a wall-clock limit, so it is stretched by the machine's load (a session that takes 2 s on an idle
    // machine was seen to take > 25 s at load average 80), and a session that still times out is run ONCE more, alone,
    // with twice the limit: only a session that hangs both times is reported as hung. A hang is never dropped.
    let timeout_s = timeout_s * load_factor();
    let mut results = run_sessions_once(sessions, &(0..sessions.len()).collect::<Vec<_>>(), tmpdir, tag, par, timeout_s, &f);
    let again: Vec<usize> = (0..sessions.len()).filter(|&i| results[i].1 == "timeout").collect();
    if !again.is_empty() && std::env::var("VERIF_NO_RETRY").is_err() {
        let second = run_sessions_once(sessions, &again, tmpdir, tag, 1, timeout_s * 2, &f);
        for (k, &i) in again.iter().enumerate() { results[i] = second[k].clone(); }
    }
    results
}

/// 1 on an idle machine, up to 8 when the run queue is much longer than the number of cores
pub fn load_factor() -> u64 {
    let load = std::fs::read_to_string("/proc/loadavg").ok()
        .and_then(|s| s.split(' ').next().and_then(|v| v.parse::<f64>().ok())).unwrap_or(0.0);
    let cores = std::thread::available_parallelism().map(|n| n.get()).unwrap_or(1) as f64;
    ((load / cores).ceil() as u64).clamp(1, 8)
}

fn run_sessions_once<S: Sync>(all: &[S], which: &[usize], tmpdir: &Path, tag: &str, par: usize, timeout_s: u64,
                             f: &impl Fn(&S, &mut dyn FnMut(String))) -> Vec<(Vec<String>, String)> {
    let sessions: Vec<&S> = which.iter().map(|&i| &all[i]).collect();
    let mut results: Vec<Option<(Vec<String>, String)>> = (0..sessions.len()).map(|_| None).collect();
    let mut running: Vec<(i32, usize, std::time::Instant, PathBuf)> = vec![];
    let mut next = 0;
    while next < sessions.len() || !running.is_empty() {
        while next < sessions.len() && running.len() < par {
            let tmp = tmpdir.join(format!("{tag}-worker-{}.txt", which[next]));
            let _ = std::fs::remove_file(&tmp);
            let pid = unsafe { libc::fork() };
            if pid == 0 {
                unsafe { libc::setpgid(0, 0) };
                let file = std::fs::File::create(&tmp).unwrap();
                let mut w = std::io::LineWriter::new(file);
                let mut emit = |l: String| { writeln!(w, "{l}").unwrap(); w.flush().unwrap(); };
                if std::env::var("VERIF_SHOW_PANIC").is_err() { std::panic::set_hook(Box::new(|_| {})); }
                let r = std::panic::catch_unwind(std::panic::AssertUnwindSafe(|| f(sessions[next], &mut emit)));
                unsafe { libc::_exit(if r.is_ok() { 0 } else { 101 }) };
            }
            running.push((pid, next, std::time::Instant::now(), tmp));
            next += 1;
        }
        let mut i = 0;
        let mut progressed = false;
        while i < running.len() {
            let (pid, idx, start, ref tmp) = running[i];
            let mut status = 0;
            let r = unsafe { libc::waitpid(pid, &mut status, libc::WNOHANG) };
            let how = if r == pid {
                Some(if libc::WIFEXITED(status) {
                    if libc::WEXITSTATUS(status) == 0 { "ok".to_string() } else { format!("exit:{}", libc::WEXITSTATUS(status)) }
                } else { format!("signal:{}", libc::WTERMSIG(status)) })
            } else if start.elapsed().as_secs() >= timeout_s {
                unsafe { libc::kill(-pid, libc::SIGKILL); libc::kill(pid, libc::SIGKILL); libc::waitpid(pid, &mut status, 0); }
                Some("timeout".to_string())
            } else { None };
            if let Some(how) = how {
                unsafe { libc::kill(-pid, libc::SIGKILL) };
                let lines = std::fs::read_to_string(tmp).unwrap_or_default().lines().map(String::from).collect();
                let _ = std::fs::remove_file(tmp);
                results[idx] = Some((lines, how));
                running.swap_remove(i);
                progressed = true;
            } else { i += 1; }
        }
        if !progressed { std::thread::sleep(std::time::Duration::from_millis(3)); }
    }
    results.into_iter().map(|r| r.unwrap()).collect()
}

/// seconds a single debugger session may take before its worker is killed (normal sessions take 1-3 s)
pub fn session_timeout() -> u64 {
    std::env::var("VERIF_SESSION_TIMEOUT").ok().and_then(|v| v.parse().ok()).unwrap_or(25)
}

pub fn par_default() -> usize {
    std::env::var("VERIF_PAR").ok().and_then(|v| v.parse().ok()).unwrap_or(8)
}

pub fn verif_root() -> PathBuf {
    // harness/target/debug/bsv -> /verif
    if let Ok(r) = std::env::var("VERIF_ROOT") { return PathBuf::from(r); }
    let exe = std::env::current_exe().unwrap();
    exe.ancestors().nth(4).unwrap().to_path_buf()
}

#[derive(Clone, Debug)]
pub struct Step { pub pc: u64, pub depth: u32, pub rsp: u64, pub gap: u64, pub chain: std::rc::Rc<Vec<u64>> }

/// A compiled debuggee with its independent ground truth.
pub struct Prog {
    pub name: String,
    pub path: PathBuf,
    pub base: u64,            // load base with ASLR off (from the reference run)
    pub entry: u64,           // ELF entry (global address)
    pub exit_code: i32,
    pub trace: Vec<Step>,     // executed instructions inside the executable, global addresses
    pub stdout: Vec<u8>,
    pub file: Vec<u8>,
    pub text: Vec<(u64, u64, u64)>,        // executable sections: (global address, size, file offset)
    pub symbols: Vec<(u64, u64, String)>,  // (address, size, demangled name) of function symbols
}

impl Prog {
    pub fn load(name: &str) -> Prog {
        let root = verif_root();
        let path = root.join("progs").join(name);
        let tr = std::fs::read_to_string(format!("{}.trace", path.display()))
            .unwrap_or_else(|_| panic!("no reference trace for {name}: run tools/build_progs.sh"));
        let mut base = 0; let mut exit_code = 0; let mut trace = vec![];
        // shadow stack of absolute return addresses, outermost first; shared between steps while unchanged
        let mut shadow: Vec<u64> = vec![];
        let mut chain = std::rc::Rc::new(Vec::<u64>::new());
        for l in tr.lines() {
            if let Some(r) = l.strip_prefix("# base ") { base = u64::from_str_radix(r, 16).unwrap(); }
            else if let Some(r) = l.strip_prefix("# exit ") { exit_code = r.parse().unwrap(); }
            else if l.starts_with('#') { }
            else if let Some(r) = l.strip_prefix("+ ") {
                shadow.push(u64::from_str_radix(r.split(' ').next().unwrap(), 16).unwrap());
                chain = std::rc::Rc::new(shadow.clone());
            }
            else if let Some(r) = l.strip_prefix("- ") {
                let n: usize = r.parse().unwrap();
                shadow.truncate(shadow.len().saturating_sub(n));
                chain = std::rc::Rc::new(shadow.clone());
            }
            else {
                let mut it = l.split(' ');
                trace.push(Step { pc: u64::from_str_radix(it.next().unwrap(), 16).unwrap(), depth: it.next().unwrap().parse().unwrap(),
                                  rsp: u64::from_str_radix(it.next().unwrap(), 16).unwrap(),
                                  gap: it.next().map(|g| g.parse().unwrap()).unwrap_or(0), chain: chain.clone() });
            }
        }
        let file = std::fs::read(&path).unwrap();
        let obj = object::File::parse(&*file).unwrap();
        let entry = obj.entry();
        let mut text = vec![];
        for s in obj.sections() {
            if s.kind() == object::SectionKind::Text && let Some((off, size)) = s.file_range() { text.push((s.address(), size, off)); }
        }
        let mut symbols = vec![];
        for s in obj.symbols() {
            if s.kind() == object::SymbolKind::Text && s.size() > 0 && let Ok(n) = s.name() {
                symbols.push((s.address(), s.size(), format!("{:#}", rustc_demangle_lite(n))));
            }
        }
        symbols.sort();
        let stdout = std::fs::read(format!("{}.stdout", path.display())).unwrap_or_default();
        Prog { name: name.to_string(), path, base, entry, exit_code, trace, stdout, file, text, symbols }
    }
    /// original byte at a global text address, straight from the ELF file
    pub fn orig_byte(&self, a: u64) -> Option<u8> {
        self.text.iter().find(|(s, n, _)| a >= *s && a < s + n).map(|(s, _, off)| self.file[(off + (a - s)) as usize])
    }
    pub fn in_text(&self, a: u64) -> bool { self.text.iter().any(|(s, n, _)| a >= *s && a < s + n) }
    /// function symbols whose (mangled or demangled) name contains `pat`
    pub fn fns_matching(&self, pat: &str) -> Vec<(u64, u64, String)> {
        self.symbols.iter().filter(|(_, _, n)| n.contains(pat)).cloned().collect()
    }
    /// function symbol containing the address
    pub fn fn_of(&self, a: u64) -> Option<&(u64, u64, String)> {
        self.symbols.iter().find(|(s, n, _)| a >= *s && a < s + n)
    }
}

/// symbol names are kept mangled-ish: we only need substring tests on the crate's own function names
fn rustc_demangle_lite(n: &str) -> String { n.to_string() }

/// A debugger session on a launched program.
pub struct Live {
    pub dbg: Debugger,
    pub output: Arc<Mutex<Vec<u8>>>,
    reader: Option<std::thread::JoinHandle<()>>,
}

impl Live {
    pub fn launch(prog: &Prog) -> anyhow::Result<Live> {
        let (reader, writer) = os_pipe::pipe()?;
        let output = Arc::new(Mutex::new(Vec::new()));
        let o2 = output.clone();
        let handle = std::thread::spawn(move || {
            let mut r = BufReader::new(reader);
            let mut buf = [0u8; 4096];
            loop { match r.read(&mut buf) { Ok(0) | Err(_) => return, Ok(n) => o2.lock().unwrap().extend_from_slice(&buf[..n]) } }
        });
        rust::Environment::init(None);
        let runner = Child::new(prog.path.to_str().unwrap(), Vec::<String>::new(), None::<&Path>, writer.try_clone()?, writer);
        let process = runner.install()?;
        let dbg = DebuggerBuilder::<NopHook>::new().build(process)?;
        Ok(Live { dbg, output, reader: Some(handle) })
    }
    pub fn pid(&self) -> i32 { self.dbg.process().pid().as_raw() }
    /// drop the debugger (closing its ends of the output pipe), then return everything the debuggee wrote
    pub fn finish(self) -> Vec<u8> {
        let Live { dbg, output, reader } = self;
        drop(dbg);
        if let Some(h) = reader { let _ = h.join(); }
        let v = output.lock().unwrap().clone();
        v
    }
}

/// bytes of the process's memory through /proc/<pid>/mem (independent of ptrace PEEK)
pub fn proc_mem(pid: i32, addr: u64, len: usize) -> Option<Vec<u8>> {
    let mut f = std::fs::File::open(format!("/proc/{pid}/mem")).ok()?;
    f.seek(SeekFrom::Start(addr)).ok()?;
    let mut v = vec![0u8; len];
    f.read_exact(&mut v).ok()?;
    Some(v)
}

/// (start, end, perms, path) of /proc/<pid>/maps
pub fn proc_maps(pid: i32) -> Vec<(u64, u64, String, String)> {
    let Ok(f) = std::fs::File::open(format!("/proc/{pid}/maps")) else { return vec![] };
    BufReader::new(f).lines().map_while(Result::ok).filter_map(|l| {
        let mut it = l.split_whitespace();
        let (a, b) = it.next()?.split_once('-')?;
        let perms = it.next()?.to_string();
        let path = it.nth(3).unwrap_or("").to_string();
        Some((u64::from_str_radix(a, 16).ok()?, u64::from_str_radix(b, 16).ok()?, perms, path))
    }).collect()
}

/// every text byte of the live process that differs from the ELF file: global address -> (file byte, live byte)
pub fn text_diff(prog: &Prog, pid: i32, base: u64) -> Option<BTreeMap<u64, (u8, u8)>> {
    let mut d = BTreeMap::new();
    for (addr, size, off) in &prog.text {
        let live = proc_mem(pid, base + addr, *size as usize)?;
        let file = &prog.file[*off as usize..(*off + *size) as usize];
        for (i, (a, b)) in file.iter().zip(live.iter()).enumerate() {
            if a != b { d.insert(addr + i as u64, (*a, *b)); }
        }
    }
    Some(d)
}
