//! Independent decoding of the line table: text output of `llvm-dwarfdump --debug-line` (no code shared with
//! the debugger or gimli).  Used by oracles (C03, C04).
use std::process::Command;

#[derive(Clone, Debug, PartialEq)]
pub struct Row {
    pub addr: u64, pub line: u64, pub col: u64, pub file: String,
    pub is_stmt: bool, pub prologue_end: bool, pub epilogue_begin: bool, pub end_sequence: bool,
    pub seq: usize,  // index of the sequence the row belongs to
}

pub fn dwarfdump() -> &'static str {
    if std::path::Path::new("/usr/bin/llvm-dwarfdump-14").exists() { "llvm-dwarfdump-14" } else { "llvm-dwarfdump" }
}

/// all rows of all line programs, in table order
pub fn line_rows(binary: &std::path::Path) -> Option<Vec<Row>> {
    let out = Command::new(dwarfdump()).arg("--debug-line").arg(binary).output().ok()?;
    if !out.status.success() { return None; }
    let text = String::from_utf8_lossy(&out.stdout);
    let mut rows = vec![];
    let mut files: std::collections::HashMap<u64, String> = Default::default();
    let mut cur_file_idx: Option<u64> = None;
    let mut seq = 0usize;
    for l in text.lines() {
        let lt = l.trim_start();
        if lt.starts_with("debug_line[") { files.clear(); cur_file_idx = None; continue; }
        if let Some(r) = lt.strip_prefix("file_names[") {
            cur_file_idx = r.split(']').next().and_then(|s| s.trim().parse().ok());
            continue;
        }
        if let (Some(i), Some(r)) = (cur_file_idx, lt.strip_prefix("name: ")) {
            files.insert(i, r.trim_matches('"').to_string());
            cur_file_idx = None;
            continue;
        }
        if lt.starts_with("0x") {
            let mut it = lt.split_whitespace();
            let addr = u64::from_str_radix(it.next()?.trim_start_matches("0x"), 16).ok()?;
            let line: u64 = it.next()?.parse().ok()?;
            let col: u64 = it.next()?.parse().ok()?;
            let file: u64 = it.next()?.parse().ok()?;
            let _isa = it.next()?; let _disc = it.next()?;
            let flags: Vec<&str> = it.collect();
            let end_sequence = flags.contains(&"end_sequence");
            rows.push(Row { addr, line, col, file: files.get(&file).cloned().unwrap_or_default(),
                is_stmt: flags.contains(&"is_stmt"), prologue_end: flags.contains(&"prologue_end"),
                epilogue_begin: flags.contains(&"epilogue_begin"), end_sequence, seq });
            if end_sequence { seq += 1; }
        }
    }
    Some(rows)
}

/// the row that covers `pc`: last row of pc's sequence with address <= pc, never an end_sequence row
pub fn row_for_pc(rows: &[Row], pc: u64) -> Option<&Row> {
    let mut best: Option<&Row> = None;
    let mut i = 0;
    while i < rows.len() {
        let s = rows[i].seq;
        let mut j = i;
        while j < rows.len() && rows[j].seq == s { j += 1; }
        let seq_rows = &rows[i..j];
        if let (Some(first), Some(last)) = (seq_rows.first(), seq_rows.last())
            && pc >= first.addr && pc < last.addr {
            for r in seq_rows { if !r.end_sequence && r.addr <= pc { best = Some(r); } }
            return best;
        }
        i = j;
    }
    None
}
