//! `reftrace <program> <out-file>`: independent reference tracer (raw libc ptrace, shares no code with
//! bugstalker).  Runs the program natively under PTRACE_SINGLESTEP with ASLR disabled — the same
//! personality the debugger sets — and records every executed instruction whose pc lies in the
//! executable's own mappings:
//!
//!     <global pc hex> <call depth> <rsp hex> <gap>
//!
//! `gap` = number of instructions executed OUTSIDE the executable (libc, ld.so, vdso) since the previous
//! recorded instruction (0 = the previous recorded instruction was executed immediately before this one).
//!
//! `global pc` = pc - load base (first mapping of the executable).  `call depth` comes from a shadow
//! stack maintained over ALL instructions (also libc / ld.so): a step that moves rsp down by 8 and
//! leaves `[rsp]` = address right after the previous instruction (within 15 bytes) is a call; a step
//! whose new pc equals the word that was at the old rsp, with rsp moving up, is a return (entries are
//! popped down to the matching stack pointer, which also covers longjmp-like stack cuts).
//! Between instruction lines the shadow-stack changes are recorded — also those that happen outside the
//! executable — as `+ <absolute return address hex> <rsp hex>` (call) and `- <n>` (n frames popped), so a
//! reader can reconstruct the exact chain of return addresses at every recorded instruction.
//! Header lines start with `#`:  `# base <hex>`, `# exit <code>`, `# steps <total> <recorded>`.
//! The program's stdout/stderr go to <out-file>.stdout / .stderr.
use std::ffi::CString;
use std::io::Write;

unsafe fn pt(req: libc::c_uint, pid: libc::pid_t, addr: usize, data: usize) -> libc::c_long {
    unsafe { libc::ptrace(req, pid, addr, data) }
}

fn exe_ranges(pid: libc::pid_t, exe: &str) -> (u64, Vec<(u64, u64)>) {
    let maps = std::fs::read_to_string(format!("/proc/{pid}/maps")).unwrap_or_default();
    let mut base = u64::MAX;
    let mut r = vec![];
    for l in maps.lines() {
        if !l.ends_with(exe) { continue; }
        let mut it = l.split_whitespace();
        let range = it.next().unwrap();
        let perms = it.next().unwrap();
        let (a, b) = range.split_once('-').unwrap();
        let (a, b) = (u64::from_str_radix(a, 16).unwrap(), u64::from_str_radix(b, 16).unwrap());
        base = base.min(a);
        if perms.contains('x') { r.push((a, b)); }
    }
    (base, r)
}

fn main() {
    let args: Vec<String> = std::env::args().collect();
    let prog = std::fs::canonicalize(&args[1]).unwrap();
    let prog_s = prog.to_str().unwrap().to_string();
    let out_path = &args[2];
    let pid = unsafe { libc::fork() };
    if pid == 0 {
        unsafe {
            let so = CString::new(format!("{out_path}.stdout")).unwrap();
            let se = CString::new(format!("{out_path}.stderr")).unwrap();
            let fo = libc::open(so.as_ptr(), libc::O_WRONLY | libc::O_CREAT | libc::O_TRUNC, 0o644);
            let fe = libc::open(se.as_ptr(), libc::O_WRONLY | libc::O_CREAT | libc::O_TRUNC, 0o644);
            libc::dup2(fo, 1);
            libc::dup2(fe, 2);
            libc::personality(libc::ADDR_NO_RANDOMIZE as libc::c_ulong);
            libc::ptrace(libc::PTRACE_TRACEME, 0, 0, 0);
            let c = CString::new(prog_s.clone()).unwrap();
            let argv = [c.as_ptr(), std::ptr::null()];
            libc::execv(c.as_ptr(), argv.as_ptr());
            libc::_exit(127);
        }
    }
    let mut status = 0;
    unsafe { libc::waitpid(pid, &mut status, 0) }; // exec stop
    let (base, ranges) = exe_ranges(pid, &prog_s);
    let mut out = std::io::BufWriter::new(std::fs::File::create(out_path).unwrap());
    writeln!(out, "# base {base:x}").unwrap();
    let in_exe = |pc: u64| ranges.iter().any(|(a, b)| pc >= *a && pc < *b);
    let mut shadow: Vec<(u64, u64)> = vec![]; // (return address, rsp after the call)
    let mut regs: libc::user_regs_struct = unsafe { std::mem::zeroed() };
    unsafe { pt(libc::PTRACE_GETREGS, pid, 0, &mut regs as *mut _ as usize) };
    let (mut total, mut recorded) = (0u64, 0u64);
    let mut gap = 0u64;
    let exit_code;
    loop {
        let pc = regs.rip;
        let rsp = regs.rsp;
        if in_exe(pc) {
            writeln!(out, "{:x} {} {:x} {}", pc - base, shadow.len(), rsp, gap).unwrap();
            recorded += 1;
            gap = 0;
        } else { gap += 1; }
        let tos_before = unsafe { *libc::__errno_location() = 0; pt(libc::PTRACE_PEEKDATA, pid, rsp as usize, 0) as u64 };
        unsafe { pt(libc::PTRACE_SINGLESTEP, pid, 0, 0) };
        unsafe { libc::waitpid(pid, &mut status, 0) };
        total += 1;
        if libc::WIFEXITED(status) { exit_code = libc::WEXITSTATUS(status); break; }
        if libc::WIFSIGNALED(status) { exit_code = 128 + libc::WTERMSIG(status); break; }
        if libc::WIFSTOPPED(status) && libc::WSTOPSIG(status) != libc::SIGTRAP {
            // deliver the signal (deterministic debuggees do not raise any; kept for completeness)
            let sig = libc::WSTOPSIG(status);
            unsafe { pt(libc::PTRACE_SINGLESTEP, pid, 0, sig as usize) };
            unsafe { libc::waitpid(pid, &mut status, 0) };
            if libc::WIFEXITED(status) { exit_code = libc::WEXITSTATUS(status); break; }
            if libc::WIFSIGNALED(status) { exit_code = 128 + libc::WTERMSIG(status); break; }
        }
        unsafe { pt(libc::PTRACE_GETREGS, pid, 0, &mut regs as *mut _ as usize) };
        let (npc, nrsp) = (regs.rip, regs.rsp);
        if nrsp == rsp.wrapping_sub(8) {
            let tos = unsafe { pt(libc::PTRACE_PEEKDATA, pid, nrsp as usize, 0) as u64 };
            if tos > pc && tos <= pc + 15 && npc != tos {
                shadow.push((tos, nrsp));
                writeln!(out, "+ {tos:x} {nrsp:x}").unwrap();
            }
        } else if nrsp > rsp && npc == tos_before {
            // return (ret / ret imm16): pop down to the frame whose call left rsp at the old rsp
            let before = shadow.len();
            while let Some(&(_, r)) = shadow.last() {
                if r < nrsp { shadow.pop(); } else { break; }
            }
            if before != shadow.len() { writeln!(out, "- {}", before - shadow.len()).unwrap(); }
        } else if nrsp > rsp {
            // stack cut without a return (longjmp, unwinding): drop frames below the new rsp
            let before = shadow.len();
            while let Some(&(_, r)) = shadow.last() {
                if r < nrsp { shadow.pop(); } else { break; }
            }
            if before != shadow.len() { writeln!(out, "- {}", before - shadow.len()).unwrap(); }
        }
    }
    writeln!(out, "# exit {exit_code}").unwrap();
    writeln!(out, "# steps {total} {recorded}").unwrap();
}
