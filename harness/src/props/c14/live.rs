//! C14 live leg: histories on a real debuggee (progs-src/c14w.rs).  One forked worker per session hosts the
//! `Debugger`; after every command the worker itself reads u_debugreg[0..7] of every thread with PTRACE_PEEKUSER
//! and reports them (addresses mapped to the abstract candidate addresses through the addresses the debuggee
//! prints about itself), together with `watchpoint_list()` and the companion breakpoints.
//!
//! Thread creation comes in three request forms: `clone` (the notifications arrive in the order the kernel picks),
//! `clone cf` (same, the usual clone-event-first order is expected and counted) and `clone sf` (the harness's
//! `waitpid` interposer holds the parent's PTRACE_EVENT_CLONE back until the child's own first stop has been handed
//! to the tracer: the rare, kernel-permitted order in which the PTRACE_EVENT_STOP arm has to equip the new thread).
//! `restart` restarts the running debuggee; `exitrerun` (debuggee c14x, which exits inside the scope of its locals)
//! lets it exit with local watchpoints still set and runs it again.
//!
//! Abstract program shipped in the request lines: candidate k lives at abstract address 4096*k
//! (1..6 = globals G1..G6 of 8,4,2,1,8,8 bytes; 11..15 = locals l1..l5 of `scoped`, 8 bytes each, whose common
//! end-of-scope companion has the abstract address SCOPE_END).
use crate::live::ipose;
use crate::util::*;
use bugstalker::debugger::address::RelocatedAddress;
use bugstalker::debugger::process::Child;
use bugstalker::debugger::register::debug::{BreakCondition, BreakSize};
use bugstalker::debugger::variable::dqe::{Dqe, Selector};
use bugstalker::debugger::variable::value::Value;
use bugstalker::debugger::{Debugger, DebuggerBuilder, EventHook, FunctionInfo, PlaceDescriptor, StopReason, rust};
use nix::sys::signal::Signal;
use nix::unistd::Pid;
use serde_json::json;
use std::cell::RefCell;
use std::collections::HashMap;
use std::io::{BufRead, BufReader};
use std::path::PathBuf;
use std::rc::Rc;
use std::sync::{Arc, Mutex};

pub const SCOPE_END: u64 = 900000;
const GLOBALS: &[(u64, &str, u64)] = &[(1, "G1", 8), (2, "G2", 4), (3, "G3", 2), (4, "G4", 1), (5, "G5", 8), (6, "G6", 8)];
const LOCALS: &[(u64, &str, u64)] = &[(11, "l1", 8), (12, "l2", 8), (13, "l3", 8), (14, "l4", 8), (15, "l5", 8)];
/// values written by the final phase of the program, in program order: (candidate, old, new)
const WRITES: &[(u64, u64, u64)] = &[(1, 1, 101), (2, 2, 102), (3, 3, 103), (4, 4, 104), (5, 5, 105), (6, 6, 106)];

/// Candidates used by the seeded generator: those whose address is 8-aligned.  Re-using a freed slot for an
/// address that is not aligned to the *previous* owner's length makes the kernel reject the DR_i write
/// (finding `unaligned-slot-reuse`, see corpus/C14/*.witness); the model does not cover that kernel rule.
const GEN_GLOBALS: &[(u64, &str, u64)] = &[(1, "G1", 8), (2, "G2", 4), (5, "G5", 8), (6, "G6", 8)];
/// c14w: the scope of the locals ends normally; c14x: the same program, but it exits inside that scope
const PROGS: &[&str] = &["c14w", "c14x"];

pub fn is_live_op(t: &[&str]) -> bool {
    matches!(t.first().copied(), Some("wmem" | "wexpr" | "rmnum" | "rmaddr" | "rmexpr" | "clone" | "texit" | "hit" | "scopeend" | "restart" | "exitrerun" | "go" | "wphase"))
}

fn root() -> PathBuf { PathBuf::from(concat!(env!("CARGO_MANIFEST_DIR"), "/..")) }

/// compile the debuggee on demand (parent process, before any worker exists)
fn ensure_prog(name: &str) -> Result<PathBuf, String> {
    if !PROGS.contains(&name) { return Err(format!("unknown debuggee {name}")); }
    let src = root().join(format!("progs-src/{name}.rs"));
    let bin = root().join(format!("progs/{name}"));
    let fresh = match (std::fs::metadata(&src), std::fs::metadata(&bin)) {
        (Ok(s), Ok(b)) => b.modified().unwrap() >= s.modified().unwrap(),
        _ => false,
    };
    if !fresh {
        std::fs::create_dir_all(root().join("progs")).map_err(|e| e.to_string())?;
        let o = std::process::Command::new("rustc").arg("-g").arg(&src).arg("-o").arg(&bin).output().map_err(|e| e.to_string())?;
        if !o.status.success() { return Err(String::from_utf8_lossy(&o.stderr).to_string()); }
    }
    Ok(bin)
}

// ------------------------------------------------------------------ generation
fn cond(rng: &mut Rng) -> &'static str { if rng.chance(2, 3) { "w" } else { "rw" } }

fn gen_ops(rng: &mut Rng, req: &mut Vec<String>, out: &mut Out, in_scope: bool, n: u64) {
    for _ in 0..n {
        match rng.below(12) {
            0..=2 => {
                let (k, _, sz) = *rng.pick(GEN_GLOBALS);
                let sizes: Vec<u64> = [1, 2, 4, 8].into_iter().filter(|s| *s <= sz).collect();
                req.push(format!("C14 wmem {} {} {}", 4096 * k, rng.pick(&sizes), cond(rng)));
                out.count("live.wmem", 1);
            }
            3..=4 => {
                let (k, _, sz) = *rng.pick(GEN_GLOBALS);
                req.push(format!("C14 wexpr {k} {} {sz} {} -", 4096 * k, cond(rng)));
                out.count("live.wexpr_global", 1);
            }
            5..=7 if in_scope => {
                let (k, _, sz) = *rng.pick(LOCALS);
                req.push(format!("C14 wexpr {k} {} {sz} {} {SCOPE_END}", 4096 * k, cond(rng)));
                out.count("live.wexpr_local", 1);
            }
            8 => { req.push(format!("C14 rmnum {}", rng.below(5))); out.count("live.rmnum", 1); }
            9 => { let k = if in_scope && rng.chance(1, 2) { rng.pick(LOCALS).0 } else { rng.pick(GEN_GLOBALS).0 }; req.push(format!("C14 rmaddr {}", 4096 * k)); out.count("live.rmaddr", 1); }
            10 => { let k = if in_scope && rng.chance(1, 2) { rng.pick(LOCALS).0 } else { rng.pick(GEN_GLOBALS).0 }; req.push(format!("C14 rmexpr {k}")); out.count("live.rmexpr", 1); }
            _ => {
                let (k, _, sz) = *rng.pick(GEN_GLOBALS);
                req.push(format!("C14 wexpr {k} {} {sz} {} -", 4096 * k, cond(rng)));
                out.count("live.wexpr_global", 1);
            }
        }
    }
}

/// Independent probe (raw ptrace on a forked child, no debugger code): does this machine deliver hardware data
/// breakpoints set through PTRACE_POKEUSER?  (Some virtual machines accept the register writes and never trap.)
pub fn hw_delivers() -> bool {
    static mut G: u64 = 1;
    unsafe {
        let c = libc::fork();
        if c == 0 {
            libc::ptrace(libc::PTRACE_TRACEME, 0, 0, 0);
            libc::raise(libc::SIGSTOP);
            std::ptr::write_volatile(&raw mut G, 5);
            libc::_exit(0);
        }
        let mut st = 0;
        libc::waitpid(c, &mut st, 0);
        let off = std::mem::offset_of!(libc::user, u_debugreg);
        libc::ptrace(libc::PTRACE_POKEUSER, c, off, &raw mut G as u64);
        libc::ptrace(libc::PTRACE_POKEUSER, c, off + 56, (0x1u64 | (0x1 << 16) | (0x2 << 18) | 0x100) as u64);
        libc::ptrace(libc::PTRACE_CONT, c, 0, 0);
        libc::waitpid(c, &mut st, 0);
        let trapped = libc::WIFSTOPPED(st) && libc::WSTOPSIG(st) == libc::SIGTRAP;
        if !libc::WIFEXITED(st) { libc::kill(c, libc::SIGKILL); libc::waitpid(c, &mut st, 0); }
        trapped
    }
}

/// Independent probe of the kernel assumption of the model (`kernelNewThread`; raw ptrace on a forked child, no
/// debugger code): a thread created while its parent has a data breakpoint set shows, through PTRACE_PEEKUSER,
/// DR0 = 0 and DR7 = the parent's DR7.  Returns (parent DR0, parent DR7, new thread's DR0, new thread's DR7).
pub fn kernel_new_thread_probe() -> Option<(u64, u64, u64, u64)> {
    static mut G: u64 = 1;
    unsafe {
        let c = libc::fork();
        if c == 0 {
            libc::ptrace(libc::PTRACE_TRACEME, 0, 0, 0);
            libc::raise(libc::SIGSTOP);
            if std::thread::Builder::new().spawn(|| loop { std::thread::park(); }).is_err() { libc::_exit(3); }
            loop { libc::pause(); }
        }
        let mut st = 0;
        let off = std::mem::offset_of!(libc::user, u_debugreg);
        let mut res = None;
        let mut tid: libc::pid_t = 0;
        if libc::waitpid(c, &mut st, 0) == c && libc::WIFSTOPPED(st) {
            libc::ptrace(libc::PTRACE_SETOPTIONS, c, 0, (libc::PTRACE_O_TRACECLONE | libc::PTRACE_O_EXITKILL) as u64);
            libc::ptrace(libc::PTRACE_POKEUSER, c, off, &raw mut G as u64);
            libc::ptrace(libc::PTRACE_POKEUSER, c, off + 56, (0x1u64 | (0x1 << 16) | (0x2 << 18) | 0x100) as u64);
            libc::ptrace(libc::PTRACE_CONT, c, 0, 0);
            for _ in 0..16 {
                if libc::waitpid(c, &mut st, libc::__WALL) != c || !libc::WIFSTOPPED(st) { break; }
                if (st >> 8) == (libc::SIGTRAP | (libc::PTRACE_EVENT_CLONE << 8)) {
                    let mut t: libc::c_ulong = 0;
                    libc::ptrace(libc::PTRACE_GETEVENTMSG, c, 0, &mut t as *mut libc::c_ulong);
                    let t = t as libc::pid_t;
                    tid = t;
                    let mut st2 = 0;
                    if t > 0 && libc::waitpid(t, &mut st2, libc::__WALL) == t && libc::WIFSTOPPED(st2) {
                        let peek = |p: libc::pid_t, i: usize| { *libc::__errno_location() = 0; libc::ptrace(libc::PTRACE_PEEKUSER, p, off + 8 * i, 0) as u64 };
                        res = Some((peek(c, 0), peek(c, 7), peek(t, 0), peek(t, 7)));
                    }
                    break;
                }
                // some other stop of the parent (a signal): pass it on
                libc::ptrace(libc::PTRACE_CONT, c, 0, libc::WSTOPSIG(st) as u64);
            }
        }
        libc::kill(c, libc::SIGKILL);
        // the traced thread has to be reaped before its thread-group leader can be
        if tid > 0 { libc::waitpid(tid, &mut st, libc::__WALL); }
        libc::waitpid(c, &mut st, libc::__WALL);
        res
    }
}

/// a thread creation; half of them with the child's first stop forced ahead of the parent's clone event
fn gen_clone(rng: &mut Rng, req: &mut Vec<String>, out: &mut Out) {
    match rng.below(4) {
        0..=1 => { req.push("C14 clone sf".into()); out.count("live.clone.sf", 1); }
        2 => { req.push("C14 clone cf".into()); out.count("live.clone.cf", 1); }
        _ => { req.push("C14 clone".into()); out.count("live.clone.any", 1); }
    }
}

pub fn gen_session(rng: &mut Rng, out: &mut Out, hw: bool) -> Vec<String> {
    let mut req = vec!["C14 new live c14w".to_string()];
    let heavy = rng.chance(1, 3); // sessions that fill all four slots early
    let k = |rng: &mut Rng| if heavy { rng.range(3, 6) } else { rng.range(0, 3) };
    let n = k(rng); gen_ops(rng, &mut req, out, false, n);          // stage 0: globals only
    req.push("C14 go".into());
    let n = k(rng) + 1; gen_ops(rng, &mut req, out, true, n);       // stage 1: locals in scope
    gen_clone(rng, &mut req, out);
    let n = k(rng); gen_ops(rng, &mut req, out, true, n);
    gen_clone(rng, &mut req, out);
    let n = k(rng); gen_ops(rng, &mut req, out, true, n);
    req.push(format!("C14 scopeend {SCOPE_END}"));
    let n = k(rng); gen_ops(rng, &mut req, out, false, n);          // stage 4
    gen_clone(rng, &mut req, out);
    let n = rng.range(0, 2); gen_ops(rng, &mut req, out, false, n);
    match rng.below(6) {
        0..=1 => {}
        2..=4 => if hw {
            req.push(format!("C14 wphase {}", enc_list(WRITES, |w| (4096 * w.0).to_string())));
            out.count("live.wphase", 1);
        },
        _ => {
            req.push("C14 restart".into());
            out.count("live.restart", 1);
            let n = rng.range(0, 3); gen_ops(rng, &mut req, out, false, n);
            req.push("C14 go".into());
            let n = rng.range(0, 2); gen_ops(rng, &mut req, out, true, n);
            gen_clone(rng, &mut req, out);
        }
    }
    out.count("live.sessions", 1);
    req
}

/// Restart sessions: watchpoints on locals are still set when the debuggee is restarted (c14w, c14x) or exits and is
/// run again (c14x) — at least two of them adjacent in creation order, before / between / after watchpoints on
/// globals; some are removed again first, a thread may be created on the way; the new process is then taken through
/// the same stages once more (and sometimes restarted a second time).
pub fn gen_restart_session(rng: &mut Rng, out: &mut Out) -> Vec<String> {
    let exit = rng.chance(1, 2);
    let prog = if exit || rng.chance(1, 3) { "c14x" } else { "c14w" };
    let mut req = vec![format!("C14 new live {prog}")];
    let mut round = 0;
    // globals not watched yet (those watched survive the restarts and keep their slots)
    let mut globals: Vec<(u64, &str, u64)> = GEN_GLOBALS.to_vec();
    loop {
        // stage 0: perhaps a global first
        let mut locals: Vec<(u64, &str, u64)> = LOCALS.to_vec();
        let take = |rng: &mut Rng, v: &mut Vec<(u64, &'static str, u64)>| { let i = rng.below(v.len() as u64) as usize; v.remove(i) };
        let mut pattern = String::new();
        let mut free = 4 - (GEN_GLOBALS.len() - globals.len()) as u64; // surviving globals keep their slots
        if free < 2 { break; }
        if round == 0 && rng.chance(1, 2) {
            let (k, _, sz) = take(rng, &mut globals);
            if rng.chance(1, 2) { req.push(format!("C14 wmem {} {sz} {}", 4096 * k, cond(rng))); } else { req.push(format!("C14 wexpr {k} {} {sz} {} -", 4096 * k, cond(rng))); }
            pattern.push('G'); free -= 1;
        }
        req.push("C14 go".into());
        // stage 1: a run of 2..=3 adjacent locals somewhere in a sequence of adds
        let run = rng.range(2, 3).min(free);
        let before = rng.below(2).min(free - run).min(globals.len() as u64);
        let after = rng.below(3).min(free - run - before).min(globals.len() as u64 - before);
        let add_global = |rng: &mut Rng, req: &mut Vec<String>, globals: &mut Vec<(u64, &'static str, u64)>| {
            let i = rng.below(globals.len() as u64) as usize; let (k, _, sz) = globals.remove(i);
            if rng.chance(1, 2) { req.push(format!("C14 wmem {} {sz} {}", 4096 * k, cond(rng))); } else { req.push(format!("C14 wexpr {k} {} {sz} {} -", 4096 * k, cond(rng))); }
        };
        for _ in 0..before { add_global(rng, &mut req, &mut globals); pattern.push('G'); }
        for _ in 0..run { let (k, _, sz) = take(rng, &mut locals); req.push(format!("C14 wexpr {k} {} {sz} {} {SCOPE_END}", 4096 * k, cond(rng))); pattern.push('L'); }
        for _ in 0..after {
            if rng.chance(1, 3) && !locals.is_empty() { let (k, _, sz) = take(rng, &mut locals); req.push(format!("C14 wexpr {k} {} {sz} {} {SCOPE_END}", 4096 * k, cond(rng))); pattern.push('L'); }
            else { add_global(rng, &mut req, &mut globals); pattern.push('G'); }
        }
        out.count(&format!("live.restart.pattern.{pattern}"), 1);
        // sometimes one watchpoint goes again (by list position), or a request is refused (fifth / duplicate)
        match rng.below(5) {
            0 => { req.push(format!("C14 rmnum {}", rng.below(pattern.len() as u64))); out.count("live.restart.rm_before", 1); }
            1 => gen_ops(rng, &mut req, out, true, 1),
            _ => {}
        }
        if rng.chance(1, 2) { gen_clone(rng, &mut req, out); }
        if exit && (round == 0 || rng.chance(1, 2)) { req.push("C14 exitrerun".into()); out.count("live.exitrerun", 1); }
        else { req.push("C14 restart".into()); out.count("live.restart", 1); }
        round += 1;
        if round == 2 || rng.chance(2, 3) { break; }
    }
    // the new process: one more watchpoint, into the scope, a local, a thread
    if rng.chance(1, 2) { gen_ops(rng, &mut req, out, false, 1); }
    req.push("C14 go".into());
    let n = rng.range(1, 2); gen_ops(rng, &mut req, out, true, n);
    gen_clone(rng, &mut req, out);
    out.count("live.sessions.restart", 1);
    req
}

pub fn gen_requests(rng: &mut Rng, a: &Args, out: &mut Out) -> Vec<String> {
    let mut sessions = 12u64;
    let mut i = 0;
    while i < a.rest.len() { if a.rest[i] == "--live-sessions" { sessions = a.rest[i + 1].parse().unwrap(); } i += 1; }
    let mut req = vec![];
    // the defect witness first (four watchpoints, a fifth on a scoped local, then leaving the scope)
    req.extend(witness());
    let hw = hw_delivers();
    out.count(if hw { "live.hw_data_breakpoints_delivered" } else { "live.hw_data_breakpoints_NOT_delivered_on_this_machine" }, 1);
    match kernel_new_thread_probe() {
        Some((p0, p7, t0, t7)) => {
            out.count(if t0 == 0 && t7 == p7 && p0 != 0 { "live.kernel_new_thread.dr0_cleared_dr7_as_parent(as_modelled)" } else { "live.kernel_new_thread.DIFFERS_FROM_THE_MODEL_ASSUMPTION" }, 1);
            out.sample(json!({"kernel_new_thread_probe": {"parent_dr0": format!("{p0:#x}"), "parent_dr7": format!("{p7:#x}"), "new_thread_dr0": format!("{t0:#x}"), "new_thread_dr7": format!("{t7:#x}")}}));
        }
        None => out.count("live.kernel_new_thread.probe_failed", 1),
    }
    // two fifths of the sessions are restart sessions
    for i in 0..sessions {
        if i % 5 == 1 || i % 5 == 3 { req.extend(gen_restart_session(rng, out)); } else { req.extend(gen_session(rng, out, hw)); }
    }
    req
}

pub fn witness() -> Vec<String> {
    let mut r = vec!["C14 new live c14w".to_string(), "C14 go".into()];
    for k in 1..=4 { r.push(format!("C14 wmem {} 1 w", 4096 * k)); }
    r.push(format!("C14 wexpr 11 {} 8 w {SCOPE_END}", 4096 * 11));
    r.push("C14 clone".into());
    r.push("C14 clone sf".into());
    r.push(format!("C14 scopeend {SCOPE_END}"));
    r
}

// ------------------------------------------------------------------ worker
#[derive(Default)]
struct Events { wp: Vec<(u32, bool, Option<String>, Option<String>)> }
struct Hook { ev: Rc<RefCell<Events>> }
fn scalar(v: Option<&Value>) -> Option<String> {
    match v { Some(Value::Scalar(s)) => s.value.as_ref().map(|x| x.to_string()), Some(_) => Some("?".into()), None => None }
}
impl EventHook for Hook {
    fn on_breakpoint(&self, _: RelocatedAddress, _: u32, _: Option<PlaceDescriptor>, _: Option<&FunctionInfo>, _: Option<u32>) -> anyhow::Result<()> { Ok(()) }
    fn on_watchpoint(&self, _: RelocatedAddress, num: u32, _: Option<PlaceDescriptor>, _: BreakCondition, _: Option<&str>, old: Option<&Value>, new: Option<&Value>, eos: bool) -> anyhow::Result<()> {
        self.ev.borrow_mut().wp.push((num, eos, scalar(old), scalar(new)));
        Ok(())
    }
    fn on_step(&self, _: RelocatedAddress, _: Option<PlaceDescriptor>, _: Option<&FunctionInfo>, _: Option<u32>) -> anyhow::Result<()> { Ok(()) }
    fn on_async_step(&self, _: RelocatedAddress, _: Option<PlaceDescriptor>, _: Option<&FunctionInfo>, _: u64, _: bool) -> anyhow::Result<()> { Ok(()) }
    fn on_signal(&self, _: Signal) {}
    fn on_exit(&self, _: i32) {}
    fn on_process_install(&self, _: Pid, _: Option<&object::File>) {}
}

struct Worker<'a> {
    dbg: Debugger,
    ev: Rc<RefCell<Events>>,
    addrs: Arc<Mutex<HashMap<String, u64>>>,
    tx: &'a mut dyn FnMut(String),
    history: Vec<String>,
}

fn peek_dr(tid: i32, i: usize) -> Option<u64> {
    let off = std::mem::offset_of!(libc::user, u_debugreg) + 8 * i;
    nix::sys::ptrace::read_user(Pid::from_raw(tid), off as nix::sys::ptrace::AddressType).ok().map(|v| v as u64)
}

impl Worker<'_> {
    fn fail(&mut self, key: &str, what: String) {
        let j = json!({"key": key, "what": what, "replay": {"history": self.history}});
        (self.tx)(format!("F {j}"));
    }
    fn eval(&mut self) { (self.tx)("E 1".into()); }
    fn count(&mut self, k: &str) { (self.tx)(format!("C {k}")); }

    fn real_of(&self, abs: u64) -> Option<u64> {
        let k = abs / 4096;
        let name = GLOBALS.iter().chain(LOCALS).find(|c| c.0 == k).map(|c| c.1)?;
        self.addrs.lock().unwrap().get(name).copied().map(|a| a + abs % 4096)
    }
    fn abs_of(&self, real: u64) -> String {
        if real == 0 { return "0".into(); }
        let m = self.addrs.lock().unwrap();
        for c in GLOBALS.iter().chain(LOCALS) { if m.get(c.1) == Some(&real) { return (4096 * c.0).to_string(); } }
        format!("?{real:x}")
    }
    /// wait until the debuggee has reported the address of `name` (its stdout is read by another thread)
    fn wait_addr(&self, name: &str) {
        // (the line is in the pipe before the debuggee reaches the sync point; the reader thread may be starved on a loaded machine)
        for _ in 0..20000 { if self.addrs.lock().unwrap().contains_key(name) { return; } std::thread::sleep(std::time::Duration::from_millis(1)); }
    }

    /// register files of all threads as read by the harness + API view + companions; runs the oracle
    fn dump(&mut self, res: &str) -> String {
        let pid = self.dbg.process().pid().as_raw();
        let mut tids: Vec<i32> = std::fs::read_dir(format!("/proc/{pid}/task")).map(|d| d.filter_map(|e| e.ok()?.file_name().to_str()?.parse().ok()).collect()).unwrap_or_default();
        tids.sort();
        let mut main = String::new();
        let mut others = vec![];
        let mut images = vec![];
        for t in &tids {
            let regs: Vec<Option<u64>> = (0..8).map(|i| if i == 4 || i == 5 { Some(0) } else { peek_dr(*t, i) }).collect();
            if regs.iter().any(|r| r.is_none()) { others.push(format!("unreadable")); continue; }
            let r: Vec<u64> = regs.into_iter().map(|x| x.unwrap()).collect();
            let s = format!("{},{},{},{},{}", self.abs_of(r[0]), self.abs_of(r[1]), self.abs_of(r[2]), self.abs_of(r[3]), r[7]);
            if *t == pid { main = s } else { others.push(s) }
            images.push((*t, r));
        }
        others.sort();
        let wl: Vec<(u32, u64, String, Option<String>, u64)> = self.dbg.watchpoint_list().iter().map(|w| {
            (w.number, w.address.as_usize() as u64, w.condition.to_string(), w.source_dqe.as_ref().map(|s| s.to_string()),
             match w.size { BreakSize::Bytes1 => 1, BreakSize::Bytes2 => 2, BreakSize::Bytes4 => 4, BreakSize::Bytes8 => 8 })
        }).collect();
        // ---- O: every thread's DR7, decoded from the Intel layout, must describe exactly the API's watchpoint list
        let mut want: Vec<(u64, u64, u64)> = wl.iter().map(|w| (w.1, super::intel_len_of(w.4), super::intel_rw_of(&w.2))).collect();
        want.sort();
        for (t, r) in &images {
            self.eval();
            let mut got: Vec<(u64, u64, u64)> = (0..4u64).filter(|i| super::intel_l(r[7], *i)).map(|i| (r[i as usize], super::intel_len(r[7], i), super::intel_rw(r[7], i))).collect();
            got.sort();
            let g_bits = (0..4u64).any(|i| super::intel_g(r[7], i));
            if got != want || g_bits || want.len() > 4 {
                self.fail("thread-registers-differ-from-watchpoint-list", format!("thread {} (main {}): DR0-3 {:x?} DR7 {:#x} decode to {got:x?}, watchpoint_list() is {want:x?} (addr, LEN, RW), global bits {g_bits}", t, *t == pid, &r[0..4], r[7]));
                break;
            }
        }
        let main_img = images.iter().find(|(t, _)| *t == pid).map(|x| x.1.clone());
        let wps: Vec<String> = wl.iter().map(|w| {
            let slot = main_img.as_ref().and_then(|r| (0..4u64).find(|i| super::intel_l(r[7], *i) && r[*i as usize] == w.1));
            let scoped = w.3.as_ref().map(|n| LOCALS.iter().any(|c| c.1 == n)).unwrap_or(false);
            format!("{}:{}:{}:{}:{}", self.abs_of(w.1), w.4, w.2, slot.map(|s| s.to_string()).unwrap_or("none".into()), if scoped { "s" } else { "g" })
        }).collect();
        let comps: Vec<String> = self.dbg.verif_watchpoint_companions().iter().map(|c| format!("{SCOPE_END}:{}", c.1.len())).collect();
        let mut ths = vec![main]; ths.extend(others);
        format!("{res} | {} | {} | {}", ths.join(";"), enc_list(&wps, |s| s.clone()), enc_list(&comps, |s| s.clone()))
    }

    fn snapshot_state(&mut self) -> String { let d = self.dump("x"); d }

    fn add_result(&mut self, before: &str, r: Result<u64, bugstalker::debugger::Error>, scoped: bool) -> String {
        use bugstalker::debugger::Error as E;
        match r {
            Ok(addr) => {
                // slot from the registers the harness reads
                let pid = self.dbg.process().pid().as_raw();
                let d7 = peek_dr(pid, 7).unwrap_or(0);
                let slot = (0..4u64).find(|i| super::intel_l(d7, *i) && peek_dr(pid, *i as usize) == Some(addr));
                let res = format!("added {}", slot.map(|s| s.to_string()).unwrap_or("none".into()));
                self.dump(&res)
            }
            Err(e) => {
                let class = match e { E::AddressAlreadyObserved => "already-observed", E::WatchpointLimitReached => "limit-reached", E::WatchpointWrongSize => "wrong-size", _ => "other-error" };
                if class == "other-error" { self.count(&format!("live.error.{}", e.to_string().replace(' ', "-"))); }
                let res = if class == "other-error" { "error".to_string() } else { format!("refused {class}") };
                let d = self.dump(&res);
                // ---- O: a refused request must leave registers, watchpoint list and breakpoints as they were
                self.eval();
                let after = d.splitn(2, " | ").nth(1).unwrap_or("").to_string();
                let b = before.splitn(2, " | ").nth(1).unwrap_or("").to_string();
                if after != b {
                    let key = if scoped && class == "limit-reached" { "refused-scoped-watchpoint-leaves-companion-breakpoint" } else { "refused-watchpoint-has-side-effect" };
                    self.fail(key, format!("request refused ({class}) but the state changed: before [{b}] after [{after}]"));
                }
                d
            }
        }
    }

    /// continue until a user breakpoint (sync point) is reached; watchpoint stops on the way are returned
    fn cont(&mut self) -> Result<Vec<String>, String> {
        let mut stops = vec![];
        for _ in 0..32 {
            let r = std::panic::catch_unwind(std::panic::AssertUnwindSafe(|| self.dbg.continue_debugee_with_reason()));
            match r {
                Err(_) => return Err("panic".into()),
                Ok(Err(e)) => return Err(format!("error {e}")),
                Ok(Ok(StopReason::Breakpoint(_, _))) => return Ok(stops),
                Ok(Ok(StopReason::Watchpoint(_, _, ty))) => stops.push(format!("{ty:?}")),
                Ok(Ok(StopReason::DebugeeExit(c))) => { stops.push(format!("exit {c}")); return Ok(stops); }
                Ok(Ok(other)) => stops.push(format!("{other:?}").split('(').next().unwrap().to_string()),
            }
        }
        Err("too-many-stops".into())
    }

    fn exec(&mut self, t: &[&str]) -> String {
        let c = |s: &str| if s == "w" { BreakCondition::DataWrites } else { BreakCondition::DataReadsWrites };
        match t {
            ["wmem", abs, sz, cnd] => {
                let (Ok(abs), Ok(sz)) = (abs.parse::<u64>(), sz.parse::<u8>()) else { return "bad-op".into() };
                let (Some(real), Ok(size)) = (self.real_of(abs), BreakSize::try_from(sz)) else { return "bad-op".into() };
                if !matches!(*cnd, "w" | "rw") { return "bad-op".into(); }
                let before = self.snapshot_state();
                let r = self.dbg.set_watchpoint_on_memory(RelocatedAddress::from(real as usize), size, c(cnd), false).map(|v| v.address.as_usize() as u64);
                self.add_result(&before, r, false)
            }
            ["wexpr", k, abs, _bytes, cnd, se] => {
                let (Ok(k), Ok(abs)) = (k.parse::<u64>(), abs.parse::<u64>()) else { return "bad-op".into() };
                let Some(cand) = GLOBALS.iter().chain(LOCALS).find(|x| x.0 == k) else { return "bad-op".into() };
                if !matches!(*cnd, "w" | "rw") { return "bad-op".into(); }
                let before = self.snapshot_state();
                let local = LOCALS.iter().any(|x| x.0 == k);
                let r = self.dbg.set_watchpoint_on_expr(cand.1, Dqe::Variable(Selector::by_name(cand.1, local)), c(cnd)).map(|v| v.address.as_usize() as u64);
                // the abstraction shipped to the model must be the truth about the program
                if let Ok(a) = &r { if Some(*a) != self.real_of(abs) { self.fail("abstraction-mismatch", format!("{} watched at {a:#x}, the debuggee reports {:x?}", cand.1, self.real_of(abs))); } }
                self.add_result(&before, r, *se != "-")
            }
            ["rmnum", k] => {
                let Ok(k) = k.parse::<usize>() else { return "bad-op".into() };
                let num = self.dbg.watchpoint_list().get(k).map(|w| w.number).unwrap_or(0);
                let r = self.dbg.remove_watchpoint_by_number(num).map(|o| o.is_some());
                self.rm_result(r)
            }
            ["rmaddr", abs] => {
                let Ok(abs) = abs.parse::<u64>() else { return "bad-op".into() };
                // an address the debuggee has not reported yet (local out of scope) cannot be observed
                let real = self.real_of(abs).unwrap_or(8);
                let r = self.dbg.remove_watchpoint_by_addr(RelocatedAddress::from(real as usize)).map(|o| o.is_some());
                self.rm_result(r)
            }
            ["rmexpr", k] => {
                let Ok(k) = k.parse::<u64>() else { return "bad-op".into() };
                let Some(cand) = GLOBALS.iter().chain(LOCALS).find(|x| x.0 == k) else { return "bad-op".into() };
                let local = LOCALS.iter().any(|x| x.0 == k);
                let r = self.dbg.remove_watchpoint_by_expr(Dqe::Variable(Selector::by_name(cand.1, local))).map(|o| o.is_some());
                self.rm_result(r)
            }
            ["go"] | ["clone"] | ["clone", "cf"] | ["clone", "sf"] => {
                let n_before = self.nthreads();
                let forced = t.len() == 2 && t[1] == "sf";
                let _ = ipose::clone_order::take_counts();
                if forced { ipose::clone_order::arm_child_first(1); }
                let r = self.cont();
                ipose::clone_order::disarm();
                let (cf, sf_nat, sf_forced) = ipose::clone_order::take_counts();
                if cf > 0 { self.count("live.clone.observed.clone-event-first"); }
                if sf_nat > 0 { self.count("live.clone.observed.child-stop-first-by-itself"); }
                if sf_forced > 0 { self.count("live.clone.observed.child-stop-first-forced"); }
                match r {
                    Ok(stops) if stops.is_empty() => {
                        let want = n_before + if t[0] == "clone" { 1 } else { 0 };
                        if self.nthreads() != want { self.fail("abstraction-mismatch", format!("{} -> {} threads after `{}`", n_before, self.nthreads(), t[0])); }
                        if t[0] == "clone" && cf + sf_nat + sf_forced != 1 { self.fail("abstraction-mismatch", format!("`{}`: {} clone events seen by waitpid(-1)", t.join(" "), cf + sf_nat + sf_forced)); }
                        if forced && sf_nat + sf_forced != 1 { self.fail("abstraction-mismatch", "`clone sf`: the child's first stop could not be delivered ahead of the clone event".into()); }
                        if t[0] == "go" { self.wait_addr("l5"); }
                        self.dump("done")
                    }
                    Ok(stops) => self.dump(&format!("unexpected-stops {}", stops.join("/").replace(' ', ""))),
                    Err(e) => self.dump(&e.replace(' ', "-")),
                }
            }
            ["scopeend", _a] => {
                let had_companion = !self.dbg.verif_watchpoint_companions().is_empty();
                let listed: usize = self.dbg.verif_watchpoint_companions().iter().map(|c| c.1.len()).sum();
                self.ev.borrow_mut().wp.clear();
                match self.cont() {
                    Ok(stops) => {
                        let eos: Vec<&String> = stops.iter().filter(|s| s.starts_with("EndOfScope")).collect();
                        self.eval();
                        if stops.len() != eos.len() || eos.len() != had_companion as usize {
                            self.fail("end-of-scope-stop-missing-or-extra", format!("companions before: {had_companion}, stops while leaving the scope: {stops:?}"));
                        }
                        let n_ev = self.ev.borrow().wp.iter().filter(|e| e.1).count();
                        if had_companion && n_ev != listed { self.fail("end-of-scope-report-count", format!("{listed} scoped watchpoints, {n_ev} end-of-scope reports")); }
                        let res = if had_companion { format!("ended {listed}") } else { "done".to_string() };
                        self.dump(&res)
                    }
                    Err(e) => {
                        if e == "panic" {
                            self.eval();
                            self.fail("continue-after-refused-scoped-watchpoint-panics", "continue over the end-of-scope companion of a refused watchpoint panics (debug_assert_eq! in execute_on_watchpoint_hook)".into());
                            // the debuggee is stopped at the companion: go on to the sync point the history expects
                            let _ = self.cont();
                        }
                        self.dump(&e.replace(' ', "-"))
                    }
                }
            }
            ["wphase", l] => {
                let abs: Vec<u64> = dec_list(l, |x| x.parse().unwrap_or(0));
                self.ev.borrow_mut().wp.clear();
                // what the API says is watched, before the phase: (real address -> (number, cond))
                let watched: Vec<(u64, u32)> = self.dbg.watchpoint_list().iter().map(|w| (w.address.as_usize() as u64, w.number)).collect();
                match self.cont() {
                    Ok(stops) => {
                        let hits: Vec<String> = stops.iter().map(|s| s.strip_prefix("DebugRegister(DR").and_then(|x| x.strip_suffix(")")).unwrap_or("none").to_string()).collect();
                        // ---- O: delivery. every write to a watched location stops once, in program order, old/new reported
                        self.eval();
                        let mut want = vec![];
                        for (k, old, new) in WRITES {
                            if !abs.contains(&(4096 * k)) { continue; }
                            if let Some((_, num)) = watched.iter().find(|w| Some(w.0) == self.real_of(4096 * k)) { want.push((*num, Some(old.to_string()), Some(new.to_string()))); }
                        }
                        let got: Vec<(u32, Option<String>, Option<String>)> = self.ev.borrow().wp.iter().filter(|e| !e.1).map(|e| (e.0, e.2.clone(), e.3.clone())).collect();
                        // watchpoints by raw address narrower than the variable see the low bytes only: compare numbers,
                        // and values when the widths agree (expression subjects and full-width address subjects)
                        let nums = |v: &Vec<(u32, Option<String>, Option<String>)>| v.iter().map(|x| x.0).collect::<Vec<_>>();
                        if nums(&got) != nums(&want) {
                            self.fail("write-not-reported-exactly-once", format!("writes to watched globals should report watchpoints {:?}, reported {:?}", nums(&want), nums(&got)));
                        } else {
                            for (g, w) in got.iter().zip(&want) {
                                if g.2 != w.2 { self.fail("watchpoint-new-value-wrong", format!("watchpoint {}: reported {:?} -> {:?}, program wrote {:?} -> {:?}", g.0, g.1, g.2, w.1, w.2)); break; }
                                if g.1.is_some() && g.1 != w.1 { self.fail("watchpoint-old-value-wrong", format!("watchpoint {}: reported {:?} -> {:?}, program wrote {:?} -> {:?}", g.0, g.1, g.2, w.1, w.2)); break; }
                            }
                        }
                        let d = self.dump("done");
                        format!("hits {} # {d}", enc_list(&hits, |s| s.clone()))
                    }
                    Err(e) => self.dump(&e.replace(' ', "-")),
                }
            }
            ["restart"] => {
                let before = self.listed();
                self.addrs.lock().unwrap().clear();
                let r = std::panic::catch_unwind(std::panic::AssertUnwindSafe(|| self.dbg.restart_debugee()));
                let res = match r { Ok(Ok(_)) => "done", Ok(Err(_)) => "error", Err(_) => "panic" };
                self.wait_addr("G6");
                self.restart_oracle("restart", &before);
                self.dump(res)
            }
            ["exitrerun"] => {
                let before = self.listed();
                // run until the debuggee is gone (it exits inside the scope of its locals; breakpoints on the way are passed)
                let mut exited = false;
                let mut err = None;
                for _ in 0..8 {
                    match self.cont() {
                        Ok(stops) => if stops.last().map(|s| s.starts_with("exit")).unwrap_or(false) { exited = true; break; },
                        Err(e) => { err = Some(e); break; }
                    }
                }
                if !exited {
                    if err.is_none() { self.fail("abstraction-mismatch", "the debuggee did not exit".into()); }
                    return self.dump(&err.unwrap_or("no-exit".into()).replace(' ', "-"));
                }
                // between the two runs: what the debugger lists
                self.restart_oracle("exit", &before);
                let mid: Vec<String> = self.listed().iter().map(|w| format!("{}:{}:{}:{}", w.0, w.1, w.2, if w.3 { "s" } else { "g" })).collect();
                self.addrs.lock().unwrap().clear();
                let r = std::panic::catch_unwind(std::panic::AssertUnwindSafe(|| self.dbg.start_debugee_force()));
                let res = match r { Ok(Ok(_)) => "done", Ok(Err(_)) => "error", Err(_) => "panic" };
                self.wait_addr("G6");
                self.restart_oracle("exit-and-rerun", &before);
                let d = self.dump(res);
                format!("exited {} # {d}", enc_list(&mid, |s| s.clone()))
            }
            _ => "bad-op".into(),
        }
    }
    /// the API's watchpoint list in abstract terms: (abstract address, bytes, condition, on a local?)
    fn listed(&self) -> Vec<(String, u64, String, bool)> {
        self.dbg.watchpoint_list().iter().map(|w| {
            let local = w.source_dqe.as_ref().map(|n| LOCALS.iter().any(|c| c.1 == n.as_ref())).unwrap_or(false);
            (self.abs_of(w.address.as_usize() as u64), match w.size { BreakSize::Bytes1 => 1, BreakSize::Bytes2 => 2, BreakSize::Bytes4 => 4, BreakSize::Bytes8 => 8 }, w.condition.to_string(), local)
        }).collect()
    }
    /// ---- O: across a restart / an exit / an exit followed by a new run, exactly the watchpoints on globals remain
    /// (the harness knows which candidates are locals; the registers of the new process are checked by `dump`)
    fn restart_oracle(&mut self, what: &str, before: &[(String, u64, String, bool)]) {
        self.eval();
        let after = self.listed();
        let want: Vec<&(String, u64, String, bool)> = before.iter().filter(|w| !w.3).collect();
        if let Some(l) = after.iter().find(|w| w.3) {
            self.fail("local-watchpoint-survives-restart", format!("after {what} the watchpoint list still holds a watchpoint on a local ({}): before {before:?}, after {after:?}", l.0));
        } else if after.iter().collect::<Vec<_>>() != want {
            self.fail("global-watchpoints-not-kept-across-restart", format!("after {what} the watchpoint list is {after:?}, the watchpoints on globals before it were {want:?}"));
        }
    }
    fn nthreads(&self) -> usize {
        std::fs::read_dir(format!("/proc/{}/task", self.dbg.process().pid())).map(|d| d.count()).unwrap_or(0)
    }
    fn rm_result(&mut self, r: Result<bool, bugstalker::debugger::Error>) -> String {
        match r {
            Ok(b) => self.dump(if b { "removed some" } else { "removed none" }),
            Err(_) => self.dump("error"),
        }
    }
}

fn stage_lines(prog: &str) -> Vec<u64> {
    let src = std::fs::read_to_string(root().join(format!("progs-src/{prog}.rs"))).unwrap();
    src.lines().enumerate().filter(|(_, l)| l.contains("// STAGE")).map(|(i, _)| i as u64 + 1).collect()
}

fn worker_main(prog: PathBuf, lines: &[String], tx: &mut dyn FnMut(String)) {
    let (reader, writer) = os_pipe::pipe().unwrap();
    let addrs: Arc<Mutex<HashMap<String, u64>>> = Default::default();
    let a2 = addrs.clone();
    std::thread::spawn(move || {
        let mut s = BufReader::new(reader);
        loop {
            let mut l = String::new();
            if s.read_line(&mut l).unwrap_or(0) == 0 { return; }
            let t: Vec<&str> = l.split_whitespace().collect();
            if t.len() == 3 && t[0] == "ADDR" { if let Ok(a) = u64::from_str_radix(t[2].trim_start_matches("0x"), 16) { a2.lock().unwrap().insert(t[1].to_string(), a); } }
        }
    });
    std::panic::set_hook(Box::new(|_| {}));
    ipose::clone_order::track();
    let prog_name = prog.file_name().unwrap().to_str().unwrap().to_string();
    rust::Environment::init(None);
    let runner = Child::new(prog.to_str().unwrap(), Vec::<String>::new(), None::<&std::path::Path>, writer.try_clone().unwrap(), writer);
    let process = runner.install().unwrap();
    let ev: Rc<RefCell<Events>> = Default::default();
    let dbg = DebuggerBuilder::new().with_hooks(Hook { ev: ev.clone() }).build(process).unwrap();
    let mut w = Worker { dbg, ev, addrs, tx, history: vec![] };
    for (i, line) in lines.iter().enumerate() {
        w.history.push(line.clone());
        let t: Vec<&str> = line.split(' ').filter(|x| !x.is_empty()).collect();
        let ans = if i == 0 {
            let mut ok = true;
            for l in stage_lines(&prog_name) { ok &= w.dbg.set_breakpoint_at_line(&format!("{prog_name}.rs"), l).is_ok(); }
            let r = w.dbg.start_debugee();
            w.wait_addr("G6");
            for c in GEN_GLOBALS { if w.real_of(4096 * c.0).map(|a| a % 8 != 0).unwrap_or(true) { w.fail("abstraction-mismatch", format!("{} is not 8-aligned / not reported", c.1)); } }
            if ok && r.is_ok() { "ok".to_string() } else { format!("start-failed") }
        } else if t.first() == Some(&"C14") {
            let r = std::panic::catch_unwind(std::panic::AssertUnwindSafe(|| w.exec(&t[1..])));
            r.unwrap_or_else(|_| "panic".into())
        } else { "bad-op".into() };
        if i > 0 { w.count(&format!("live.ans.{}", ans.split(' ').next().unwrap_or(""))); }
        if std::env::var("C14_TRACE").is_ok() { eprintln!("[{:?}] {line} -> {}", std::time::SystemTime::now().duration_since(std::time::UNIX_EPOCH).unwrap().as_millis() % 100000, &ans[..ans.len().min(40)]); }
        (w.tx)(format!("A {ans}"));
    }
    // leave without running destructors that could block; the debuggee dies with us (PTRACE_O_EXITKILL) or is killed here
    let pid = w.dbg.process().pid();
    let _ = nix::sys::signal::kill(pid, Signal::SIGKILL);
    unsafe { libc::_exit(0) }
}

/// Run the live sessions (request lines of each, the first being `C14 new live <prog>`), one forked worker per
/// session, at most four at a time (`live::run_sessions`: load-aware watchdog, a session that times out is run once
/// more alone).  Returns per session the raw lines of its worker and how it ended.
pub fn run_live_sessions(sessions: &[Vec<String>], tmpdir: &std::path::Path) -> Vec<(Vec<String>, String)> {
    if sessions.is_empty() { return vec![]; }
    // compile the debuggees before any worker exists
    let mut progs: HashMap<String, Result<PathBuf, String>> = HashMap::new();
    for s in sessions {
        let name = s[0].split(' ').nth(3).unwrap_or("c14w").to_string();
        progs.entry(name.clone()).or_insert_with(|| ensure_prog(&name));
    }
    for (n, r) in &progs { if let Err(e) = r { eprintln!("c14: cannot build debuggee {n}: {e}"); } }
    let par = crate::live::par_default().min(4);
    let limit = crate::live::session_timeout().max(60);
    crate::live::run_sessions(sessions, tmpdir, "c14", par, limit, |s, emit| {
        let name = s[0].split(' ').nth(3).unwrap_or("c14w");
        match progs.get(name) {
            Some(Ok(p)) => worker_main(p.clone(), s, emit),
            _ => for _ in s.iter() { emit("A no-debuggee".into()); },
        }
    })
}

/// put the lines a worker produced into the run's output: answers pair up with the request lines, oracle failures,
/// evaluations and counters are booked
pub fn account(lines: &[String], result: (Vec<String>, String), out: &mut Out) {
    let (raw, how) = result;
    let mut answers = vec![];
    for l in &raw {
        if let Some(a) = l.strip_prefix("A ") { answers.push(a.to_string()); }
        else if let Some(f) = l.strip_prefix("F ") { if let Ok(v) = serde_json::from_str::<serde_json::Value>(f) { out.oracle_fail(v["key"].as_str().unwrap_or("?"), v["what"].as_str().unwrap_or("?"), v["replay"].clone()); } }
        else if l.starts_with("E ") { out.oracle_evals += 1; }
        else if let Some(k) = l.strip_prefix("C ") { out.count(k, 1); }
    }
    if how != "ok" && answers.len() < lines.len() { eprintln!("c14: live session ended with {how} after {} of {} commands:\n{}", answers.len(), lines.len(), lines.join("\n")); }
    for (i, l) in lines.iter().enumerate() {
        let a = answers.get(i).cloned().unwrap_or_else(|| format!("worker-died"));
        if i > 0 && out.samples.len() < 5 { out.sample(json!({"request": l, "answer": a})); }
        out.pair(l.clone(), a);
    }
}
