//! live leg (stub)
use crate::util::*;
pub fn is_live_op(t: &[&str]) -> bool { matches!(t.first().copied(), Some("wmem" | "wexpr" | "rmnum" | "rmaddr" | "rmexpr" | "clone" | "texit" | "hit" | "scopeend" | "restart")) }
pub fn gen_requests(_rng: &mut Rng, _a: &Args, _out: &mut Out) -> Vec<String> { vec![] }
pub fn run_session(lines: &[String], out: &mut Out) { for l in lines { out.pair(l.clone(), "ok".into()); } }
