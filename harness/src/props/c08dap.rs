//! C08, DAP leg: no DAP message can crash, hang or corrupt the adapter.
//!
//! The real `DebugSession` runs in-process over a mock transport in a forked worker (one worker per session; the
//! approach of c12.rs). A request line is one complete DAP message in prefix-token notation
//!
//!   C08D new <sid> <current|asfound|repaired>      (`current` = the code as it is)
//!   C08D msg <class> <trans> <t0|t1> <json tokens ...>
//!
//! `<class> <trans> <t?>` are hints REWRITTEN by `exec` from the observed wire (class of the answer, whether a
//! `stopped`/`exited` event followed, whether the completion items carry `start`); the Lean model uses the class only
//! where it says "handed to the debugger". JSON tokens: `n` `t` `f` `i<decimal>` `d<hex of a number literal>`
//! `s<hex utf-8>` `a<k>` `o<k>` (`x<hex>` keys) and the placeholders `pt pf pv pl pm ps pp` (thread id, top frame id,
//! variables reference, a line with code, a mapped address, source path, program path: taken from the wire at run time).
//!
//! * K: per message the outcome class — `ok`, `err:<slug of the message literal>`, `panic:<class>`, `abort`, `killed`,
//!   `dropped`, `ignored`, `hang`, `closed`, joined by `+` when several responses were written.
//! * O: a well-formed request that is not answered, a session thread that panics, a worker that dies or hangs, a session
//!   loop that ends on a malformed message is a failing input (key = kind + command + class).
use crate::util::*;
use bugstalker::dap::transport::DapTransport;
use bugstalker::dap::yadap::session::DebugSession;
use serde_json::{Value, json};
use std::io::Write as _;
use std::path::{Path, PathBuf};
use std::sync::atomic::{AtomicU64, Ordering};
use std::sync::mpsc::{Receiver, channel};
use std::sync::{Arc, Mutex};
use std::time::{Duration, Instant};

// ------------------------------------------------------------------------------------------------
// JSON values with literal numbers

#[derive(Clone, Debug, PartialEq)]
enum JV { Null, Bool(bool), Int(String), Flt(String), Str(String), Arr(Vec<JV>), Obj(Vec<(String, JV)>), Ph(&'static str) }

const PLACEHOLDERS: &[&str] = &["pt", "pf", "pv", "pl", "pm", "ps", "pp"];

fn hex(s: &str) -> String { s.bytes().map(|b| format!("{b:02x}")).collect() }
fn unhex(h: &str) -> Option<String> {
    if h.len() % 2 != 0 || !h.is_ascii() { return None; }
    let b: Option<Vec<u8>> = (0..h.len() / 2).map(|i| u8::from_str_radix(&h[2 * i..2 * i + 2], 16).ok()).collect();
    String::from_utf8(b?).ok()
}
fn is_int_lit(s: &str) -> bool { let d = s.strip_prefix('-').unwrap_or(s); !d.is_empty() && d.len() < 80 && d.bytes().all(|b| b.is_ascii_digit()) }

impl JV {
    fn int(n: i128) -> JV { JV::Int(n.to_string()) }
    fn s(x: &str) -> JV { JV::Str(x.to_string()) }
    fn obj(kv: Vec<(&str, JV)>) -> JV { JV::Obj(kv.into_iter().map(|(k, v)| (k.to_string(), v)).collect()) }
    fn tokens(&self, out: &mut Vec<String>) {
        match self {
            JV::Null => out.push("n".into()),
            JV::Bool(b) => out.push(if *b { "t" } else { "f" }.into()),
            JV::Int(s) => out.push(format!("i{s}")),
            JV::Flt(l) => out.push(format!("d{}", hex(l))),
            JV::Str(s) => out.push(format!("s{}", hex(s))),
            JV::Ph(p) => out.push(p.to_string()),
            JV::Arr(xs) => { out.push(format!("a{}", xs.len())); for x in xs { x.tokens(out); } }
            JV::Obj(kv) => { out.push(format!("o{}", kv.len())); for (k, v) in kv { out.push(format!("x{}", hex(k))); v.tokens(out); } }
        }
    }
    fn parse(toks: &[&str], pos: &mut usize, depth: usize) -> Option<JV> {
        if depth > 64 { return None; }
        let t = *toks.get(*pos)?;
        *pos += 1;
        if let Some(p) = PLACEHOLDERS.iter().find(|p| **p == t) { return Some(JV::Ph(p)); }
        match t {
            "n" => return Some(JV::Null), "t" => return Some(JV::Bool(true)), "f" => return Some(JV::Bool(false)), _ => {}
        }
        let (k, rest) = t.split_at(1);
        match k {
            "i" => if is_int_lit(rest) { Some(JV::Int(rest.to_string())) } else { None },
            "d" => {
                let l = unhex(rest)?;
                // a JSON number literal that is not an integer literal
                if is_int_lit(&l) || !serde_json::from_str::<Value>(&l).ok()?.is_number() { return None; }
                Some(JV::Flt(l))
            }
            "s" => Some(JV::Str(unhex(rest)?)),
            "a" => { let n: usize = rest.parse().ok()?; if n > 10_000 { return None; } let mut xs = vec![]; for _ in 0..n { xs.push(JV::parse(toks, pos, depth + 1)?); } Some(JV::Arr(xs)) }
            "o" => {
                let n: usize = rest.parse().ok()?; if n > 10_000 { return None; }
                let mut kv = vec![];
                for _ in 0..n {
                    let kt = *toks.get(*pos)?; *pos += 1;
                    let key = unhex(kt.strip_prefix('x')?)?;
                    kv.push((key, JV::parse(toks, pos, depth + 1)?));
                }
                Some(JV::Obj(kv))
            }
            _ => None,
        }
    }
    /// JSON text as a client would put it on the wire (placeholders resolved)
    fn text(&self, obs: &Observed, o: &mut String) {
        match self {
            JV::Null => o.push_str("null"),
            JV::Bool(b) => o.push_str(if *b { "true" } else { "false" }),
            JV::Int(s) => o.push_str(s),
            JV::Flt(l) => o.push_str(l),
            JV::Str(s) => o.push_str(&serde_json::to_string(s).unwrap()),
            JV::Ph(p) => match *p {
                "pt" => o.push_str(&obs.thread_id.unwrap_or(4242).to_string()),
                "pf" => o.push_str(&obs.frame_id.unwrap_or(obs.thread_id.unwrap_or(4242) << 16).to_string()),
                "pv" => o.push_str(&obs.vars_ref.unwrap_or(1).to_string()),
                "pl" => o.push_str(&bp_line("main").to_string()),
                "pm" => o.push_str(&serde_json::to_string(&obs.mapped.clone().unwrap_or_else(|| "0x400000".into())).unwrap()),
                "ps" => o.push_str(&serde_json::to_string(&prog_src().to_string_lossy()).unwrap()),
                _ => o.push_str(&serde_json::to_string(&prog_bin().to_string_lossy()).unwrap()),
            },
            JV::Arr(xs) => { o.push('['); for (i, x) in xs.iter().enumerate() { if i > 0 { o.push(','); } x.text(obs, o); } o.push(']'); }
            JV::Obj(kv) => {
                o.push('{');
                for (i, (k, v)) in kv.iter().enumerate() { if i > 0 { o.push(','); } o.push_str(&serde_json::to_string(k).unwrap()); o.push(':'); v.text(obs, o); }
                o.push('}');
            }
        }
    }
    fn get(&self, k: &str) -> Option<&JV> { if let JV::Obj(kv) = self { kv.iter().rev().find(|(x, _)| x == k).map(|(_, v)| v) } else { None } }
}

fn msg_line(m: &JV) -> String {
    let mut t = vec![];
    m.tokens(&mut t);
    format!("C08D msg ? - t0 {}", t.join(" "))
}

// ------------------------------------------------------------------------------------------------
// debuggee

fn verif_root() -> PathBuf { Path::new(env!("CARGO_MANIFEST_DIR")).parent().unwrap().to_path_buf() }
fn prog_src() -> PathBuf { verif_root().join("progs-src/c08d_dbg.rs") }
fn prog_bin() -> PathBuf { verif_root().join("progs/c08d_dbg") }

/// compile the debuggee on demand (parent process only)
fn ensure_prog() {
    let (src, bin) = (prog_src(), prog_bin());
    let fresh = match (std::fs::metadata(&src), std::fs::metadata(&bin)) {
        (Ok(s), Ok(b)) => b.modified().unwrap() >= s.modified().unwrap(),
        _ => false,
    };
    if fresh { return; }
    std::fs::create_dir_all(bin.parent().unwrap()).unwrap();
    let tmp = bin.with_extension(format!("tmp{}", std::process::id()));
    let st = std::process::Command::new("rustc").args(["+1.89", "-g", "-C", "opt-level=0", "-o"]).arg(&tmp).arg(&src)
        .current_dir(verif_root().join("harness")).status().expect("rustc");
    assert!(st.success(), "rustc failed on {}", src.display());
    std::fs::rename(&tmp, &bin).unwrap();
}

fn bp_line(name: &str) -> i64 {
    let src = std::fs::read_to_string(prog_src()).unwrap_or_default();
    src.lines().position(|l| l.contains(&format!("BP:{name}"))).map(|i| i as i64 + 1).unwrap_or(1)
}

// ------------------------------------------------------------------------------------------------
// generator

const I63: i128 = 1 << 63;
/// ids no process on a Linux machine can have (pid_max <= 4194304): nothing real is ever signalled or attached to
const NO_SUCH_PIDS: &[i128] = &[4_200_001, 4_200_777, 2_000_000_000, 2_147_483_647];

/// text that a client may carry in any string: ASCII, Latin-1, CJK, emoji, combining marks, odd white space
const TEXTS: &[&str] = &[
    "", "a", "ac", "acc", "acc_total", "kn", "arr", "día", "dí", "día ac", "日本", "日本語 acc", "変数", "変", "x😀y", "😀", "e\u{301}",
    "é", "accent_é", "accent_", "std::", "a::b", "ÿ", "\u{80}", "ß_1", "naïve café ac", " acc", "acc ", "\u{2003}ac", "a\u{0}b", "𝔘𝔫𝔦", "İ",
    "ac\u{200d}c", "κόσμε", "₁₂₃", "١٢٣", "１２", "a\tb", "\u{feff}acc", "\"q\"", "\\", "{}", "{acc}", "%s", "ab\u{85}", "\u{a0}x\u{a0}",
];
const EXPRS: &[&str] = &[
    "acc", "knob", "arr", "arr[1]", "arr[1..3]", "arr[..2]", "*acc", "&acc", "acc.0", "nosuch", "", " ", "(", "arr[", "día", "変数", "accent_é",
    "día[1]", "😀", "a b", "arr[0].x", "(*u32)0x10", "arr[5]", "arr[-1]", "acc_total", "~acc", "arr[2..2]", "1", "\"s\"", "é[１]",
];
/// expressions on which the console expression parser panics as found (numeric tokens out of range), ASCII only
const EXPRS_DANGER: &[&str] = &[
    "a[18446744073709551616]", "arr[99999999999999999999]", "a[-9223372036854775808]", "a[1..99999999999999999999]",
    "(*u32)0x1ffffffffffffffff", "arr[0..18446744073709551616]",
];
/// slices that panic inside the evaluation on a live debuggee (value/mod.rs; C08's slice findings)
const EXPRS_LIVE_DANGER: &[&str] = &["arr[3..1]", "arr[9..]"];
const VALUES: &[&str] = &["5", "0", "0x10", "-1", "true", "'a'", "１２", "", "99999999999999999999999999999999999999999", "1e3", "é", "'é'", "'ab'", " 7 ", "+3", "0X1f", "NaN"];
const MEMREFS: &[&str] = &[
    "0x10", "0x0", "16", "+16", "0x+10", " 0x10 ", "0x", "", "x", "0xg", "-1", "0xffffffffffffffff", "0x7fffffffffffffff", "0x8000000000000000",
    "0x10000000000000000", "18446744073709551616", "18446744073709551615", "9223372036854775807", "9223372036854775808", "１６", "0x１０",
    "0x1\u{660}", "π", "0X10", "\u{2003}0x20\u{2003}", "0x00000000000000000010", "0x-1", "++1", "1_000", "0x1f", "4096",
];
const B64S: &[&str] = &[
    "", "QUJD", "QQ==", "QUI=", "QR==", "QUJ", "Q", "====", "QU=J", "QUJD\n", "QUJD ", "QUJDé", "é", "-_-_", "QUJDQUJD", "QQ=", "QQ===", "=QQQ",
    "Q=Q=", "QUF=", "QUE=", "AAAA", "////", "++++", "QQ", "QUJDQQ==", "QUJDQUI=", "日本", "QUJD=", "Q===",
];
const PATHS: &[&str] = &["/nonexistent/c08d/día/ファイル.rs", "", "relative.rs", "./x.rs", "\\\\win\\path.rs", "/", "a\u{0}b", "/tmp", "c08d_dbg.rs", "😀.rs"];
const FLOATS: &[&str] = &["1.5", "-0.0", "1e3", "1.0", "2.5e-3", "1E30", "9223372036854775808.0"];

struct Gen<'a> { rng: &'a mut Rng, danger: bool, live: bool }

impl Gen<'_> {
    fn pick<'b>(&mut self, xs: &'b [&'b str]) -> &'b str { xs[self.rng.below(xs.len() as u64) as usize] }
    fn text(&mut self) -> JV { let t = self.pick(TEXTS); if self.rng.chance(1, 12) { JV::Str(t.repeat(self.rng.range(2, 40) as usize)) } else { JV::s(t) } }
    fn float(&mut self) -> JV { JV::Flt(self.pick(FLOATS).to_string()) }
    /// a value of a wrong JSON type for a field that wants `want` ("int" / "str" / other)
    fn illtyped(&mut self, want: &str) -> JV {
        loop {
            let v = match self.rng.below(8) {
                0 => JV::Null, 1 => JV::Bool(self.rng.chance(1, 2)), 2 => JV::int(7), 3 => self.float(), 4 => self.text(),
                5 => JV::Arr(vec![]), 6 => JV::Arr(vec![JV::int(1)]), _ => JV::obj(vec![("k", JV::int(1))]),
            };
            let is_int = matches!(v, JV::Int(_)); let is_str = matches!(v, JV::Str(_));
            if (want == "int" && is_int) || (want == "str" && is_str) { continue; }
            return v;
        }
    }
    /// integers around the boundaries of i32 / i64 / u64 and beyond (number literals a client can send)
    fn edge_int(&mut self) -> JV {
        const E: &[i128] = &[0, 1, -1, 2, 65535, 65536, 65537, (1 << 31) - 1, 1 << 31, (1 << 32) - 1, 1 << 32, I63 - 1, I63, -I63, -I63 - 1,
            (1 << 64) - 1, 1 << 64, 10_000_000_000_000_000_000_000, -(1 << 64)];
        JV::int(E[self.rng.below(E.len() as u64) as usize])
    }
    /// an integer field: the valid value most of the time
    fn int_field(&mut self, valid: JV) -> Option<JV> {
        match self.rng.below(20) {
            0 => None,
            1 | 2 => Some(self.illtyped("int")),
            3..=5 => Some(self.edge_int()),
            // the values next to the usual guards (`< 0`, `< 1`, `<= 0`)
            6..=8 => Some(JV::int(*self.rng.pick(&[0i128, 1, -1, 0, -1, 2]))),
            9 => Some(self.float()),
            _ => Some(valid),
        }
    }
    fn str_field(&mut self, valid: JV) -> Option<JV> {
        match self.rng.below(20) {
            0 => None,
            1 | 2 => Some(self.illtyped("str")),
            3..=8 => Some(self.text()),
            _ => Some(valid),
        }
    }
    fn opt<T>(&mut self, num: u64, den: u64, f: impl FnOnce(&mut Self) -> T) -> Option<T> { if self.rng.chance(num, den) { Some(f(self)) } else { None } }
    fn expr(&mut self) -> JV {
        if self.danger && self.rng.chance(1, 2) {
            if self.live && self.rng.chance(1, 2) { return JV::s(self.pick(EXPRS_LIVE_DANGER)); }
            return JV::s(self.pick(EXPRS_DANGER));
        }
        if self.rng.chance(1, 5) { self.text() } else { JV::s(self.pick(EXPRS)) }
    }
    fn memref(&mut self) -> JV {
        // near misses of the accepted syntax are picked often
        const NEAR: &[&str] = &["0X10", "0x+10", " 0x10 ", "+16", "0x", "0xg", "-1", "0x8000000000000000", "0x7fffffffffffffff", "0x10 0", "0x1_0", "16 "];
        match self.rng.below(12) { 0..=2 => JV::Ph("pm"), 3..=5 => JV::s(self.pick(NEAR)), 6 => self.text(), _ => JV::s(self.pick(MEMREFS)) }
    }
    fn unmapped_memref(&mut self) -> JV { JV::s(self.pick(&["0x10", "16", "0x0", "+32", " 0x40 ", "4095"])) }
    fn offset(&mut self) -> Option<JV> {
        match self.rng.below(12) { 0..=4 => None, 5 => Some(JV::int(0)), 6 => Some(JV::int(1)), 7 => Some(JV::int(-1)), 8 => Some(JV::int(-16)), 9 => Some(self.edge_int()), 10 => Some(self.illtyped("int")), _ => Some(JV::int(4096)) }
    }
    fn path(&mut self) -> JV { if self.rng.chance(1, 2) { JV::Ph("ps") } else if self.rng.chance(1, 5) { self.text() } else { JV::s(self.pick(PATHS)) } }
    fn source_obj(&mut self) -> Option<JV> {
        match self.rng.below(16) {
            0 => None,
            1 => Some(self.illtyped("obj")),
            2 => Some(JV::obj(vec![])),
            3 => Some(JV::obj(vec![("path", self.illtyped("str"))])),
            4 => Some(JV::obj(vec![("sourceReference", self.int_field(JV::int(1)).unwrap_or(JV::int(0)))])),
            _ => Some(JV::obj(vec![("path", self.path())])),
        }
    }
    fn line(&mut self) -> Option<JV> { self.int_field(JV::Ph("pl")) }
    fn bp_options(&mut self, kv: &mut Vec<(&'static str, JV)>) {
        if self.rng.chance(1, 4) { kv.push(("condition", self.expr())); }
        if self.rng.chance(1, 4) { let h = self.pick(&[">= 2", "<=1", "== 3", "=1", "> 0", "< 5", "7", "x", "", ">=", ">= 18446744073709551616", "２", " 3 "]); kv.push(("hitCondition", JV::s(h))); }
        if self.rng.chance(1, 6) { let t = self.text(); kv.push(("logMessage", t)); }
    }

    /// arguments of one command (None = no `arguments` member)
    fn args(&mut self, cmd: &str) -> Option<JV> {
        // whole-argument mutations
        match self.rng.below(40) {
            0 => return None,
            1 => return Some(JV::Null),
            2 => return Some(self.illtyped("obj")),
            3 => return Some(JV::obj(vec![])),
            _ => {}
        }
        let mut kv: Vec<(&'static str, JV)> = vec![];
        macro_rules! put { ($k:expr, $v:expr) => { if let Some(v) = $v { kv.push(($k, v)); } } }
        match cmd {
            "initialize" => { put!("adapterID", self.str_field(JV::s("c08d"))); put!("linesStartAt1", Some(JV::Bool(true))); }
            "launch" => {
                // a real program only where the session plan says so (`launch_valid`); here: programs that do not exist
                // (never a bare name that `which` could resolve to a program of this machine)
                let p = match self.rng.below(10) {
                    0 => None, 1 | 2 => Some(self.illtyped("str")),
                    3 => Some(JV::s(self.pick(&["", "día", "日本/プログラム", "/nonexistent/😀", "./no-such-día"]))),
                    _ => Some(JV::s("/nonexistent/c08d/día/no-such-program")),
                };
                put!("program", p);
                put!("args", self.opt(1, 3, |g| JV::Arr(vec![g.text(), g.illtyped("str")])));
                put!("sourceMap", self.opt(1, 3, |g| JV::obj(vec![("/src/día", g.text()), ("C:\\x", g.illtyped("str"))])));
            }
            "attach" => {
                let k = if self.rng.chance(1, 3) { "processId" } else { "pid" };
                let p = NO_SUCH_PIDS[self.rng.below(NO_SUCH_PIDS.len() as u64) as usize];
                let v = match self.rng.below(12) {
                    0 => None, 1 => Some(self.illtyped("x")), 2 => Some(JV::int(1 << 31)), 3 => Some(JV::int(-(1 << 31) - 1)), 4 => Some(JV::int(I63)),
                    5 => Some(JV::Str(p.to_string())), 6 => Some(JV::Str(format!("+{p}"))), 7 => Some(JV::s(self.pick(&["", " 7", "７", "0x10", "1e3", "-", "99999999999999999999", "día"]))),
                    8 => Some(self.float()), 9 => Some(JV::int(-p)), _ => Some(JV::int(p)),
                };
                put!(k, v);
            }
            "setBreakpoints" => {
                put!("source", self.source_obj());
                let n = self.rng.below(4);
                let bps: Vec<JV> = (0..n).map(|_| { let mut b = vec![]; if let Some(l) = self.line() { b.push(("line", l)); } self.bp_options(&mut b); JV::obj(b) }).collect();
                put!("breakpoints", match self.rng.below(10) { 0 => None, 1 => Some(self.illtyped("arr")), 2 => Some(JV::Arr(vec![JV::int(3), JV::Null])), _ => Some(JV::Arr(bps)) });
            }
            "setFunctionBreakpoints" => {
                let n = self.rng.below(3);
                let bps: Vec<JV> = (0..n).map(|_| { let mut b = vec![]; if let Some(x) = { let v = JV::s(self.pick(&["work", "main", "nosuch", "c08d_dbg::work", "día", "(", "[", "*"])); self.str_field(v) } { b.push(("name", x)); } self.bp_options(&mut b); JV::obj(b) }).collect();
                put!("breakpoints", match self.rng.below(10) { 0 => None, 1 => Some(self.illtyped("arr")), _ => Some(JV::Arr(bps)) });
            }
            "setInstructionBreakpoints" => {
                let n = self.rng.below(3);
                let bps: Vec<JV> = (0..n).map(|_| { let mut b = vec![]; if let Some(x) = { let v = self.unmapped_memref(); self.str_field(v) } { b.push(("instructionReference", x)); } if let Some(o) = self.offset() { b.push(("offset", o)); } JV::obj(b) }).collect();
                put!("breakpoints", match self.rng.below(10) { 0 => None, 1 => Some(self.illtyped("arr")), _ => Some(JV::Arr(bps)) });
            }
            "setExceptionBreakpoints" => { put!("filters", match self.rng.below(5) { 0 => None, 1 => Some(self.illtyped("arr")), 2 => Some(JV::Arr(vec![self.text(), JV::int(1)])), _ => Some(JV::Arr(vec![JV::s("signal"), JV::s("process")])) }); }
            "dataBreakpointInfo" => {
                let v = if self.danger { JV::s(self.pick(&["a[18446744073709551616]", "0x1ffffffffffffffff:8", "a[-9223372036854775808]", "x[1..99999999999999999999]"])) }
                    else { match self.rng.below(6) { 0 => JV::s(self.pick(&["0x10:8", "0x7fff0000:4", "0x10:3", " 0x20:1 ", "0x10:", ":8", "0xffffffffffffffff:2"])), 1 => self.text(), _ => self.expr() } };
                put!("name", self.str_field(v));
                put!("variablesReference", self.opt(1, 4, |g| g.edge_int()));
            }
            "setDataBreakpoints" => {
                let n = self.rng.below(3);
                let bps: Vec<JV> = (0..n).map(|_| {
                    let mut b = vec![];
                    let id = if self.danger { JV::s(self.pick(&["expr:a[18446744073709551616]", "addr:0x1ffffffffffffffff:8", "a[-9223372036854775808]"])) }
                        else { JV::s(self.pick(&["expr:acc", "expr:knob", "addr:0x10:8", "expr:", "addr:", "acc", "expr: día ", "addr:0x10:3", "expr:arr[1]", "😀", "", "expr:expr:acc"])) };
                    if let Some(x) = self.str_field(id) { b.push(("dataId", x)); }
                    if let Some(x) = self.opt(1, 2, |g| match g.rng.below(6) { 0 => JV::s("read"), 1 => JV::s("readWrite"), 2 => g.text(), 3 => g.illtyped("str"), _ => JV::s("write") }) { b.push(("accessType", x)); }
                    JV::obj(b)
                }).collect();
                put!("breakpoints", match self.rng.below(10) { 0 => None, 1 => Some(self.illtyped("arr")), _ => Some(JV::Arr(bps)) });
            }
            "breakpointLocations" => {
                if self.rng.chance(3, 5) {
                    put!("source", self.source_obj());
                    put!("line", self.line());
                    put!("endLine", self.opt(1, 2, |g| g.int_field(JV::Ph("pl")).unwrap_or(JV::int(0))));
                    put!("column", self.opt(1, 3, |g| g.int_field(JV::int(1)).unwrap_or(JV::int(0))));
                    put!("endColumn", self.opt(1, 3, |g| g.int_field(JV::int(80)).unwrap_or(JV::int(0))));
                } else {
                    put!("instructionReference", { let v = self.memref(); self.str_field(v) });
                    put!("offset", self.offset());
                    put!("endOffset", self.opt(1, 2, |g| g.offset().unwrap_or(JV::int(8))));
                }
            }
            "stackTrace" => { put!("threadId", self.int_field(JV::Ph("pt"))); put!("startFrame", self.opt(1, 3, |g| g.edge_int())); put!("levels", self.opt(1, 3, |g| g.edge_int())); }
            "scopes" | "restartFrame" | "stepInTargets" => { put!("frameId", self.int_field(JV::Ph("pf"))); }
            "variables" => { put!("variablesReference", self.int_field(JV::Ph("pv"))); put!("start", self.opt(1, 3, |g| g.edge_int())); put!("count", self.opt(1, 3, |g| g.edge_int())); }
            "setVariable" => {
                put!("variablesReference", self.int_field(JV::Ph("pv")));
                put!("name", { let v = JV::s(self.pick(&["knob", "día", "nosuch", "arr", "accent_é"])); self.str_field(v) });
                put!("value", { let v = JV::s(self.pick(VALUES)); self.str_field(v) });
            }
            "continue" | "next" | "stepIn" | "stepOut" | "pause" | "stepBack" | "reverseContinue" => { put!("threadId", self.int_field(JV::Ph("pt"))); }
            "gotoTargets" => { put!("source", self.source_obj()); put!("line", self.line()); put!("column", self.opt(1, 3, |g| g.int_field(JV::int(1)).unwrap_or(JV::int(0)))); }
            "goto" => {
                // valid targets are unmapped low addresses only (the debuggee must not be sent into a loop)
                put!("targetId", self.opt(2, 3, |g| g.int_field(JV::int(16)).unwrap_or(JV::int(-1))));
                put!("instructionReference", self.opt(1, 3, |g| { let v = g.unmapped_memref(); g.str_field(v) }.unwrap_or(JV::s(""))));
                put!("threadId", self.opt(1, 2, |g| g.int_field(JV::Ph("pt")).unwrap_or(JV::int(-1))));
            }
            "evaluate" => { put!("expression", { let v = self.expr(); self.str_field(v) }); put!("frameId", self.opt(1, 2, |g| g.int_field(JV::Ph("pf")).unwrap_or(JV::Null))); put!("context", self.opt(1, 3, |g| g.text())); }
            "setExpression" => {
                let e = if self.danger { self.expr() } else { JV::s(self.pick(&["knob", "nosuch", "día", "arr", "", "(", "knob.0", "😀"])) };
                put!("expression", self.str_field(e));
                put!("value", { let v = JV::s(self.pick(VALUES)); self.str_field(v) });
                put!("frameId", self.opt(1, 2, |g| g.int_field(JV::Ph("pf")).unwrap_or(JV::Null)));
            }
            "completions" => {
                let t = self.text();
                let (chars, bytes) = if let JV::Str(s) = &t { (s.chars().count() as i128, s.len() as i128) } else { (0, 0) };
                put!("text", match self.rng.below(16) { 0 => None, 1 => Some(self.illtyped("str")), _ => Some(t) });
                // every column from 1 to past the end of the BYTE length (so columns inside multi-byte characters occur), plus edges
                let col = match self.rng.below(14) {
                    0 => None, 1 => Some(self.illtyped("int")), 2 => Some(self.edge_int()), 3 => Some(JV::int(0)), 4 => Some(JV::int(chars + 1)), 5 => Some(JV::int(bytes + 1)),
                    6 => Some(JV::int(bytes + 2)), _ => Some(JV::int(self.rng.range(1, (bytes + 2) as u64) as i128)),
                };
                put!("column", col);
                put!("frameId", self.opt(1, 3, |g| g.int_field(JV::Ph("pf")).unwrap_or(JV::Null)));
                put!("line", self.opt(1, 5, |g| g.edge_int()));
            }
            "readMemory" => {
                put!("memoryReference", { let v = self.memref(); self.str_field(v) });
                let c = match self.rng.below(14) {
                    0 => None, 1 => Some(self.illtyped("int")), 2 => Some(JV::int(-1)), 3 => Some(JV::int(I63)), 4 => Some(self.float()), 5 => Some(JV::int(0)), 6 => Some(JV::int(65536)),
                    7 if self.danger => Some(JV::int(*self.rng.pick(&[1i128 << 47, 1 << 62, I63 - 1]))),
                    _ => Some(JV::int(self.rng.range(1, 64) as i128)),
                };
                put!("count", c);
                put!("offset", self.offset());
            }
            "writeMemory" => {
                put!("memoryReference", { let v = if self.rng.chance(1, 3) { JV::s(self.pick(MEMREFS)) } else { self.unmapped_memref() }; self.str_field(v) });
                let d = if self.rng.chance(1, 6) { let n = self.rng.below(13); let a = b"ABCDEFGHIJKLMNOPQRSTUVWXYZabcdefghijklmnopqrstuvwxyz0123456789+/=="; JV::Str((0..n).map(|_| a[self.rng.below(a.len() as u64) as usize] as char).collect()) } else { JV::s(self.pick(B64S)) };
                put!("data", self.str_field(d));
                put!("offset", self.offset());
                put!("allowPartial", self.opt(1, 4, |g| g.illtyped("x")));
            }
            "disassemble" => {
                put!("memoryReference", { let v = self.memref(); self.str_field(v) });
                let big = self.danger && self.rng.chance(1, 2);
                let c = match self.rng.below(14) {
                    0 => None, 1 => Some(self.illtyped("int")), 2 => Some(JV::int(0)), 3 => Some(JV::int(-1)), 4 => Some(JV::int(I63)), 5 => Some(self.float()), 6 => Some(JV::int(4000)),
                    _ if big => Some(JV::int(*self.rng.pick(&[1i128 << 43, 1 << 59, 1 << 62, I63 - 1]))),
                    _ => Some(JV::int(self.rng.range(1, 64) as i128)),
                };
                put!("instructionCount", c);
                put!("offset", self.offset());
                let io = match self.rng.below(10) {
                    0..=3 => None, 4 => Some(JV::int(-1)), 5 => Some(JV::int(1)), 6 => Some(JV::int(-4)), 7 => Some(self.illtyped("int")),
                    _ if self.danger => Some(JV::int(*self.rng.pick(&[-I63, I63 - 1, 1 << 62, -(1 << 43)]))),
                    _ => Some(JV::int(2)),
                };
                put!("instructionOffset", io);
            }
            "terminateThreads" => {
                // never a positive id that a process of this machine could have; 0 (the adapter's own process group) only as `danger`
                let ids = match self.rng.below(10) {
                    0 => None, 1 => Some(self.illtyped("arr")),
                    2 => Some(JV::Arr(vec![JV::int(NO_SUCH_PIDS[0])])), 3 => Some(JV::Arr(vec![JV::int(-1)])), 4 => Some(JV::Arr(vec![JV::int(1 << 31)])),
                    5 => Some(JV::Arr(vec![JV::s("1")])), 6 => Some(JV::Arr(vec![self.float()])), 7 => Some(JV::Arr(vec![JV::int(NO_SUCH_PIDS[1]), JV::int(0)])),
                    8 if self.danger => Some(JV::Arr(vec![JV::int(0)])),
                    _ => Some(JV::Arr(vec![JV::int(I63), JV::Null])),
                };
                put!("threadIds", ids);
            }
            "cancel" => { put!("requestId", self.opt(2, 3, |g| { let v = JV::int(g.rng.range(1, 400) as i128); g.int_field(v) }.unwrap_or(JV::Null))); put!("progressId", self.opt(1, 3, |g| g.str_field(JV::s("progress-día")).unwrap_or(JV::int(3)))); }
            "runInTerminal" => {
                // only programs that do not exist: nothing is ever spawned
                let argv = match self.rng.below(8) {
                    0 => None, 1 => Some(self.illtyped("arr")), 2 => Some(JV::Arr(vec![])), 3 => Some(JV::Arr(vec![JV::int(1)])),
                    4 => Some(JV::Arr(vec![JV::s("/nonexistent/c08d/día"), JV::int(2)])),
                    _ => Some(JV::Arr(vec![JV::s("/nonexistent/c08d/プログラム"), self.text()])),
                };
                put!("args", argv);
                put!("kind", self.opt(1, 3, |g| g.str_field(JV::s("integrated")).unwrap_or(JV::int(1))));
                put!("title", self.opt(1, 3, |g| g.str_field(JV::s("día")).unwrap_or(JV::int(1))));
                put!("cwd", self.opt(1, 3, |g| g.str_field(JV::s("/nonexistent/c08d")).unwrap_or(JV::Null)));
                put!("env", self.opt(1, 3, |g| match g.rng.below(4) { 0 => g.illtyped("obj"), 1 => JV::obj(vec![("A", JV::int(1))]), 2 => JV::obj(vec![("A", JV::Null), ("A", JV::s("x"))]), _ => JV::obj(vec![("DÍA", g.text())]) }));
            }
            "disconnect" => { put!("terminateDebuggee", self.opt(2, 3, |g| if g.rng.chance(1, 4) { g.illtyped("bool") } else { JV::Bool(g.rng.chance(2, 3)) })); }
            "source" => {
                put!("source", self.source_obj());
                put!("sourceReference", self.opt(1, 3, |g| { let v = JV::int(g.rng.range(0, 3) as i128); g.int_field(v) }.unwrap_or(JV::int(0))));
            }
            _ => { put!("threadId", self.opt(1, 4, |g| g.edge_int())); put!("x", self.opt(1, 4, |g| g.text())); }
        }
        // a duplicated key now and then (the last one counts)
        if !kv.is_empty() && self.rng.chance(1, 40) { let (k, _) = kv[0].clone(); let v = self.illtyped("x"); kv.push((k, v)); }
        Some(JV::obj(kv))
    }
}

const ALL_COMMANDS: &[&str] = &[
    "initialize", "launch", "attach", "configurationDone", "setBreakpoints", "setFunctionBreakpoints", "setInstructionBreakpoints",
    "setExceptionBreakpoints", "dataBreakpointInfo", "setDataBreakpoints", "breakpointLocations", "exceptionInfo", "threads", "stackTrace",
    "scopes", "variables", "setVariable", "continue", "restart", "restartFrame", "next", "stepIn", "stepInTargets", "stepOut", "stepBack",
    "reverseContinue", "pause", "gotoTargets", "goto", "evaluate", "setExpression", "completions", "loadedSources", "modules", "readMemory",
    "writeMemory", "disassemble", "terminate", "terminateThreads", "cancel", "runInTerminal", "disconnect", "source",
];
/// pure decoders that need no debuggee to be interesting (picked more often)
const HOT: &[&str] = &["completions", "completions", "completions", "disassemble", "readMemory", "writeMemory", "evaluate", "setExpression", "setVariable",
    "dataBreakpointInfo", "source", "gotoTargets", "stackTrace", "variables", "breakpointLocations", "goto", "cancel", "scopes"];
/// commands that move the debuggee or end the session: rare in the random part
const MOVERS: &[&str] = &["continue", "next", "stepIn", "stepOut", "restart", "configurationDone", "launch", "terminate", "disconnect", "pause", "attach"];

fn request(seq: i128, cmd: &str, args: Option<JV>) -> JV {
    let mut kv = vec![("seq".to_string(), JV::int(seq)), ("type".to_string(), JV::s("request")), ("command".to_string(), JV::s(cmd))];
    if let Some(a) = args { kv.push(("arguments".to_string(), a)); }
    JV::Obj(kv)
}

/// a message whose envelope is broken (or is not a request at all)
fn broken_envelope(rng: &mut Rng, seq: i128) -> JV {
    let cmd = "threads";
    match rng.below(12) {
        0 => JV::obj(vec![("type", JV::s("request")), ("command", JV::s(cmd))]),
        1 => JV::obj(vec![("seq", JV::s("7")), ("type", JV::s("request")), ("command", JV::s(cmd))]),
        2 => JV::obj(vec![("seq", JV::Flt("1.0".into())), ("type", JV::s("request")), ("command", JV::s(cmd))]),
        3 => JV::obj(vec![("seq", JV::int(I63)), ("type", JV::s("request")), ("command", JV::s(cmd))]),
        4 => JV::obj(vec![("seq", JV::int(seq)), ("type", JV::s("request"))]),
        5 => JV::obj(vec![("seq", JV::int(seq)), ("type", JV::s("request")), ("command", JV::int(3))]),
        6 => JV::obj(vec![("seq", JV::int(seq)), ("command", JV::s(cmd))]),
        7 => JV::obj(vec![("seq", JV::int(seq)), ("type", JV::Null), ("command", JV::s(cmd))]),
        8 => JV::Null,
        9 => JV::s("día"),
        10 => JV::obj(vec![]),
        _ => JV::int(3),
    }
}

pub fn gen_requests(rng: &mut Rng, n: u64, quirks: &str, out: &mut Out) -> Vec<String> {
    fn push_req(msgs: &mut Vec<JV>, seq: &mut i128, rng: &mut Rng, cmd: &str, args: Option<JV>) { msgs.push(request(*seq, cmd, args)); *seq += rng.range(1, 3) as i128; }
    /// `len` random messages in the current phase; `danger_last`: the last one may be a request after which (as found)
    /// nothing more can be asked
    fn block(msgs: &mut Vec<JV>, seq: &mut i128, rng: &mut Rng, len: u64, live: bool, launched: bool, danger_last: bool) {
        for i in 0..len {
            if rng.chance(1, 50) { msgs.push(broken_envelope_or_event(rng, *seq)); *seq += 1; continue; }
            let last = i + 1 == len;
            let cmd: String = match rng.below(20) {
                0..=8 => rng.pick(HOT).to_string(),
                9 => if rng.chance(1, 4) { rng.pick(MOVERS).to_string() } else { rng.pick(HOT).to_string() },
                10 => rng.pick(&["frobnicate", "día", "", "Threads", "threads ", "😀"]).to_string(),
                _ => loop { let c = *rng.pick(ALL_COMMANDS); if !MOVERS.contains(&c) || rng.chance(1, 8) { break c.to_string(); } },
            };
            let danger = (last && danger_last) || rng.chance(1, if launched { 500 } else { 80 });
            let mut g = Gen { rng, danger, live };
            let args = g.args(&cmd);
            push_req(msgs, seq, rng, &cmd, args);
        }
    }
    let mut req = vec![];
    let mut made = 0u64;
    let mut sid = 0u64;
    while made < n {
        sid += 1;
        req.push(format!("C08D new {sid} {quirks}"));
        // a launched session walks through the phases up to `last` (one debugger start serves several phases)
        let launched = sid % 2 == 0;
        let last = if !launched { "pre" } else { match rng.below(20) { 0..=2 => "loaded", 3..=12 => "live", 13..=16 => "exited", _ => "terminated" } };
        out.count(&format!("session.ends-in.{last}"), 1);
        let mut seq: i128 = rng.range(1, 5) as i128;
        let mut msgs: Vec<JV> = vec![];
        let danger_end = rng.chance(2, 3);
        macro_rules! push { ($c:expr, $a:expr) => { { let a = $a; push_req(&mut msgs, &mut seq, rng, $c, a) } } }
        if rng.chance(9, 10) || launched { push!("initialize", Some(JV::obj(vec![("adapterID", JV::s("c08d"))]))); }
        if !launched {
            let len = rng.range(40, 80);
            block(&mut msgs, &mut seq, rng, len, false, false, danger_end);
        } else {
            push!("launch", Some(JV::obj(vec![("program", JV::Ph("pp")), ("args", JV::Arr(vec![]))])));
            let len = rng.range(8, 16);
            block(&mut msgs, &mut seq, rng, len, false, true, danger_end && last == "loaded");
            if last != "loaded" {
                push!("setBreakpoints", Some(JV::obj(vec![("source", JV::obj(vec![("path", JV::Ph("ps"))])), ("breakpoints", JV::Arr(vec![JV::obj(vec![("line", JV::Ph("pl"))])]))])));
                push!("configurationDone", None);
                push!("threads", None);
                push!("stackTrace", Some(JV::obj(vec![("threadId", JV::Ph("pt"))])));
                push!("scopes", Some(JV::obj(vec![("frameId", JV::Ph("pf"))])));
                push!("completions", Some(JV::obj(vec![("text", JV::s("día ac")), ("column", JV::int(7)), ("frameId", JV::Ph("pf"))])));
                let len = rng.range(30, 60);
                block(&mut msgs, &mut seq, rng, len, true, true, danger_end && last == "live");
            }
            if last == "exited" || last == "terminated" {
                push!("continue", Some(JV::obj(vec![("threadId", JV::Ph("pt"))])));
                let len = rng.range(8, 16);
                block(&mut msgs, &mut seq, rng, len, false, true, danger_end && last == "exited");
            }
            if last == "terminated" {
                push!("terminateThreads", Some(JV::obj(vec![])));
                let len = rng.range(8, 14);
                block(&mut msgs, &mut seq, rng, len, false, true, danger_end);
            }
        }
        // how the session ends: a broken envelope (it ends the session as found), terminate / disconnect, or the client just closes
        if !danger_end {
            if rng.chance(1, 3) { msgs.push(broken_envelope(rng, seq)); seq += 1; push!("threads", None); }
            else if rng.chance(1, 2) { let d = if rng.chance(1, 2) { "disconnect" } else { "terminate" }; push!(d, Some(JV::obj(vec![("terminateDebuggee", JV::Bool(true))]))); if rng.chance(1, 3) { push!("threads", None); } }
        } else if rng.chance(1, 2) { push!("threads", None); }
        for m in msgs { req.push(msg_line(&m)); made += 1; }
    }
    req
}

/// a message that is not a request (`type` is something else): the loop skips it
fn broken_envelope_or_event(rng: &mut Rng, seq: i128) -> JV {
    let ty = *rng.pick(&["event", "response", "", "Request", "día"]);
    JV::obj(vec![("seq", JV::int(seq)), ("type", JV::s(ty)), ("command", JV::s("threads"))])
}

// ------------------------------------------------------------------------------------------------
// worker: one DebugSession in a forked process

struct Recorder { f: Mutex<std::fs::File> }
impl Recorder {
    fn rec(&self, v: Value) {
        let mut f = self.f.lock().unwrap_or_else(|e| e.into_inner());
        let _ = writeln!(f, "{v}");
    }
}

struct Mock { rx: Receiver<Value>, rec: Arc<Recorder> }
impl DapTransport for Mock {
    fn read_message(&mut self) -> anyhow::Result<Value> {
        READS.fetch_add(1, Ordering::SeqCst);
        self.rx.recv().map_err(|_| anyhow::anyhow!("DAP connection closed"))
    }
    fn write_message(&mut self, m: &Value) -> anyhow::Result<()> {
        self.rec.rec(json!({"t": "w", "m": m}));
        Ok(())
    }
}

static READS: AtomicU64 = AtomicU64::new(0);
static T0: std::sync::OnceLock<Instant> = std::sync::OnceLock::new();
static PANIC_LOG: Mutex<Option<Arc<Recorder>>> = Mutex::new(None);

#[derive(Default)]
struct Observed { thread_id: Option<i64>, frame_id: Option<i64>, vars_ref: Option<i64>, mapped: Option<String>, pid: Option<i64> }

fn mapped_address(pid: i64) -> Option<String> {
    let maps = std::fs::read_to_string(format!("/proc/{pid}/maps")).ok()?;
    let l = maps.lines().find(|l| l.split(' ').nth(1).is_some_and(|p| p.starts_with("r-x")))?;
    Some(format!("0x{}", l.split('-').next()?))
}

fn worker(msgs: &[Option<JV>], log: &Path, req_timeout: Duration) -> ! {
    unsafe { libc::setpgid(0, 0) };
    // a session that signals "its process group" (terminateThreads with id 0) must only reach this worker
    let own_group = unsafe { libc::getpgrp() == libc::getpid() };
    if std::env::var("VERIF_SHOW_PANIC").is_err() {
        let devnull = std::ffi::CString::new("/dev/null").unwrap();
        unsafe { let fd = libc::open(devnull.as_ptr(), libc::O_WRONLY); if fd >= 0 { libc::dup2(fd, 2); } }
    }
    let rec = Arc::new(Recorder { f: Mutex::new(std::fs::File::create(log).unwrap()) });
    *PANIC_LOG.lock().unwrap() = Some(rec.clone());
    std::panic::set_hook(Box::new(|info| {
        let msg = if let Some(s) = info.payload().downcast_ref::<&str>() { s.to_string() }
                  else if let Some(s) = info.payload().downcast_ref::<String>() { s.clone() } else { "?".into() };
        let loc = info.location().map(|l| l.file().to_string()).unwrap_or_default();
        if let Some(r) = PANIC_LOG.lock().unwrap_or_else(|e| e.into_inner()).as_ref() { r.rec(json!({"t": "panic", "msg": msg, "loc": loc})); }
    }));
    bugstalker::debugger::rust::Environment::init(None);
    let (tx, rx) = channel::<Value>();
    let io: Arc<Mutex<dyn DapTransport>> = Arc::new(Mutex::new(Mock { rx, rec: rec.clone() }));
    let rec2 = rec.clone();
    let h = std::thread::spawn(move || {
        let r = std::panic::catch_unwind(std::panic::AssertUnwindSafe(|| DebugSession::new(io).run(vec![])));
        let res = match r { Ok(Ok(())) => "ok".to_string(), Ok(Err(e)) => format!("err:{e:#}"), Err(_) => "panic".to_string() };
        rec2.rec(json!({"t": "end", "res": res}));
    });
    let mut obs = Observed::default();
    let mut seen_lines = 0usize;
    let mut sent = 0u64;
    for (i, m) in msgs.iter().enumerate() {
        let Some(m) = m else { continue };
        if h.is_finished() { rec.rec(json!({"t": "req", "i": i, "closed": true})); continue; }
        // what the wire told so far (thread id, frame id, variables reference, debuggee pid)
        let text = std::fs::read_to_string(log).unwrap_or_default();
        for l in text.lines().skip(seen_lines) {
            seen_lines += 1;
            let Ok(v) = serde_json::from_str::<Value>(l) else { continue };
            let w = &v["m"];
            if w["event"] == "stopped" { if let Some(t) = w["body"]["threadId"].as_i64() { obs.thread_id = Some(t); } }
            if w["event"] == "process" { if let Some(p) = w["body"]["systemProcessId"].as_i64() { obs.pid = Some(p); obs.mapped = None; } }
            if w["type"] == "response" && w["command"] == "stackTrace" { if let Some(id) = w["body"]["stackFrames"][0]["id"].as_i64() { obs.frame_id = Some(id); } }
            if w["type"] == "response" && w["command"] == "scopes" { if let Some(id) = w["body"]["scopes"][0]["variablesReference"].as_i64() { obs.vars_ref = Some(id); } }
        }
        if obs.mapped.is_none() { if let Some(p) = obs.pid { obs.mapped = mapped_address(p); } }
        let mut txt = String::new();
        m.text(&obs, &mut txt);
        // exactly what a transport does with the bytes of a message
        let Ok(val) = serde_json::from_str::<Value>(&txt) else { rec.rec(json!({"t": "req", "i": i, "unparsable": true})); continue };
        // safety net of the harness itself: a signal to "process group 0" is only let through inside an own group
        if !own_group && txt.contains("terminateThreads") { rec.rec(json!({"t": "req", "i": i, "unparsable": true})); continue; }
        rec.rec(json!({"t": "req", "i": i, "has": true, "msg": val, "at": T0.get_or_init(Instant::now).elapsed().as_millis() as u64}));
        if tx.send(val).is_err() { continue; }
        sent += 1;
        // the message is dealt with completely when the session asks for the next one (or has ended)
        let t0 = Instant::now();
        loop {
            if READS.load(Ordering::SeqCst) >= sent + 1 { break; }
            if h.is_finished() { break; }
            if t0.elapsed() > req_timeout { rec.rec(json!({"t": "hang", "i": i})); unsafe { libc::_exit(3) } }
            std::thread::sleep(Duration::from_micros(300));
        }
    }
    drop(tx);
    let t0 = Instant::now();
    while !h.is_finished() && t0.elapsed() < req_timeout { std::thread::sleep(Duration::from_millis(1)); }
    rec.rec(json!({"t": "done"}));
    unsafe { libc::_exit(0) }
}

// ------------------------------------------------------------------------------------------------
// parent

struct Session { new_line: String, quirks: String, lines: Vec<(String, Option<JV>)> }

fn parse_sessions(lines: &[String]) -> Vec<Session> {
    let mut out: Vec<Session> = vec![];
    for l in lines {
        let t: Vec<&str> = l.split(' ').filter(|x| !x.is_empty()).collect();
        match t.as_slice() {
            ["C08D", "new", _sid, q] if ["current", "asfound", "repaired"].contains(q) => out.push(Session { new_line: l.clone(), quirks: q.to_string(), lines: vec![] }),
            ["C08D", "msg", _cls, _trans, tg, rest @ ..] if !out.is_empty() && (*tg == "t0" || *tg == "t1") => {
                let mut pos = 0;
                let m = JV::parse(rest, &mut pos, 0).filter(|_| pos == rest.len());
                let base = format!("C08D msg {}", rest.join(" "));
                out.last_mut().unwrap().lines.push((if m.is_some() { base } else { l.clone() }, m));
            }
            _ => {
                if out.is_empty() { out.push(Session { new_line: String::new(), quirks: "current".into(), lines: vec![] }); }
                out.last_mut().unwrap().lines.push((l.clone(), None));
            }
        }
    }
    out
}

fn run_workers(sessions: &[Session], which: &[usize], dir: &Path, par: usize, req_timeout: Duration) -> Vec<(PathBuf, String)> {
    let mut results: Vec<(PathBuf, String)> = which.iter().map(|i| (dir.join(format!("s{i}.jsonl")), String::new())).collect();
    let mut running: Vec<(i32, usize, Instant)> = vec![];
    let mut next = 0usize;
    while next < which.len() || !running.is_empty() {
        while next < which.len() && running.len() < par {
            let s = &sessions[which[next]];
            let msgs: Vec<Option<JV>> = s.lines.iter().map(|(_, m)| m.clone()).collect();
            let _ = std::fs::remove_file(&results[next].0);
            let pid = unsafe { libc::fork() };
            if pid == 0 { worker(&msgs, &results[next].0, req_timeout); }
            assert!(pid > 0, "fork failed");
            running.push((pid, next, Instant::now()));
            next += 1;
        }
        let mut i = 0;
        while i < running.len() {
            let (pid, idx, t0) = running[i];
            let mut st = 0;
            let r = unsafe { libc::waitpid(pid, &mut st, libc::WNOHANG) };
            if r == pid {
                results[idx].1 = if libc::WIFEXITED(st) { format!("exit{}", libc::WEXITSTATUS(st)) } else { format!("signal{}", libc::WTERMSIG(st)) };
                // whatever the session left behind in its process group (a debuggee) goes with it
                unsafe { libc::kill(-pid, libc::SIGKILL); }
                running.swap_remove(i);
                continue;
            }
            if t0.elapsed() > req_timeout * 6 {
                unsafe { libc::kill(-pid, libc::SIGKILL); libc::kill(pid, libc::SIGKILL); libc::waitpid(pid, &mut st, 0); }
                results[idx].1 = "watchdog".into();
                running.swap_remove(i);
                continue;
            }
            i += 1;
        }
        std::thread::sleep(Duration::from_millis(2));
    }
    results
}

/// string literals of the session sources that can start an error message (cut at the first `{`)
fn message_literals() -> Vec<String> {
    let dir = verif_root().parent().unwrap().join("repo/src/dap/yadap/session");
    let mut lits = std::collections::BTreeSet::new();
    for e in std::fs::read_dir(&dir).unwrap_or_else(|_| panic!("{} not found", dir.display())) {
        let p = e.unwrap().path();
        if p.extension().is_none_or(|x| x != "rs") { continue; }
        let src = std::fs::read_to_string(&p).unwrap();
        let b = src.as_bytes();
        let mut i = 0;
        while i < b.len() {
            if b[i] == b'"' {
                let mut j = i + 1; let mut s = Vec::new(); let mut ok = true;
                while j < b.len() && b[j] != b'"' { if b[j] == b'\\' { ok = false; j += 1; } if j < b.len() { s.push(b[j]); } j += 1; }
                if let Ok(mut s) = String::from_utf8(s) {
                    if let Some(k) = s.find('{') { s.truncate(k); }
                    if ok && (s == "cancelled" || (s.len() >= 9 && (s.contains(' ') || s.contains(':')))) { lits.insert(s); }
                }
                i = j + 1;
            } else if b[i] == b'\'' && i + 2 < b.len() && b[i + 2] == b'\'' { i += 3; } else if b[i] == b'/' && i + 1 < b.len() && b[i + 1] == b'/' {
                while i < b.len() && b[i] != b'\n' { i += 1; }
            } else { i += 1; }
        }
    }
    lits.into_iter().collect()
}

fn slug(s: &str) -> String {
    let mut o = String::new();
    for c in s.chars() {
        let c = c.to_ascii_lowercase();
        if c.is_ascii_lowercase() || c.is_ascii_digit() { o.push(c); } else if !o.ends_with('_') { o.push('_'); }
    }
    o.trim_matches('_').to_string()
}

fn err_class(msg: &str, lits: &[String]) -> String {
    let best = lits.iter().filter(|l| msg.starts_with(l.as_str())).max_by_key(|l| l.len());
    match best { Some(l) => format!("err:{}", slug(l)), None => "err:dbg".into() }
}

/// (fine class for K, coarse class for oracle keys)
fn panic_class(msg: &str, loc: &str) -> (String, String) {
    let c = |a: &str, b: &str| (a.to_string(), b.to_string());
    if msg.contains("PosOverflow") {
        if loc.contains("chumsky") { return c("expr-tok", "expr"); }
        if loc.ends_with("ui/command/parser/mod.rs") { return c("expr-hex", "expr"); }
        if loc.ends_with("ui/command/parser/expression.rs") { return c("expr-usize", "expr"); }
    }
    if msg.contains("attempt to negate with overflow") { return c("expr-neg", "expr"); }
    if loc.ends_with("variable/value/mod.rs") { return c("slice", "slice"); }
    if msg.contains("is not a char boundary") { return c("char-boundary", "char-boundary"); }
    if msg.contains("attempt to add with overflow") && loc.contains("dap/yadap/session") { return c("add-overflow", "add-overflow"); }
    if msg.contains("capacity overflow") { return c("capacity", "capacity"); }
    if msg.contains("index out of bounds") || msg.contains("out of range for slice") { return c("index", "index"); }
    let f = loc.rsplit('/').next().unwrap_or("").trim_end_matches(".rs").to_string();
    (format!("other-{f}"), format!("other-{f}"))
}

#[derive(Default, Clone)]
struct Answer { sent: Option<Value>, closed: bool, unparsable: bool, responses: Vec<Value>, events: Vec<String>, panic: Option<(String, String)>, ended: Option<String>, hang: bool }

fn load_answers(p: &Path, n: usize) -> (Vec<Answer>, bool) {
    let text = std::fs::read_to_string(p).unwrap_or_default();
    let mut by_i: Vec<Answer> = vec![Answer::default(); n];
    let mut cur: Option<usize> = None;
    let mut done = false;
    for l in text.lines() {
        let Ok(v) = serde_json::from_str::<Value>(l) else { continue };
        match v["t"].as_str().unwrap_or("") {
            "req" => {
                let i = v["i"].as_u64().unwrap_or(0) as usize;
                if i < n { cur = Some(i); by_i[i].closed = v["closed"] == true; by_i[i].unparsable = v["unparsable"] == true; if v["has"] == true { by_i[i].sent = Some(v["msg"].clone()); } }
            }
            "w" => if let Some(i) = cur {
                let m = &v["m"];
                if m["type"] == "response" { by_i[i].responses.push(m.clone()); }
                if m["type"] == "event" { by_i[i].events.push(m["event"].as_str().unwrap_or("").to_string()); }
            },
            "panic" => if let Some(i) = cur { by_i[i].panic = Some((v["msg"].as_str().unwrap_or("").to_string(), v["loc"].as_str().unwrap_or("").to_string())); },
            "end" => if let Some(i) = cur { by_i[i].ended = Some(v["res"].as_str().unwrap_or("").to_string()); },
            "hang" => if let Some(i) = cur { by_i[i].hang = true; },
            "done" => done = true,
            _ => {}
        }
    }
    (by_i, done)
}

struct Judged { class: String, trans: &'static str, targets: bool, key_class: String }

fn judge(answers: &[Answer], done: bool, status: &str, lits: &[String]) -> Vec<Option<Judged>> {
    // the message during which the worker died (if it did): the last one that was sent
    let last_sent = answers.iter().rposition(|a| a.sent.is_some());
    let died = !done && (status.starts_with("signal") || status == "watchdog" || status == "exit3");
    let mut dead = false;
    answers.iter().enumerate().map(|(i, a)| {
        if a.unparsable { return None; }
        if a.closed || dead || a.sent.is_none() { return Some(Judged { class: "closed".into(), trans: "-", targets: false, key_class: String::new() }); }
        let mut parts: Vec<String> = vec![];
        let mut targets = false;
        for r in &a.responses {
            if r["success"] == true {
                let t0 = &r["body"]["targets"][0];
                if r["command"] == "completions" && t0["start"].is_i64() { targets = true; parts.push(format!("ok:s{}:l{}", t0["start"], t0["length"])); } else { parts.push("ok".into()); }
            } else { parts.push(err_class(r["message"].as_str().unwrap_or(""), lits)); }
        }
        let mut key_class = String::new();
        if let Some((msg, loc)) = &a.panic { let (fine, coarse) = panic_class(msg, loc); parts.push(format!("panic:{fine}")); key_class = coarse; dead = true; }
        else if let Some(res) = &a.ended {
            if res == "panic" { parts.push("panic:unknown".into()); key_class = "unknown".into(); dead = true; }
            // an `Err` of `run` that is not the driver closing the connection after the last message
            else if res != "ok" && !res.contains("DAP connection closed") { parts.push("dropped".into()); dead = true; }
            else { dead = true; }
        }
        if a.hang || (died && Some(i) == last_sent && status == "watchdog") { parts.push("hang".into()); dead = true; }
        else if died && Some(i) == last_sent {
            parts.push(match status { "signal6" => "abort".to_string(), "signal15" => "killed".to_string(), s => format!("died-{s}") });
            dead = true;
        }
        if parts.is_empty() { parts.push("ignored".into()); }
        let trans = if a.events.iter().any(|e| e == "exited") { "exit" } else if a.events.iter().any(|e| e == "stopped") { "stop" } else { "-" };
        Some(Judged { class: parts.join("+"), trans, targets, key_class })
    }).collect()
}

fn cmd_key(m: &Value) -> String {
    let c = m["command"].as_str().unwrap_or("");
    if !c.is_empty() && c.len() < 40 && c.chars().all(|c| c.is_ascii_alphabetic()) { c.to_string() } else { "other".into() }
}

pub fn exec(req: &[String], out: &mut Out, dir: &Path) {
    ensure_prog();
    let lits = message_literals();
    let sessions = parse_sessions(req);
    let sdir = dir.join("sessions");
    std::fs::create_dir_all(&sdir).unwrap();
    let par = std::env::var("C08D_PAR").ok().and_then(|s| s.parse().ok()).unwrap_or(6usize);
    let base = std::env::var("C08D_REQ_TIMEOUT").ok().and_then(|s| s.parse().ok()).unwrap_or(20u64);
    let t = Duration::from_secs(base * crate::live::load_factor());
    // sessions that start a debugger take longest: they go first (the order of execution does not matter)
    let mut all: Vec<usize> = (0..sessions.len()).collect();
    let launches = |s: &Session| s.lines.iter().filter(|(_, m)| m.as_ref().is_some_and(|m| m.get("command") == Some(&JV::s("launch")))).count();
    all.sort_by_key(|&i| std::cmp::Reverse(launches(&sessions[i])));
    let by_order = run_workers(&sessions, &all, &sdir, par, t);
    let mut results: Vec<(PathBuf, String)> = vec![(PathBuf::new(), String::new()); sessions.len()];
    for (k, &i) in all.iter().enumerate() { results[i] = by_order[k].clone(); }
    let all: Vec<usize> = (0..sessions.len()).collect();
    // a session that hung is run ONCE more, alone, with twice the limit: only a hang that repeats is reported
    let again: Vec<usize> = all.iter().copied().filter(|&i| results[i].1 == "watchdog" || results[i].1 == "exit3").collect();
    if !again.is_empty() && std::env::var("VERIF_NO_RETRY").is_err() {
        let second = run_workers(&sessions, &again, &sdir, 1, t * 2);
        for (k, &i) in again.iter().enumerate() { results[i] = second[k].clone(); }
        out.count("session.rerun_after_timeout", again.len() as u64);
    }
    for (s, (path, status)) in sessions.iter().zip(results.iter()) {
        if !s.new_line.is_empty() { out.pair(s.new_line.clone(), "ok".into()); }
        let (answers, done) = load_answers(path, s.lines.len());
        let judged = judge(&answers, done, status, &lits);
        let mut shown: Vec<String> = vec![];
        for (k, (line, m)) in s.lines.iter().enumerate() {
            let (Some(_), Some(j)) = (m, &judged[k]) else { out.pair(line.clone(), "bad-op".into()); continue };
            let toks = line.strip_prefix("C08D msg ").unwrap_or("");
            let rq = format!("C08D msg {} {} {} {toks}", j.class, j.trans, if j.targets { "t1" } else { "t0" });
            let a = &answers[k];
            let sent = a.sent.clone().unwrap_or(Value::Null);
            let well_formed = sent["seq"].is_i64() && sent["type"] == "request" && sent["command"].is_string();
            let cmd = cmd_key(&sent);
            if j.class != "closed" {
                out.count(&format!("msg.{}", if well_formed { cmd.as_str() } else if sent["type"].is_string() && sent["type"] != "request" && sent["seq"].is_i64() { "not-a-request" } else { "broken-envelope" }), 1);
                out.count(&format!("answer.{}", j.class.split(':').next().unwrap_or("")), 1);
                // ---- O: the message must be answered (if it is a request) and the session must still be there
                out.oracle_evals += 1;
                let replay = || json!({"session": std::iter::once(s.new_line.clone()).chain(s.lines.iter().take(k + 1).map(|(l, _)| l.clone())).collect::<Vec<_>>(), "message": sent});
                let what = |w: &str| format!("{w} (message {}: {})", k, serde_json::to_string(&sent).unwrap_or_default().chars().take(300).collect::<String>());
                let wf = if well_formed { cmd.clone() } else { "malformed-envelope".to_string() };
                if j.class.contains("panic:") { out.oracle_fail(&format!("dap-panic:{wf}:{}", j.key_class), &what(&format!("the session thread panicked: {:?}", a.panic)), replay()); }
                else if j.class.contains("hang") { out.oracle_fail(&format!("dap-hang:{wf}"), &what("no answer within the time limit, twice"), replay()); }
                else if j.class.contains("abort") || j.class.contains("killed") || j.class.contains("died-") {
                    out.oracle_fail(&format!("dap-process-died:{wf}:{}", j.class.rsplit('+').next().unwrap_or("")), &what(&format!("the adapter process died ({status})")), replay());
                }
                else if j.class.contains("dropped") { out.oracle_fail(&format!("dap-session-dropped:{wf}"), &what(&format!("the session loop ended: {:?}", a.ended)), replay()); }
                else if well_formed && a.responses.is_empty() { out.oracle_fail(&format!("dap-no-response:{cmd}"), &what("a request got no response"), replay()); }
            } else { out.count("msg.after-session-end", 1); }
            shown.push(format!("{cmd}:{}", j.class));
            out.pair(rq, j.class.clone());
        }
        out.sample(json!({"session": s.new_line, "quirks": s.quirks, "status": status, "answers": shown.iter().take(40).collect::<Vec<_>>() }));
    }
}

pub fn run(args: &[String]) {
    let a = parse_args(args);
    // `--quirks` of the console leg is not used here: the DAP model is compared in its setting `current` (the code as it is)
    let quirks = "current".to_string();
    let mut out = Out::new(&a.out);
    let req = match &a.replay {
        Some(f) => read_lines(f),
        None => { let mut rng = Rng::new(a.seed); gen_requests(&mut rng, a.n, &quirks, &mut out) }
    };
    let dir = a.out.clone();
    exec(&req, &mut out, &dir);
    out.finish();
}
