//! C18: code is found wherever it is loaded (PIE / non-PIE / static / cdylib at startup / cdylib via dlopen+dlclose).
//!
//! One session = one debugger on one link mode of progs-src/c18_main.rs (built by tools/progs.d/c18.sh).
//! Request lines (the model is `lean/BsVerif/Model/RelocSession.lean` through `lean/Driver/C18.lean`):
//!   C18 new <prog> <x-script> <entry> <interp 0|1> <exit> <ldd ids> <rbrk obj:gaddr|-> <ops>
//!   C18 obj <id> <vaddr0> <parse 0|1> <x-path>      static facts of every object of the universe (readelf -lW)
//!   C18 fn <fnid> <obj:gaddr,...>                     where a function breakpoint lands (nm + llvm-dwarfdump --debug-line)
//!   C18 req <fnid>        `break <fn>`; when no place is found the request is deferred (what the console does on "y")
//!   C18 break <fnid>      `break <fn>` without deferring
//!   C18 breakat <fnid> <obj>   breakpoint by runtime address = real load bias + the function's place (after start)
//!   C18 start <maps> | C18 continue <maps>            <maps> = /proc/<pid>/maps of the universe after the command, written
//!                                                     by `exec` from its own observation (obj:lo:hi,...) — it is how the
//!                                                     model learns where the loader put things
//! `ops` is the abstract program: L<obj> / U<obj> (dlopen / dlclose, reference counted) and V<obj>:<fnid> (the place of
//! function fnid of object obj is executed once), derived from the script and the program's source.
//! Answer: `<outcome> i=<INT3 bytes really present in the text, from /proc/<pid>/mem vs the ELF files> b=<user breakpoints> l=<sharedlib list>`.
//! Oracles (no model involved): stops vs the specification "every executed place of a requested function stops";
//! breakpoint addresses vs /proc/<pid>/maps + ELF symbol ranges (nm); `shared_libs()` vs maps; backtrace through the
//! library frame; argument values read in library frames; text never differs from the ELF file except by INT3; native output.
use crate::dwline;
use crate::live::*;
use crate::util::*;
use bugstalker::debugger::address::{Address, RelocatedAddress};
use bugstalker::debugger::process::Child;
use bugstalker::debugger::variable::dqe::{Dqe, Selector};
use bugstalker::debugger::variable::value::Value;
use bugstalker::debugger::{Debugger, DebuggerBuilder, NopHook, StopReason, rust};
use serde_json::json;
use std::collections::{BTreeMap, BTreeSet};
use std::io::Read;
use std::path::{Path, PathBuf};
use std::process::Command;
use std::sync::{Arc, Mutex};

pub const PROGS: &[(&str, &str, u64)] = &[
    // (program, mode, weight)
    ("c18_pie", "plain", 2), ("c18_nopie", "plain", 1), ("c18_staticpie", "plain", 1), ("c18_static", "plain", 1),
    ("c18_startup", "startup", 3), ("c18_startup_nopie", "startup", 1), ("c18_startup2", "startup2", 2), ("c18_dl", "dl", 10), ("c18_dl_nopie", "dl", 1),
];
pub const FNS: &[&str] = &["c18_mark", "c18_own", "c18_callback", "c18a_add", "a_inner", "c18a_via", "c18_shared", "c18b_mul", "b_inner"];
const F_MARK: usize = 0; const F_OWN: usize = 1; const F_CB: usize = 2; const F_ADD: usize = 3; const F_AIN: usize = 4;
const F_VIA: usize = 5; const F_SH: usize = 6; const F_MUL: usize = 7; const F_BIN: usize = 8;
const EXE: usize = 0; const LIBA: usize = 1; const LIBB: usize = 2; const VDSO: usize = 99;

pub struct Obj { pub id: usize, pub path: PathBuf, pub vaddr0: u64, pub parse: bool, pub text: Vec<(u64, u64, u64)>, pub file: Vec<u8> }
pub struct Place { pub obj: usize, pub gaddr: u64, pub lo: u64, pub hi: u64 }
pub struct Facts {
    pub prog: String, pub mode: String, pub objs: Vec<Obj>, pub fns: Vec<Vec<Place>>, pub entry: u64, pub interp: bool,
    pub ldd: Vec<usize>, pub rbrk: Option<(usize, u64)>,
}

fn sh_out(cmd: &str, args: &[&str]) -> String {
    Command::new(cmd).args(args).output().map(|o| String::from_utf8_lossy(&o.stdout).to_string()).unwrap_or_default()
}

fn canon(p: &str) -> PathBuf { std::fs::canonicalize(p).unwrap_or_else(|_| PathBuf::from(p)) }

/// (page-aligned p_vaddr of the first PT_LOAD, has PT_INTERP, entry) from `readelf -lW`
fn readelf_facts(path: &Path) -> (u64, bool, u64) {
    let out = sh_out("readelf", &["-lW", path.to_str().unwrap()]);
    let mut vaddr0 = None; let mut interp = false; let mut entry = 0;
    for l in out.lines() {
        let t: Vec<&str> = l.split_whitespace().collect();
        if t.first() == Some(&"LOAD") && vaddr0.is_none() {
            vaddr0 = u64::from_str_radix(t[2].trim_start_matches("0x"), 16).ok().map(|v| v & !0xfff);
        }
        if t.first() == Some(&"INTERP") { interp = true; }
        if l.starts_with("Entry point") { entry = u64::from_str_radix(t[2].trim_start_matches("0x"), 16).unwrap_or(0); }
    }
    (vaddr0.unwrap_or(0), interp, entry)
}

/// (address, size, name) of the defined function symbols, from `nm`
fn nm_syms(path: &Path, dynamic: bool) -> Vec<(u64, u64, String)> {
    let p = path.to_str().unwrap();
    let out = if dynamic { sh_out("nm", &["-D", "--defined-only", "-S", p]) } else { sh_out("nm", &["--defined-only", "-S", p]) };
    out.lines().filter_map(|l| {
        let t: Vec<&str> = l.split_whitespace().collect();
        if t.len() == 4 && (t[2] == "T" || t[2] == "t" || t[2] == "W") {
            Some((u64::from_str_radix(t[0], 16).ok()?, u64::from_str_radix(t[1], 16).ok()?, t[3].to_string()))
        } else if t.len() == 3 && (t[1] == "T" || t[1] == "t") {
            Some((u64::from_str_radix(t[0], 16).ok()?, 0, t[2].to_string()))
        } else { None }
    }).collect()
}

fn sym_is(sym: &str, f: &str) -> bool { sym == f || sym.contains(&format!("{}{}17h", f.len(), f)) }

fn text_sections(file: &[u8]) -> Vec<(u64, u64, u64)> {
    use object::{Object, ObjectSection};
    let Ok(obj) = object::File::parse(file) else { return vec![] };
    obj.sections().filter(|s| s.kind() == object::SectionKind::Text).filter_map(|s| s.file_range().map(|(off, size)| (s.address(), size, off))).collect()
}

static CACHE: Mutex<BTreeMap<String, Arc<Facts>>> = Mutex::new(BTreeMap::new());
static PLACES: Mutex<BTreeMap<PathBuf, Arc<Vec<Vec<(u64, u64, u64)>>>>> = Mutex::new(BTreeMap::new());

/// facts are computed once per process tree: the parent fills the cache before it forks the workers
pub fn facts(prog: &str) -> Arc<Facts> {
    if let Some(f) = CACHE.lock().unwrap().get(prog) { return f.clone(); }
    let f = Arc::new(facts_uncached(prog));
    CACHE.lock().unwrap().insert(prog.to_string(), f.clone());
    f
}

/// per object: for each function of FNS the (place, symbol start, symbol end) triples
fn places_of(path: &Path) -> Arc<Vec<Vec<(u64, u64, u64)>>> {
    if let Some(p) = PLACES.lock().unwrap().get(path) { return p.clone(); }
    let syms = nm_syms(path, false);
    let rows = dwline::line_rows(path).unwrap_or_default();
    let mut v: Vec<Vec<(u64, u64, u64)>> = FNS.iter().map(|_| vec![]).collect();
    for (fi, f) in FNS.iter().enumerate() {
        for (a, s, _) in syms.iter().filter(|(_, _, n)| sym_is(n, f)) {
            let place = rows.iter().filter(|r| r.prologue_end && !r.end_sequence && r.addr >= *a && r.addr < a + s).map(|r| r.addr).min();
            if let Some(g) = place { v[fi].push((g, *a, a + s)); }
        }
    }
    let v = Arc::new(v);
    PLACES.lock().unwrap().insert(path.to_path_buf(), v.clone());
    v
}

fn facts_uncached(prog: &str) -> Facts {
    let root = verif_root().join("progs");
    let mode = PROGS.iter().find(|p| p.0 == prog).map(|p| p.1).unwrap_or("plain").to_string();
    let exe = canon(root.join(prog).to_str().unwrap());
    let mut paths: Vec<(usize, PathBuf, bool)> = vec![(EXE, exe.clone(), true), (LIBA, canon(root.join("libc18a.so").to_str().unwrap()), true),
                                                       (LIBB, canon(root.join("libc18b.so").to_str().unwrap()), true)];
    // ldd (the same tool the debugger consults before the program runs): dependency paths
    let lddo = sh_out("ldd", &[exe.to_str().unwrap()]);
    let mut sys: BTreeSet<PathBuf> = BTreeSet::new();
    let mut ldd_paths: Vec<PathBuf> = vec![];
    let mut ldd_vdso = false;
    for l in lddo.lines() {
        let s = l.trim().split("=>").last().and_then(|s| s.split_whitespace().next()).unwrap_or("");
        if s.contains("vdso") { ldd_vdso = true; continue; }
        if s.starts_with('/') { let c = canon(s); ldd_paths.push(c.clone()); if !paths.iter().any(|p| p.1 == c) { sys.insert(c); } }
    }
    for (i, p) in sys.iter().enumerate() { paths.push((3 + i, p.clone(), true)); }
    let _ = ldd_vdso;
    let mut objs = vec![];
    let mut entry = 0; let mut interp = false;
    for (id, p, parse) in &paths {
        let (v0, it, en) = readelf_facts(p);
        if *id == EXE { entry = en; interp = it; }
        let file = std::fs::read(p).unwrap_or_default();
        let text = text_sections(&file);
        objs.push(Obj { id: *id, path: p.clone(), vaddr0: v0, parse: *parse, text, file });
    }
    objs.push(Obj { id: VDSO, path: PathBuf::from("linux-vdso.so.1"), vaddr0: 0, parse: false, text: vec![], file: vec![] });
    let ldd: Vec<usize> = ldd_paths.iter().filter_map(|p| objs.iter().find(|o| &o.path == p).map(|o| o.id)).collect();
    // function places: first prologue_end row inside the symbol (llvm-dwarfdump), symbol range from nm
    let mut fns: Vec<Vec<Place>> = FNS.iter().map(|_| vec![]).collect();
    for o in objs.iter().filter(|o| o.id <= LIBB) {
        let pl = places_of(&o.path);
        for fi in 0..FNS.len() { for (g, lo, hi) in &pl[fi] { fns[fi].push(Place { obj: o.id, gaddr: *g, lo: *lo, hi: *hi }); } }
    }
    // r_brk = _dl_debug_state of the dynamic loader
    let mut rbrk = None;
    if interp {
        if let Some(ld) = objs.iter().find(|o| o.path.to_string_lossy().contains("ld-linux")) {
            let mut syms = nm_syms(&ld.path, true);
            syms.extend(nm_syms(&ld.path, false));
            if let Some((a, _, _)) = syms.iter().find(|(_, _, n)| n.split('@').next() == Some("_dl_debug_state")) { rbrk = Some((ld.id, *a)); }
        }
    }
    Facts { prog: prog.to_string(), mode, objs, fns, entry, interp, ldd, rbrk }
}

impl Facts {
    fn obj(&self, id: usize) -> Option<&Obj> { self.objs.iter().find(|o| o.id == id) }
    fn place(&self, f: usize, obj: usize) -> Option<&Place> { self.fns[f].iter().find(|p| p.obj == obj) }
}

/// script -> abstract program (the ground truth of progs-src/c18_main.rs)
pub fn ops_of(mode: &str, script: &str) -> Vec<String> {
    let v = |o: usize, f: usize| format!("V{o}:{f}");
    let mut ops = vec![];
    match mode {
        "plain" => { ops = vec![v(EXE, F_MARK), v(EXE, F_OWN), v(EXE, F_MARK), v(EXE, F_CB), v(EXE, F_OWN), v(EXE, F_MARK)]; }
        "startup" => {
            ops = vec![v(EXE, F_MARK), v(LIBA, F_ADD), v(LIBA, F_AIN), v(EXE, F_MARK), v(LIBA, F_VIA), v(EXE, F_CB), v(EXE, F_OWN), v(EXE, F_MARK),
                       v(LIBA, F_SH), v(EXE, F_MARK), v(EXE, F_OWN), v(EXE, F_MARK)];
        }
        "startup2" => {
            ops = vec![v(EXE, F_MARK), v(LIBA, F_ADD), v(LIBA, F_AIN), v(EXE, F_MARK), v(LIBB, F_MUL), v(LIBB, F_BIN), v(EXE, F_MARK)];
        }
        _ => {
            let (mut ha, mut hb) = (0u32, 0u32);
            for c in script.chars() {
                match c {
                    'A' => { ha += 1; ops.push(format!("L{LIBA}")); }
                    'B' => { hb += 1; ops.push(format!("L{LIBB}")); }
                    'a' => if ha > 0 { ha -= 1; ops.push(format!("U{LIBA}")); },
                    'b' => if hb > 0 { hb -= 1; ops.push(format!("U{LIBB}")); },
                    '1' => if ha > 0 { ops.push(v(LIBA, F_ADD)); ops.push(v(LIBA, F_AIN)); },
                    '2' => if hb > 0 { ops.push(v(LIBB, F_MUL)); ops.push(v(LIBB, F_BIN)); },
                    '3' => if ha > 0 { ops.push(v(LIBA, F_SH)); },
                    '4' => if hb > 0 { ops.push(v(LIBB, F_SH)); },
                    '5' => if ha > 0 { ops.push(v(LIBA, F_VIA)); ops.push(v(EXE, F_CB)); ops.push(v(EXE, F_OWN)); },
                    '.' => ops.push(v(EXE, F_MARK)),
                    _ => {}
                }
            }
        }
    }
    ops
}

/// native run: (exit code, stdout)
fn native(prog: &str, script: &str) -> (i32, Vec<u8>) {
    let p = verif_root().join("progs").join(prog);
    let mut c = Command::new(&p);
    if !script.is_empty() && script != "-" { c.arg(script); }
    match c.output() { Ok(o) => (o.status.code().unwrap_or(-1), o.stdout), Err(_) => (-1, vec![]) }
}

pub fn header(f: &Facts, script: &str) -> Vec<String> {
    let (code, _) = native(&f.prog, script);
    let mut v = vec![format!("C18 new {} {} {:x} {} {} {} {} {}", f.prog, enc_str(script), f.entry, f.interp as u8, code,
        enc_list(&f.ldd, |i| i.to_string()), f.rbrk.map(|(o, a)| format!("{o}:{a:x}")).unwrap_or("-".into()),
        enc_list(&ops_of(&f.mode, script), |s| s.clone()))];
    for o in &f.objs { v.push(format!("C18 obj {} {:x} {} {}", o.id, o.vaddr0, o.parse as u8, enc_str(&o.path.to_string_lossy()))); }
    for (i, ps) in f.fns.iter().enumerate() { v.push(format!("C18 fn {} {}", i, enc_list(ps, |p| format!("{}:{:x}", p.obj, p.gaddr)))); }
    v
}

fn gen_script(rng: &mut Rng) -> String {
    let mut s = String::new();
    if rng.chance(1, 2) { s.push('.'); }
    let n = rng.range(3, 9);
    let (mut ha, mut hb) = (0, 0);
    for _ in 0..n {
        match rng.below(12) {
            0 | 1 => { s.push('A'); ha += 1; s.push('.'); }
            2 => { s.push('B'); hb += 1; s.push('.'); }
            3 | 4 => { if ha > 0 { s.push('a'); ha -= 1; s.push('.'); } else { s.push('A'); ha += 1; s.push('.'); } }
            5 => { if hb > 0 { s.push('b'); hb -= 1; s.push('.'); } else { s.push('B'); hb += 1; s.push('.'); } }
            6 | 7 => s.push('1'),
            8 => s.push('2'),
            9 => s.push(if rng.chance(1, 2) { '3' } else { '4' }),
            10 => s.push('5'),
            _ => s.push('.'),
        }
    }
    if !s.ends_with('.') { s.push('.'); }
    s
}

pub fn gen_requests(rng: &mut Rng, n: u64, out: &mut Out) -> Vec<String> {
    let mut req = vec![];
    let total: u64 = PROGS.iter().map(|p| p.2).sum();

    for si in 0..n {
        // the first sessions walk through all link modes once, the rest is weighted
        const WALK: &[usize] = &[0, 1, 2, 4, 6, 7, 7, 8];   // pie, nopie, staticpie, startup, startup2, dl, dl, dl_nopie
        let (prog, mode) = if (si as usize) < WALK.len() { (PROGS[WALK[si as usize]].0, PROGS[WALK[si as usize]].1) } else {
            let mut k = rng.below(total); let mut c = PROGS[0];
            for p in PROGS { if k < p.2 { c = *p; break; } k -= p.2; }
            (c.0, c.1)
        };
        let f = facts(prog);
        let script = if mode == "dl" { gen_script(rng) } else { "-".to_string() };
        out.count(&format!("mode.{prog}"), 1);
        req.extend(header(&f, &script));
        let cands: Vec<usize> = match mode { "plain" => vec![F_OWN, F_CB], "startup" => vec![F_OWN, F_CB, F_ADD, F_AIN, F_VIA, F_SH],
                                             "startup2" => vec![F_ADD, F_MUL, F_AIN, F_BIN, F_ADD, F_MUL],
                                             _ => vec![F_OWN, F_CB, F_ADD, F_AIN, F_VIA, F_SH, F_SH, F_MUL, F_BIN] };
        req.push(format!("C18 req {F_MARK}"));
        for _ in 0..rng.below(3) {
            let fi = *rng.pick(&cands);
            if rng.chance(1, 5) { req.push(format!("C18 break {fi}")); out.count("timing.break_before_start", 1); }
            else { req.push(format!("C18 req {fi}")); out.count("timing.request_before_start", 1); }
        }
        if rng.chance(1, 4) { let fi = *rng.pick(&[F_OWN, F_CB]); req.push(format!("C18 breakat {fi} {EXE}")); out.count("timing.break_by_address_before_start", 1); }
        if rng.chance(1, 15) { req.push("C18 continue -".into()); out.count("op.continue_before_start", 1); }
        req.push("C18 start -".into());
        let steps = if mode == "dl" { rng.range(4, 16) } else { rng.range(3, 9) };
        for _ in 0..steps {
            match rng.below(10) {
                0 | 1 => { let fi = *rng.pick(&cands); req.push(format!("C18 req {fi}")); out.count("timing.request_after_start", 1); }
                2 => { let fi = *rng.pick(&cands); req.push(format!("C18 break {fi}")); out.count("timing.break_after_start", 1); }
                3 => {
                    let fi = *rng.pick(&cands);
                    let objs: Vec<usize> = f.fns[fi].iter().map(|p| p.obj).collect();
                    if let Some(o) = objs.get(rng.below(objs.len() as u64) as usize) { req.push(format!("C18 breakat {fi} {o}")); out.count("timing.break_by_address", 1); }
                }
                _ => { req.push("C18 continue -".into()); out.count("op.continue", 1); }
            }
        }
    }
    req
}

// ------------------------------------------------------------------------------------------------ worker side

struct LiveS { dbg: Debugger, output: Arc<Mutex<Vec<u8>>>, reader: Option<std::thread::JoinHandle<()>> }

fn launch(path: &Path, args: &[String]) -> anyhow::Result<LiveS> {
    let (reader, writer) = os_pipe::pipe()?;
    let output = Arc::new(Mutex::new(Vec::new()));
    let o2 = output.clone();
    let handle = std::thread::spawn(move || {
        let mut r = std::io::BufReader::new(reader);
        let mut buf = [0u8; 4096];
        loop { match r.read(&mut buf) { Ok(0) | Err(_) => return, Ok(n) => o2.lock().unwrap().extend_from_slice(&buf[..n]) } }
    });
    rust::Environment::init(None);
    let runner = Child::new(path.to_str().unwrap(), args.to_vec(), None::<&Path>, writer.try_clone()?, writer);
    let process = runner.install()?;
    let dbg = DebuggerBuilder::<NopHook>::new().build(process)?;
    Ok(LiveS { dbg, output, reader: Some(handle) })
}

/// maps of the universe: (obj, lo, hi)
fn uni_maps(f: &Facts, pid: i32) -> Vec<(usize, u64, u64)> {
    let mut v = vec![];
    for (a, b, _perms, path) in proc_maps(pid) {
        if path.is_empty() || path.starts_with('[') { continue; }
        let p = path.trim_end_matches(" (deleted)");
        if let Some(o) = f.objs.iter().find(|o| o.path == Path::new(p)) { v.push((o.id, a, b)); }
    }
    v
}

fn lowest(maps: &[(usize, u64, u64)], obj: usize) -> Option<u64> { maps.iter().filter(|m| m.0 == obj).map(|m| m.1).min() }
fn highest_end(maps: &[(usize, u64, u64)], obj: usize) -> Option<u64> { maps.iter().filter(|m| m.0 == obj).map(|m| m.2).max() }
/// the real load bias: where the loader put the object minus where the file says it starts
fn bias(f: &Facts, maps: &[(usize, u64, u64)], obj: usize) -> Option<u64> { Some(lowest(maps, obj)? - f.obj(obj)?.vaddr0) }

/// INT3 bytes really present in the text of the mapped universe objects (runtime addresses); other differences from the file
fn int3_set(f: &Facts, pid: i32, maps: &[(usize, u64, u64)]) -> (Vec<u64>, Vec<(u64, u8, u8)>) {
    let mut cc = vec![]; let mut other = vec![];
    // breakpoints only ever go into the executable, the two libraries and the loader (`r_brk`)
    let ld = f.rbrk.map(|r| r.0);
    let objs: BTreeSet<usize> = maps.iter().map(|m| m.0).filter(|o| *o <= LIBB || Some(*o) == ld).collect();
    for id in objs {
        let Some(o) = f.obj(id) else { continue };
        let Some(b) = bias(f, maps, id) else { continue };
        for (addr, size, off) in &o.text {
            let Some(live) = proc_mem(pid, b + addr, *size as usize) else { continue };
            let file = &o.file[*off as usize..(*off + *size) as usize];
            for (i, (x, y)) in file.iter().zip(live.iter()).enumerate() {
                if x != y { if *y == 0xCC { cc.push(b + addr + i as u64); } else { other.push((b + addr + i as u64, *x, *y)); } }
            }
        }
    }
    cc.sort();
    (cc, other)
}

fn libs_of(f: &Facts, dbg: &Debugger) -> Vec<(String, Option<(u64, u64)>)> {
    let mut v: Vec<(String, Option<(u64, u64)>)> = dbg.shared_libs().into_iter().map(|r| {
        let c = canon(&r.path.to_string_lossy());
        let id = f.objs.iter().find(|o| o.path == c).map(|o| o.id.to_string()).unwrap_or_else(|| format!("?{}", enc_str(&r.path.to_string_lossy())));
        (id, r.range.map(|x| (x.from.as_usize() as u64, x.to.as_usize() as u64)))
    }).collect();
    v.sort_by_key(|x| x.0.parse::<usize>().unwrap_or(1000));
    v
}

fn bps_of(dbg: &Debugger) -> Vec<String> {
    let mut v: Vec<(u8, usize)> = dbg.breakpoints_snapshot().iter().map(|b| match b.addr {
        Address::Global(g) => (0u8, usize::from(g)), Address::Relocated(r) => (1u8, r.as_usize()) }).collect();
    v.sort();
    v.into_iter().map(|(k, a)| format!("{}{a:x}", if k == 0 { 'g' } else { 'r' })).collect()
}

fn scalar_arg(dbg: &Debugger, name: &str) -> Option<String> {
    let r = dbg.read_argument(Dqe::Variable(Selector::by_name(name, false))).ok()?;
    match r.first()?.value() { Value::Scalar(s) => s.value.as_ref().map(|x| x.to_string()), _ => None }
}

#[derive(Clone, Debug)]
enum Op { L(usize), U(usize), V(usize, usize) }
fn parse_ops(tok: &str) -> Vec<Op> {
    dec_list(tok, |s| {
        if let Some(r) = s.strip_prefix('L') { Op::L(r.parse().unwrap()) }
        else if let Some(r) = s.strip_prefix('U') { Op::U(r.parse().unwrap()) }
        else { let (o, f) = s[1..].split_once(':').unwrap(); Op::V(o.parse().unwrap(), f.parse().unwrap()) }
    })
}

fn session(lines: &[String], emit: &mut dyn FnMut(String)) {
    let t0: Vec<&str> = lines[0].split(' ').collect();
    if t0.len() < 4 || !PROGS.iter().any(|p| p.0 == t0[2]) || !t0[3].starts_with('x') { emit(format!("R {}", lines[0])); emit("A bad-op".into()); return; }
    let prog = t0[2];
    let script = dec_str(t0[3]);
    let f = facts(prog);
    // the facts shipped to the model are always those of the binaries on disk NOW: the header (`new` parameters, `obj`
    // and `fn` lines) is regenerated, whatever the request file says (replay files stay valid across rebuilds / checkouts)
    let hdr = header(&f, &script);
    let t: Vec<&str> = hdr[0].split(' ').collect();
    let nh = lines.iter().take_while(|l| l.starts_with("C18 new ") || l.starts_with("C18 obj ") || l.starts_with("C18 fn ")).count();
    let ops = parse_ops(t[9]);
    let exit_code: i32 = t[6].parse().unwrap_or(0);
    let args: Vec<String> = if script == "-" { vec![] } else { vec![script.clone()] };
    let mut live = match launch(&f.objs[0].path, &args) { Ok(l) => l, Err(e) => { emit(format!("A launch-failed {e}")); return; } };
    for l in &hdr { emit(format!("R {l}")); emit("A ok".into()); }
    ipose::enable();
    let nonpie = f.objs[0].vaddr0 != 0;
    // ---------------- specification state (oracle): which (object, function) pairs must stop
    let mut livefn: BTreeSet<(usize, usize)> = BTreeSet::new();
    let mut pending: BTreeSet<usize> = BTreeSet::new();
    let mut pos: usize = 0;                          // next op to execute
    let mut loaded: BTreeMap<usize, u32> = BTreeMap::new();   // dlopen reference counts
    let mut reloaded_since: BTreeSet<usize> = BTreeSet::new(); // libraries unloaded at least once after a breakpoint was put in them
    let mut started = false; let mut exited = false; let mut broken: Option<String> = None;
    let startup_objs: Vec<usize> = std::iter::once(EXE).chain(f.ldd.iter().copied()).collect();
    let mut last_maps: Vec<(usize, u64, u64)> = vec![];
    let mut uninit_keys: BTreeMap<u64, (usize, usize)> = BTreeMap::new();   // spec view of requests made while not running
    let mut shadowed: BTreeSet<(usize, usize)> = BTreeSet::new();
    let mut collision_at_exit = false;
    let mut pending_rel: Vec<(usize, usize, u64)> = vec![];
    let mut stale_addrs: BTreeSet<u64> = BTreeSet::new();
    let mut stale_at_exit = false; let mut n_user_running = 0usize; let mut exit_checked = false;
    let ofail = |emit: &mut dyn FnMut(String), key: &str, what: String| {
        emit(format!("!oracle {}", json!({"key": key, "what": what, "replay": {"prog": prog, "script": script}})));
    };
    for line in &lines[nh..] {
        let t: Vec<&str> = line.split(' ').collect();
        ipose::take();
        let mut rewritten = line.clone();
        let pid = live.dbg.process().pid().as_raw();
        let present = |o: usize, started: bool, loaded: &BTreeMap<usize, u32>| -> bool {
            if !started { startup_objs.contains(&o) } else { o == EXE || startup_objs.contains(&o) || loaded.get(&o).copied().unwrap_or(0) > 0 }
        };
        let outcome: String = match t.as_slice() {
            ["C18", c @ ("req" | "break"), fi] => {
                let fi: usize = fi.parse().unwrap_or(usize::MAX);
                if fi >= FNS.len() { "bad-op".into() } else {
                    let r = live.dbg.set_breakpoint_at_fn(FNS[fi]).map(|v| v.len());
                    let a = match r {
                        Ok(_) => if started && !exited { "active" } else { "uninit" },
                        Err(bugstalker::debugger::Error::NoSuitablePlace) => {
                            if *c == "req" { live.dbg.add_deferred_at_function(FNS[fi]); "deferred" } else { "nosuit" }
                        }
                        Err(_) => "err",
                    };
                    // specification: the request covers the function in every object present now; otherwise it waits
                    let here: Vec<usize> = f.fns[fi].iter().map(|p| p.obj).filter(|o| present(*o, started, &loaded)).collect();
                    if !exited {
                        if !(started && !exited) && r.is_ok() {
                            // the request is stored by ELF address only: remember which earlier request of another object it meets there
                            for o in &here { if let Some(pl) = f.place(fi, *o) {
                                if let Some((o0, f0)) = uninit_keys.get(&pl.gaddr).copied() && o0 != *o { shadowed.insert((o0, f0)); }
                                uninit_keys.insert(pl.gaddr, (*o, fi));
                            } }
                        }
                        if !here.is_empty() { for o in here { livefn.insert((o, fi)); } } else if *c == "req" { pending.insert(fi); }
                    }
                    a.to_string()
                }
            }
            ["C18", "breakat", fi, o] => {
                let fi: usize = fi.parse().unwrap_or(usize::MAX); let o: usize = o.parse().unwrap_or(usize::MAX);
                match (f.fns.get(fi).and_then(|_| f.place(fi, o)), bias(&f, &last_maps, o)) {
                    (Some(p), Some(b)) if started && !exited => {
                        let r = live.dbg.set_breakpoint_at_addr(RelocatedAddress::from((b + p.gaddr) as usize)).map(|_| ());
                        rewritten = format!("C18 breakat {fi} {o} {:x}", b + p.gaddr);
                        if r.is_ok() { livefn.insert((o, fi)); "active".into() } else {
                            if broken.is_none() {
                                let key = if nonpie { "non-pie-executable-wrong-load-offset" } else { "breakpoint-by-address-refused" };
                                ofail(emit, key, format!("`break {:#x}` (= {} of object {o}, mapped) is refused", b + p.gaddr, FNS[fi]));
                            }
                            "err".into()
                        }
                    }
                    (Some(p), _) if !started && o == EXE && f.interp && f.objs[0].vaddr0 == 0 => {
                        // with ASLR off (the debugger switches it off) a dynamic PIE executable is loaded at 0x555555554000
                        let a = 0x5555_5555_4000u64 + p.gaddr;
                        let r = live.dbg.set_breakpoint_at_addr(RelocatedAddress::from(a as usize)).map(|_| ());
                        rewritten = format!("C18 breakat {fi} {o} {a:x}");
                        if r.is_ok() { pending_rel.push((o, fi, a)); "uninit".into() } else { "err".into() }
                    }
                    _ => { rewritten = format!("C18 breakat {fi} {o} -"); "skip".into() }
                }
            }
            ["C18", c @ ("start" | "continue"), _] => {
                let r = if *c == "start" { live.dbg.start_debugee_with_reason() } else { live.dbg.continue_debugee_with_reason() };
                let legal = if *c == "start" { !started } else { started && !exited };
                if *c == "start" && !started { started = true; for o in &startup_objs { loaded.entry(*o).or_insert(1); } }
                let pid = live.dbg.process().pid().as_raw();
                let maps = uni_maps(&f, pid);
                rewritten = format!("C18 {c} {}", enc_list(&maps, |m| format!("{}:{:x}:{:x}", m.0, m.1, m.2)));
                let ans = match &r {
                    Ok(StopReason::Breakpoint(_, pc)) => format!("stop {:x}", pc.as_usize()),
                    Ok(StopReason::DebugeeExit(code)) => format!("exit {code}"),
                    Ok(other) => format!("other {other:?}").replace(' ', "_"),
                    Err(_) => "err".into(),
                };
                // requests by runtime address made before the start count once the address proves to be the function's place
                if *c == "start" { for (o, fi, a) in pending_rel.drain(..) { if let (Some(b), Some(pl)) = (bias(&f, &maps, o), f.place(fi, o)) && b + pl.gaddr == a { livefn.insert((o, fi)); } } }
                // ---------------- oracle: the specification's next stop
                if legal && broken.is_none() {
                    // walk the abstract program from `pos` to the first place that must stop
                    let mut p = pos; let mut ld = loaded.clone(); let mut lv = livefn.clone(); let mut pd = pending.clone();
                    let mut want: Option<(usize, usize, usize)> = None;   // (op index, obj, fn)
                    while p < ops.len() {
                        match ops[p] {
                            Op::L(o) => {
                                let c = ld.entry(o).or_insert(0); *c += 1;
                                if *c == 1 {
                                    let now: Vec<usize> = pd.iter().copied().filter(|fi| f.fns[*fi].iter().any(|pl| pl.obj == o)).collect();
                                    for fi in now { pd.remove(&fi); for pl in &f.fns[fi] { if ld.get(&pl.obj).copied().unwrap_or(0) > 0 || pl.obj == EXE { lv.insert((pl.obj, fi)); } } }
                                }
                            }
                            Op::U(o) => { if let Some(c) = ld.get_mut(&o) && *c > 0 { *c -= 1; } }
                            Op::V(o, fi) => { if lv.contains(&(o, fi)) { want = Some((p, o, fi)); break; } }
                        }
                        p += 1;
                    }
                    let want_s = match want { Some((_, o, fi)) => format!("stop at {} of object {o}", FNS[fi]), None => format!("exit {exit_code}") };
                    // where the debugger really is: map the reported pc back to (object, function)
                    let got: Option<(usize, usize)> = match &r {
                        Ok(StopReason::Breakpoint(_, pc)) => {
                            let a = pc.as_usize() as u64;
                            f.fns.iter().enumerate().find_map(|(fi, ps)| ps.iter().find(|pl| bias(&f, &maps, pl.obj).map(|b| b + pl.gaddr) == Some(a)).map(|pl| (pl.obj, fi)))
                        }
                        _ => None,
                    };
                    let ok = match (&want, &r) {
                        (Some((_, o, fi)), Ok(StopReason::Breakpoint(..))) => got == Some((*o, *fi)),
                        (None, Ok(StopReason::DebugeeExit(code))) => *code == exit_code,
                        _ => false,
                    };
                    if ok {
                        // commit the walk
                        match want { Some((p, _, _)) => { pos = p + 1; } None => { pos = ops.len(); exited = true; } }
                        // replay L/U effects up to the new position
                        loaded = ld; livefn = lv; pending = pd;
                        if want.is_none() { exited = true; }
                    } else {
                        let key = if r.is_err() && *c == "start" && nonpie { "non-pie-executable-wrong-load-offset" }
                            else if r.is_err() && *c == "start" && !f.interp { "static-executable-start-fails-without-rendezvous" }
                            else if let Some((_, o, fi)) = want && shadowed.contains(&(o, fi)) { "equal-elf-address-in-two-objects-request-replaced" }
                            else if let Some((_, o, _)) = want && reloaded_since.contains(&o) { "library-breakpoint-lost-after-dlclose-dlopen" }
                            else { "stop-differs-from-specification" };
                        ofail(emit, key, format!("{line}: debugger answered `{ans}`, the program's execution and the requests made say `{want_s}` (program {prog}, script {script}, op {pos})"));
                        broken = Some(key.to_string());
                    }
                } else if !legal && ans != "err" {
                    ofail(emit, "run-command-accepted-in-wrong-state", format!("{line} answered {ans}"));
                }
                if matches!(r, Ok(StopReason::DebugeeExit(_))) { exited = true; }
                // libraries unloaded in this segment lose their mapping: remember for the classification above
                {
                    let before: BTreeSet<usize> = last_maps.iter().map(|m| m.0).collect();
                    let after: BTreeSet<usize> = maps.iter().map(|m| m.0).collect();
                    for o in before.difference(&after) { if livefn.iter().any(|(lo, _)| lo == o) { reloaded_since.insert(*o); } }
                }
                if !exited && !maps.is_empty() { last_maps = maps.clone(); }
                // ---------------- oracles on the stopped process
                if let Ok(StopReason::Breakpoint(tid, pc)) = &r {
                    let a = pc.as_usize() as u64;
                    // (1) sharedlib list = mapped objects, with their real extent
                    let libs = libs_of(&f, &live.dbg);
                    let mapped: BTreeSet<usize> = maps.iter().map(|m| m.0).collect();
                    let listed: BTreeMap<String, Option<(u64, u64)>> = libs.iter().cloned().collect();
                    let mut bad = vec![];
                    for o in &mapped {
                        match listed.get(&o.to_string()) {
                            Some(Some((lo, hi))) => if Some(*lo) != lowest(&maps, *o) || Some(*hi) != highest_end(&maps, *o) { bad.push(format!("object {o}: listed {lo:x}-{hi:x}, mapped {:x}-{:x}", lowest(&maps, *o).unwrap(), highest_end(&maps, *o).unwrap())); },
                            Some(None) => bad.push(format!("object {o} is mapped but listed without a range")),
                            None => bad.push(format!("object {o} is mapped but not listed")),
                        }
                    }
                    for (id, r) in &listed { if r.is_some() && !id.parse::<usize>().map(|i| mapped.contains(&i)).unwrap_or(false) { bad.push(format!("object {id} is listed with a range but not mapped")); } }
                    if !bad.is_empty() { ofail(emit, "sharedlib-list-differs-from-proc-maps", format!("after `{line}`: {}", bad.join("; "))); }
                    // (2) every active user breakpoint sits inside the function it was requested for, at the loaded place
                    for b in live.dbg.breakpoints_snapshot() {
                        if let Address::Relocated(ra) = b.addr {
                            let ra = ra.as_usize() as u64;
                            let inside = f.fns.iter().flatten().any(|pl| bias(&f, &maps, pl.obj).map(|bb| ra >= bb + pl.lo && ra < bb + pl.hi).unwrap_or(false));
                            let stale = !maps.iter().any(|m| ra >= m.1 && ra < m.2);
                            if stale { stale_addrs.insert(ra); }
                            if !inside && !stale {
                                // a breakpoint of an unloaded library that is still listed, at an address that now belongs to ANOTHER object
                                let key = if stale_addrs.contains(&ra) { "stale-library-breakpoint-listed-inside-another-object" } else { "breakpoint-address-outside-requested-function" };
                                ofail(emit, key, format!("breakpoint #{} at {ra:x} is in no requested function of a mapped object", b.number));
                            }
                        }
                    }
                    // (3) backtrace through the library frame, arguments read in library frames
                    // (only while the session follows the specification: afterwards the position in the program is unknown)
                    if broken.is_none() && let Some((o, fi)) = f.fns.iter().enumerate().find_map(|(fi, ps)| ps.iter().find(|pl| bias(&f, &maps, pl.obj).map(|b| b + pl.gaddr) == Some(a)).map(|pl| (pl.obj, fi))) {
                        let (names, ips): (Vec<String>, Vec<u64>) = live.dbg.backtrace(*tid).map(|bt| (bt.iter().map(|fr| fr.func_name.clone().unwrap_or_default()).collect(), bt.iter().map(|fr| fr.ip.as_usize() as u64).collect())).unwrap_or_default();
                        let has = |n: &str| names.iter().position(|x| x.ends_with(n));
                        let via_on_stack = pos >= 2 && matches!(ops.get(pos.wrapping_sub(2)), Some(Op::V(_, F_VIA))) && fi == F_CB;
                        if fi == F_CB && via_on_stack {
                            let ok = match (has("c18_callback"), has("c18a_via"), has("::run"), has("::main")) {
                                (Some(0), Some(1), Some(2), Some(3)) => {
                                    f.place(F_VIA, LIBA).and_then(|pl| bias(&f, &maps, LIBA).map(|b| ips[1] >= b + pl.lo && ips[1] < b + pl.hi)).unwrap_or(false)
                                }
                                _ => false,
                            };
                            if !ok { ofail(emit, "backtrace-through-library-frame-wrong", format!("in c18_callback called from c18a_via: frames {:?}", &names[..names.len().min(6)])); }
                        } else if names.first().map(|n| n.ends_with(FNS[fi])) != Some(true) || has("::main").is_none() {
                            ofail(emit, "backtrace-wrong", format!("at {} of object {o}: frames {:?}", FNS[fi], &names[..names.len().min(6)]));
                        }
                        let want_args: &[(&str, &str)] = match fi { F_ADD => &[("a", "2"), ("b", "3")], F_MUL => &[("a", "4"), ("b", "5")], F_SH => &[("v", "9")], F_VIA => &[("v", "7")], F_CB => &[("v", "107")], _ => &[] };
                        let want_args: Vec<(&str, &str)> = if fi == F_CB && !via_on_stack && f.mode != "startup" { vec![("v", "6")] } else { want_args.to_vec() };
                        for (n, v) in want_args {
                            let got = scalar_arg(&live.dbg, n);
                            if got.as_deref() != Some(v) { ofail(emit, "argument-read-in-loaded-code-wrong", format!("at {} of object {o}: argument {n} read as {got:?}, the program passes {v}", FNS[fi])); }
                        }
                    }
                }
                ans
            }
            _ => "bad-op".into(),
        };
        // ---------------- observable state after the command
        let alive = started && !exited && std::path::Path::new(&format!("/proc/{pid}/maps")).exists();
        let maps_now = if alive { uni_maps(&f, live.dbg.process().pid().as_raw()) } else { vec![] };
        let (cc, other) = if alive { int3_set(&f, live.dbg.process().pid().as_raw(), &maps_now) } else { (vec![], vec![]) };
        if !other.is_empty() { ofail(emit, "text-differs-from-elf-file-other-than-int3", format!("after `{line}`: {:x?}", &other[..other.len().min(4)])); }
        let bps = bps_of(&live.dbg);
        if started && !exited && !maps_now.is_empty() {
            stale_at_exit = bps.iter().any(|b| b.starts_with('r') && { let a = u64::from_str_radix(&b[1..], 16).unwrap(); !maps_now.iter().any(|m| a >= m.1 && a <= highest_end(&maps_now, m.0).unwrap()) });
        }
        let b_s = if exited && stale_at_exit { "unstable".to_string() } else { enc_list(&bps, |s| s.clone()) };
        let libs = libs_of(&f, &live.dbg);
        let l_s = enc_list(&libs, |(id, r)| match r { Some((a, b)) => format!("{id}:{a:x}:{b:x}"), None => format!("{id}:-") });
        if started && !exited {
            // how many DIFFERENT places (object, ELF address) carry a user breakpoint: an uninit entry and an enabled entry for the
            // same place count once (they merge when the program ends); a stale entry (address not mapped) counts on its own.
            // Two enabled breakpoints of different objects at the same ELF address?
            let mut seen: BTreeMap<u64, usize> = BTreeMap::new();
            let mut places: BTreeSet<(usize, u64)> = BTreeSet::new();
            collision_at_exit = false;
            for b in &bps { if let Some(h) = b.strip_prefix('r') {
                let a = u64::from_str_radix(h, 16).unwrap();
                let mut found = false;
                for o in [EXE, LIBA, LIBB] { if let (Some(bb), Some(lo), Some(hi)) = (bias(&f, &maps_now, o), lowest(&maps_now, o), highest_end(&maps_now, o)) && a >= lo && a < hi {
                    found = true;
                    places.insert((o, a - bb));
                    if let Some(o0) = seen.insert(a - bb, o) && o0 != o { collision_at_exit = true; }
                } }
                if !found { places.insert((usize::MAX, a)); }
            } }
            let extra_g = bps.iter().filter_map(|b| b.strip_prefix('g')).map(|h| u64::from_str_radix(h, 16).unwrap()).filter(|g| !places.iter().any(|(o, pg)| *o != usize::MAX && pg == g)).collect::<BTreeSet<u64>>().len();
            n_user_running = places.len() + extra_g;
        }
        if exited && !exit_checked {
            exit_checked = true;
            // user breakpoints are kept for the next run when the program ends — those of an unloaded library too
            if bps.len() < n_user_running {
                let key = if stale_at_exit { "stale-library-breakpoint-dropped-at-exit" } else if collision_at_exit { "equal-elf-address-in-two-objects-request-replaced" } else { "user-breakpoint-lost-at-exit" };
                ofail(emit, key, format!("{n_user_running} user breakpoints before the program ended, {} after: {:?}", bps.len(), bps));
            }
        }
        emit(format!("R {rewritten}"));
        emit(format!("A {outcome} i={} b={b_s} l={l_s}", enc_list(&cc, |a| format!("{a:x}"))));
    }
    // native output when the session ran to the end
    let LiveS { dbg, output, reader } = live;
    drop(dbg);
    if let Some(h) = reader { let _ = h.join(); }
    if exited && broken.is_none() {
        let got = output.lock().unwrap().clone();
        let (_, want) = native(prog, &script);
        if got != want { ofail(emit, "program-output-differs-from-native-run", format!("got {:?} want {:?}", String::from_utf8_lossy(&got), String::from_utf8_lossy(&want))); }
    }
}

pub fn short(l: &str) -> String { if l.len() > 160 { format!("{}…", &l[..160]) } else { l.to_string() } }

pub fn exec(req: &[String], out: &mut Out, tmpdir: &Path) {
    let mut sessions: Vec<Vec<String>> = vec![];
    for l in req {
        if l.starts_with("C18 new ") || sessions.is_empty() { sessions.push(vec![]); }
        sessions.last_mut().unwrap().push(l.clone());
    }
    let par = par_default().min(4);
    // fill the caches before forking
    for s in &sessions { let t: Vec<&str> = s[0].split(' ').collect(); if t.len() >= 4 && PROGS.iter().any(|p| p.0 == t[2]) { facts(t[2]); } }
    // a session parses the DWARF of the executable, libc and the loader: allow for a loaded machine
    let results = run_sessions(&sessions, tmpdir, "c18", par, session_timeout().max(120), |s, emit| session(s, emit));
    for (i, (s, (lines, how))) in sessions.iter().zip(results).enumerate() {
        let mut reqs: Vec<String> = vec![]; let mut answers: Vec<String> = vec![];
        for l in lines {
            if let Some(j) = l.strip_prefix("!oracle ") {
                let v: serde_json::Value = serde_json::from_str(j).unwrap();
                out.oracle_fail(v["key"].as_str().unwrap(), v["what"].as_str().unwrap(), json!({"session": s.iter().filter(|l| !l.starts_with("C18 obj") && !l.starts_with("C18 fn")).map(|l| short(l)).collect::<Vec<_>>(), "detail": v["replay"]}));
            } else if let Some(r) = l.strip_prefix("R ") { reqs.push(r.to_string()); }
            else if let Some(a) = l.strip_prefix("A ") { answers.push(a.to_string()); }
        }
        out.oracle_evals += answers.len() as u64;
        if how != "ok" {
            out.oracle_fail("debugger-crashed-or-hung", &format!("worker ended with {how} after {} of {} commands", answers.len(), s.len()),
                json!({"session": s.iter().map(|l| short(l)).collect::<Vec<_>>()}));
        }
        if i < 4 { out.sample(json!({"session": reqs.iter().filter(|l| !l.starts_with("C18 obj") && !l.starts_with("C18 fn")).map(|l| short(l)).collect::<Vec<_>>(), "answers": answers.iter().map(|l| short(l)).collect::<Vec<_>>()})); }
        // the worker regenerates the header; commands are answered in order
        let n = reqs.len().min(answers.len());
        for k in 0..n { out.pair(reqs[k].clone(), answers[k].clone()); }
        let cmds: Vec<&String> = s.iter().filter(|l| !(l.starts_with("C18 new ") || l.starts_with("C18 obj ") || l.starts_with("C18 fn "))).collect();
        let nhdr = reqs.iter().take_while(|l| l.starts_with("C18 new ") || l.starts_with("C18 obj ") || l.starts_with("C18 fn ")).count();
        let done = n.saturating_sub(nhdr);
        if n == 0 { out.pair(s[0].clone(), format!("worker-{how}")); }
        for l in cmds.iter().skip(done) { out.pair((*l).clone(), format!("worker-{how}")); }
    }
}

pub fn run(args: &[String]) {
    let a = parse_args(args);
    let mut out = Out::new(&a.out);
    let req = match &a.replay {
        Some(f) => read_lines(f),
        None => { let mut rng = Rng::new(a.seed); gen_requests(&mut rng, a.n, &mut out) }
    };
    exec(&req, &mut out, &a.out);
    out.finish();
}
