//! C15: memory / register access on a LIVE debuggee against the Lean model (K) and against
//! `/proc/<pid>/mem`, raw `PTRACE_GETREGS`, the ELF file and the program's own output (O).
//!
//! Sessions (`C15 new <kind>`):
//!   mem   — debuggee `progs/arena` stopped at its `// BREAK` line; the `new` line shipped to the model carries
//!           the mapping layout of the 10-page window (from /proc/<pid>/maps), its contents (from
//!           /proc/<pid>/mem) and the registers (raw PTRACE_GETREGS); addresses are offsets from the window base.
//!           `read off n` (Debugger::read_memory), `poke off word` (Debugger::write_memory),
//!           `write off hex` (DAP write_bytes), `sum`, `getreg`/`setreg`/`regs`, `finish` (the program's own sums).
//!   dis   — `disasm len offs`: breakpoints at function-relative offsets, then Debugger::disasm().
//!   parse — `parse kind xinput`: DAP parse_set_value (pure, no debuggee).
//! Every debuggee session runs in a forked worker process (the tracer calls waitpid(-1)).
use crate::util::*;
use bugstalker::debugger::address::RelocatedAddress;
use bugstalker::debugger::process::Child;
use bugstalker::debugger::verif::{DapScalarKind, dap_parse_set_value, dap_write_bytes};
use bugstalker::debugger::{Debugger, DebuggerBuilder, NopHook, rust};
use serde_json::{Value, json};
use std::io::{BufRead, BufReader};
use std::os::unix::fs::FileExt;
use std::panic::{AssertUnwindSafe, catch_unwind};
use std::path::{Path, PathBuf};
use std::sync::{Arc, Mutex};

const PAGE: usize = 4096;
const NPAGES: usize = 10;
/// x86-64 `user_regs_struct` field order (what raw PTRACE_GETREGS returns)
const KREGS: [&str; 27] = ["r15", "r14", "r13", "r12", "rbp", "rbx", "r11", "r10", "r9", "r8", "rax", "rcx", "rdx", "rsi", "rdi",
    "orig_rax", "rip", "cs", "eflags", "rsp", "ss", "fs_base", "gs_base", "ds", "es", "fs", "gs"];
const INT_KINDS: [&str; 12] = ["i8", "i16", "i32", "i64", "i128", "isize", "u8", "u16", "u32", "u64", "u128", "usize"];

fn root() -> PathBuf { Path::new(env!("CARGO_MANIFEST_DIR")).parent().unwrap().to_path_buf() }

fn hex(bs: &[u8]) -> String { if bs.is_empty() { "-".into() } else { bs.iter().map(|b| format!("{b:02x}")).collect() } }
fn unhex(s: &str) -> Option<Vec<u8>> {
    if s == "-" { return Some(vec![]); }
    if s.len() % 2 != 0 { return None; }
    (0..s.len() / 2).map(|i| u8::from_str_radix(s.get(2 * i..2 * i + 2)?, 16).ok()).collect()
}

// ------------------------------------------------------------------------------------------------ program facts
struct Func { name: String, addr: u64, size: u64, bytes: Vec<u8>, next_adjacent: bool }
struct Prog { path: PathBuf, break_line: u64, funcs: Vec<Func> }
impl Prog { fn func(&self, name: &str) -> Option<&Func> { self.funcs.iter().find(|f| f.name == name) } }

/// compile the debuggee if needed (parent process only) and read, independently of the debugger,
/// the BREAK line (source text) and the ELF symbol + on-disk bytes of `checkpoint`
fn prog() -> Prog {
    let r = root();
    let st = std::process::Command::new(r.join("tools/build_progs.sh")).status().expect("build_progs.sh");
    assert!(st.success(), "build_progs.sh failed");
    let src = std::fs::read_to_string(r.join("progs-src/arena.rs")).unwrap();
    let break_line = src.lines().position(|l| l.contains("// BREAK")).expect("BREAK marker") as u64 + 1;
    let path = r.join("progs/arena");
    let data = std::fs::read(&path).unwrap();
    use object::{Object, ObjectSection, ObjectSymbol};
    let file = object::File::parse(&*data).unwrap();
    let text = file.section_by_name(".text").unwrap();
    // functions of the `arena` crate by their ELF symbols: checkpoint, pad0..padN
    let mut syms: Vec<(u64, u64, String)> = file.symbols().filter(|s| s.size() > 0 && s.kind() == object::SymbolKind::Text)
        .filter_map(|s| s.name().ok().map(|n| (s.address(), s.size(), n.to_string()))).collect();
    syms.sort(); syms.dedup_by_key(|s| s.0);
    let mut funcs = vec![];
    for (i, (addr, size, mangled)) in syms.iter().enumerate() {
        let Some(rest) = mangled.strip_prefix("_ZN5arena") else { continue };
        let digits: String = rest.chars().take_while(|c| c.is_ascii_digit()).collect();
        let Ok(l) = digits.parse::<usize>() else { continue };
        let name = rest[digits.len()..digits.len() + l].to_string();
        if name != "checkpoint" && !name.starts_with("pad") { continue; }
        let off = (addr - text.address()) as usize;
        let bytes = text.data().unwrap()[off..off + *size as usize].to_vec();
        let next_adjacent = syms.get(i + 1).map(|n| n.0 == addr + size && n.2.starts_with("_ZN5arena")).unwrap_or(false);
        funcs.push(Func { name, addr: *addr, size: *size, bytes, next_adjacent });
    }
    assert!(funcs.iter().any(|f| f.name == "checkpoint"), "checkpoint symbol");
    Prog { path, break_line, funcs }
}

// ------------------------------------------------------------------------------------------------ generation
fn rand_bytes(rng: &mut Rng, n: usize) -> Vec<u8> { (0..n).map(|_| rng.below(256) as u8).collect() }

/// addresses where something changes: ends/starts of mapped runs, page seams inside a run, a plain word seam
const BOUNDARIES: [(usize, &str); 8] = [(2 * PAGE, "run_start"), (3 * PAGE, "page_seam_rw_rw"), (4 * PAGE, "run_end"), (5 * PAGE, "run_start_single"),
    (6 * PAGE, "page_seam_rw_ro"), (7 * PAGE, "page_seam_ro_none"), (8 * PAGE, "run_end_none"), (2 * PAGE + 512, "word_seam")];

fn gen_offset_len(rng: &mut Rng, out: &mut Out, what: &str) -> (usize, usize) {
    let (b, bname) = *rng.pick(&BOUNDARIES);
    match rng.below(10) {
        0..=5 => { // straddling / touching a boundary
            let before = rng.below(20) as usize; let n = rng.below(34) as usize;
            out.count(&format!("{what}.near.{bname}"), 1);
            (b - before, n)
        }
        6 => { out.count(&format!("{what}.after_boundary"), 1); (b + rng.below(9) as usize, rng.below(20) as usize) }
        7 => { out.count(&format!("{what}.interior"), 1); (2 * PAGE + rng.below((2 * PAGE - 64) as u64) as usize, 1 + rng.below(64) as usize) }
        8 => { out.count(&format!("{what}.anywhere"), 1); (rng.below((NPAGES * PAGE) as u64) as usize, rng.below(40) as usize) }
        _ => { // long: whole pages and more
            out.count(&format!("{what}.long"), 1);
            let n = *rng.pick(&[4088usize, 4095, 4096, 4097, 4104, 8191, 8192, 8193]);
            let start = *rng.pick(&[2 * PAGE, 2 * PAGE + 1, 2 * PAGE + 7, 3 * PAGE - 3, 5 * PAGE, 5 * PAGE + 5, 6 * PAGE - 8, 1 * PAGE + 4090]);
            (start, n)
        }
    }
}

fn gen_mem_session(rng: &mut Rng, n: u64, exhaustive: bool, out: &mut Out) -> Vec<String> {
    let mut req = vec!["C15 new mem".to_string()];
    if exhaustive {
        // boundary-exhaustive reads: every start within 17 bytes before / 3 after each boundary x every small length
        for (b, _) in BOUNDARIES {
            for a in (b - 17)..=(b + 3) {
                for len in [0usize, 1, 2, 3, 4, 5, 7, 8, 9, 11, 12, 15, 16, 17, 24] {
                    req.push(format!("C15 read {a} {len}")); out.count("read.exhaustive", 1);
                }
            }
        }
        // boundary-exhaustive writes (DAP write_bytes) and pokes
        for (b, _) in BOUNDARIES {
            for a in (b - 10)..=(b + 2) {
                for len in [1usize, 2, 3, 7, 8, 9, 15, 16, 17] {
                    req.push(format!("C15 write {a} {}", hex(&rand_bytes(rng, len)))); out.count("write.exhaustive", 1);
                }
                req.push(format!("C15 poke {a} {}", rng.next())); out.count("poke.exhaustive", 1);
            }
            req.push("C15 sum".into());
        }
    }
    for _ in 0..n {
        match rng.below(20) {
            0..=7 => { let (a, l) = gen_offset_len(rng, out, "read"); req.push(format!("C15 read {a} {l}")); }
            8..=14 => {
                let (a, l) = gen_offset_len(rng, out, "write");
                // long writes are expensive for the model's materialisation: keep most of them short
                let l = if l > 4000 && rng.chance(3, 4) { 1 + l % 61 } else { l };
                req.push(format!("C15 write {a} {}", hex(&rand_bytes(rng, l))));
                if rng.chance(1, 3) { let (a2, _) = (a.saturating_sub(rng.below(12) as usize), 0); req.push(format!("C15 read {a2} {}", l + 24)); out.count("read.back_after_write", 1); }
            }
            15..=16 => { let (a, _) = gen_offset_len(rng, out, "poke"); req.push(format!("C15 poke {a} {}", rng.next())); }
            17 => { req.push("C15 sum".into()); out.count("sum", 1); }
            _ => {
                // registers: general purpose / rip / orig_rax take any value; the kernel validates the others,
                // so they get values from their accepted domain (flags: arithmetic+direction bits; bases: user addresses)
                let name = *rng.pick(&KREGS);
                match name {
                    "cs" | "ss" | "ds" | "es" | "fs" | "gs" => { req.push(format!("C15 getreg {}", enc_str(name))); out.count("reg.get", 1); }
                    "eflags" => {
                        let bits = [0x1u64, 0x4, 0x10, 0x40, 0x80, 0x400, 0x800];
                        let mut v = 0x202u64; for b in bits { if rng.chance(1, 2) { v |= b; } }
                        req.push(format!("C15 setreg {} {v}", enc_str(name))); out.count("reg.set.eflags", 1);
                    }
                    "fs_base" | "gs_base" => { req.push(format!("C15 setreg {} {}", enc_str(name), rng.next() & 0x7fff_ffff_f000)); out.count("reg.set.base", 1); }
                    _ => {
                        let v = match rng.below(4) { 0 => rng.next(), 1 => rng.below(256), 2 => u64::MAX - rng.below(3), _ => rng.next() >> rng.below(64) };
                        req.push(format!("C15 setreg {} {v}", enc_str(name))); out.count("reg.set.gp", 1);
                    }
                }
                if rng.chance(1, 2) { req.push(format!("C15 getreg {}", enc_str(*rng.pick(&KREGS)))); out.count("reg.get", 1); }
                if rng.chance(1, 8) { req.push(format!("C15 getreg {}", enc_str(*rng.pick(&["xmm0", "RAX", "", "pc"])))); out.count("reg.get.unknown_name", 1); }
                if rng.chance(1, 6) { req.push("C15 regs".into()); }
            }
        }
    }
    req.push("C15 regs".into());
    req.push("C15 sum".into());
    req.push("C15 finish".into());
    req
}

fn gen_dis_session(rng: &mut Rng, p: &Prog, out: &mut Out) -> Vec<String> {
    // function in focus: `checkpoint` (stopped at the BREAK line) or a function whose end address is the next
    // function's start (so that a breakpoint exactly at the end address is accepted by the debugger)
    let adjacent: Vec<&Func> = p.funcs.iter().filter(|f| f.next_adjacent).collect();
    if adjacent.is_empty() { out.count("disasm.no_function_with_adjacent_successor_in_this_build", 1); }
    let f = if !adjacent.is_empty() && rng.chance(1, 2) { *rng.pick(&adjacent) } else { rng.pick(&p.funcs) };
    let mut req = vec![format!("C15 new dis {}", f.name)];
    let len = f.size;
    for _ in 0..rng.range(1, 3) {
        let k = rng.below(5);
        let mut offs: Vec<u64> = (0..k).map(|_| rng.below(len)).collect();
        if rng.chance(1, 2) { offs.push(len); out.count(if f.next_adjacent { "disasm.bp_at_end.adjacent" } else { "disasm.bp_at_end.padding" }, 1); }
        offs.sort(); offs.dedup();
        out.count(&format!("disasm.bps_{}", offs.len()), 1);
        req.push(format!("C15 disasm {len} {}", enc_list(&offs, |o| o.to_string())));
    }
    req
}

fn gen_parse_session(rng: &mut Rng, n: u64, out: &mut Out) -> Vec<String> {
    let mut req = vec!["C15 new parse".to_string()];
    for _ in 0..n {
        let kind = if rng.chance(1, 8) { "bool" } else { *rng.pick(&INT_KINDS) };
        let bits: u32 = match kind { "i8" | "u8" => 8, "i16" | "u16" => 16, "i32" | "u32" => 32, "i128" | "u128" => 128, "bool" => 1, _ => 64 };
        let mag: u128 = match rng.below(6) {
            0 => rng.below(130) as u128,
            1 => (1u128 << (bits - 1).min(127)).wrapping_add(rng.below(3) as u128).wrapping_sub(1),     // around the signed limit
            2 => if bits == 128 { u128::MAX - rng.below(2) as u128 } else { (1u128 << bits) + rng.below(3) as u128 - 1 }, // around the unsigned limit
            3 => ((rng.next() as u128) << 64 | rng.next() as u128) >> rng.below(128),
            4 => (rng.next() as u128) >> rng.below(64),
            _ => 300,
        };
        let neg = rng.chance(1, 3);
        let body = match rng.below(8) {
            0..=3 => format!("{}{mag}", if neg { "-" } else { "" }),
            4 => format!("0x{}{mag:x}", if neg { "-" } else { "" }),
            5 => format!("{}0X{mag:X}", if neg { "-" } else { "" }),
            6 => format!("+{mag}"),
            _ => rng.pick(&["", "-", "+", "0x", "1_000", "12a", "true", "false", "TRUE", "0", "1", " 7 ", "\t-3\n", "--1", "+-1", "0x+1f", "340282366920938463463374607431768211456", "-170141183460469231731687303715884105729", "１２"]).to_string(),
        };
        let body = if rng.chance(1, 10) { format!(" {body}\t") } else { body };
        out.count(&format!("parse.{}", if kind == "bool" { "bool" } else if kind.starts_with('i') { "signed" } else { "unsigned" }), 1);
        req.push(format!("C15 parse {kind} {}", enc_str(&body)));
    }
    req
}

pub fn gen_requests(rng: &mut Rng, n: u64, out: &mut Out) -> Vec<String> {
    let p = prog();
    let mut req = vec![];
    // one boundary-exhaustive memory session, then seeded ones of ~1500 requests
    req.extend(gen_mem_session(rng, n.min(300), true, out));
    let mut left = n.saturating_sub(300);
    while left > 0 { let k = left.min(1500); req.extend(gen_mem_session(rng, k, false, out)); left -= k; }
    for _ in 0..(2 + n / 1500).min(12) { req.extend(gen_dis_session(rng, &p, out)); }
    req.extend(gen_parse_session(rng, (n / 2).max(200), out));
    req
}

// ------------------------------------------------------------------------------------------------ worker side
#[derive(Default)]
struct Res { pairs: Vec<(String, String)>, fails: Vec<Value>, stats: Vec<(String, u64)>, samples: Vec<Value>, evals: u64 }
impl Res {
    fn count(&mut self, k: &str) { self.stats.push((k.into(), 1)); }
    fn fail(&mut self, key: &str, what: String, replay: Value) { self.fails.push(json!({"key": key, "what": what, "replay": replay})); }
    fn to_json(&self) -> Value { json!({"pairs": self.pairs, "fails": self.fails, "stats": self.stats, "samples": self.samples, "evals": self.evals}) }
}

struct Live {
    dbg: Debugger,
    pid: i32,
    tid: i32,
    base: usize,
    mapped: [bool; NPAGES],
    mem: std::fs::File,
    image: Vec<Option<u8>>,
    regs0: libc::user_regs_struct,
    stdout: Arc<Mutex<Vec<String>>>,
}

fn start(p: &Prog, at_fn: Option<&str>) -> (Debugger, Arc<Mutex<Vec<String>>>) {
    let (reader, writer) = os_pipe::pipe().unwrap();
    let lines = Arc::new(Mutex::new(vec![]));
    let l2 = lines.clone();
    std::thread::spawn(move || {
        let mut s = BufReader::new(reader);
        loop { let mut l = String::new(); if s.read_line(&mut l).unwrap_or(0) == 0 { return; } l2.lock().unwrap().push(l.trim_end().to_string()); }
    });
    rust::Environment::init(None);
    let runner = Child::new(p.path.to_str().unwrap(), Vec::<String>::new(), None::<&Path>, writer.try_clone().unwrap(), writer);
    let mut dbg = DebuggerBuilder::<NopHook>::new().build(runner.install().unwrap()).unwrap();
    match at_fn {
        Some(f) => { dbg.set_breakpoint_at_fn(f).unwrap(); }
        None => { dbg.set_breakpoint_at_line("arena.rs", p.break_line).unwrap(); }
    }
    dbg.start_debugee().unwrap();
    (dbg, lines)
}

fn wait_line(lines: &Arc<Mutex<Vec<String>>>, pred: impl Fn(&str) -> bool) -> Option<String> {
    for _ in 0..2000 {
        if let Some(l) = lines.lock().unwrap().iter().find(|l| pred(l)) { return Some(l.clone()); }
        std::thread::sleep(std::time::Duration::from_millis(1));
    }
    None
}

fn maps(pid: i32) -> Vec<(usize, usize, String)> {
    std::fs::read_to_string(format!("/proc/{pid}/maps")).unwrap().lines().map(|l| {
        let mut it = l.split_whitespace();
        let (a, b) = it.next().unwrap().split_once('-').unwrap();
        (usize::from_str_radix(a, 16).unwrap(), usize::from_str_radix(b, 16).unwrap(), it.nth(4).unwrap_or("").to_string())
    }).collect()
}

fn raw_getregs(tid: i32) -> libc::user_regs_struct {
    unsafe {
        let mut r: libc::user_regs_struct = std::mem::zeroed();
        let rc = libc::ptrace(libc::PTRACE_GETREGS, tid, 0usize, &mut r as *mut _ as usize);
        assert!(rc == 0, "raw PTRACE_GETREGS failed");
        r
    }
}
fn raw_setregs(tid: i32, r: &libc::user_regs_struct) { unsafe { libc::ptrace(libc::PTRACE_SETREGS, tid, 0usize, r as *const _ as usize); } }
fn kregs(r: &libc::user_regs_struct) -> [u64; 27] {
    [r.r15, r.r14, r.r13, r.r12, r.rbp, r.rbx, r.r11, r.r10, r.r9, r.r8, r.rax, r.rcx, r.rdx, r.rsi, r.rdi, r.orig_rax, r.rip, r.cs,
     r.eflags, r.rsp, r.ss, r.fs_base, r.gs_base, r.ds, r.es, r.fs, r.gs]
}

impl Live {
    fn new(p: &Prog) -> Live {
        let (dbg, stdout) = start(p, None);
        let pid = dbg.process().pid().as_raw();
        let tid = dbg.ecx().pid_on_focus().as_raw();
        let l = wait_line(&stdout, |l| l.starts_with("arena 0x")).expect("debuggee did not print its arena");
        let base = usize::from_str_radix(&l[8..], 16).unwrap();
        let ms = maps(pid);
        let mut mapped = [false; NPAGES];
        for (i, m) in mapped.iter_mut().enumerate() { let a = base + i * PAGE; *m = ms.iter().any(|(s, e, _)| *s <= a && a < *e); }
        let mem = std::fs::File::open(format!("/proc/{pid}/mem")).unwrap();
        let regs0 = raw_getregs(tid);
        let mut lv = Live { dbg, pid, tid, base, mapped, mem, image: vec![], regs0, stdout };
        lv.image = lv.snapshot();
        lv
    }
    /// the whole window through /proc/<pid>/mem (independent of PTRACE_PEEK)
    fn snapshot(&self) -> Vec<Option<u8>> {
        let mut img = vec![None; NPAGES * PAGE];
        for p in 0..NPAGES {
            if self.mapped[p] {
                let mut buf = vec![0u8; PAGE];
                self.mem.read_exact_at(&mut buf, (self.base + p * PAGE) as u64).expect("/proc/pid/mem read of a mapped page");
                for (i, b) in buf.iter().enumerate() { img[p * PAGE + i] = Some(*b); }
            }
        }
        img
    }
    fn all_mapped(&self, off: usize, n: usize) -> bool { (off..off + n).all(|a| a < NPAGES * PAGE && self.mapped[a / PAGE]) }
    fn new_line(&self) -> String {
        let pages: Vec<String> = (0..NPAGES).filter(|p| self.mapped[*p]).map(|p| {
            let bytes: Vec<u8> = self.image[p * PAGE..(p + 1) * PAGE].iter().map(|b| b.unwrap()).collect();
            format!("{p}:{}", hex(&bytes))
        }).collect();
        format!("C15 new mem {NPAGES} {} {}", enc_list(&pages, |s| s.clone()), enc_list(&kregs(&self.regs0), |v| v.to_string()))
    }
    fn sums(&self, img: &[Option<u8>]) -> String {
        let v: Vec<String> = (0..NPAGES).filter(|p| self.mapped[*p]).map(|p| {
            let mut h: u32 = 0;
            for b in &img[p * PAGE..(p + 1) * PAGE] { h = h.wrapping_mul(31).wrapping_add(b.unwrap() as u32 + 1); }
            format!("{p}:{h}")
        }).collect();
        enc_list(&v, |s| s.clone())
    }

    /// O for a write of `data` at window offset `off` that the implementation reported as `ok`
    fn check_write(&mut self, res: &mut Res, line: &str, what: &str, off: usize, data: &[u8], ok: bool) {
        res.evals += 1;
        let after = self.snapshot();
        let n = data.len();
        let mapped = self.all_mapped(off, n);
        let outside_changed = (0..NPAGES * PAGE).find(|a| !(off <= *a && *a < off + n) && after[*a] != self.image[*a]);
        let rp = |extra: Value| json!({"session": "mem", "request": line, "offset": off, "len": n, "detail": extra});
        if let Some(a) = outside_changed {
            res.fail("write-changes-outside-range", format!("{what} at window+{off} len {n}: byte at window+{a} changed from {:?} to {:?}", self.image[a], after[a]), rp(json!({"addr": a})));
        }
        if ok {
            if !mapped { res.fail("write-to-unmapped-range-succeeds", format!("{what} at window+{off} len {n} reported success but the range is not fully mapped"), rp(json!(null))); }
            if let Some(i) = (0..n).find(|i| off + i < NPAGES * PAGE && after[off + i].is_some() && after[off + i] != Some(data[*i])) {
                res.fail("write-wrong-content-in-range", format!("{what} at window+{off} len {n}: byte {i} is {:?}, written {:#x}", after[off + i], data[i]), rp(json!({"index": i})));
            }
        } else {
            if mapped { res.fail("write-of-mapped-range-fails", format!("{what} at window+{off} len {n} failed although [a,a+n) is mapped"), rp(json!(null))); }
            if (0..n).any(|i| off + i < NPAGES * PAGE && after[off + i] != self.image[off + i]) { res.count("write.partial_prefix_left_by_failed_write"); }
        }
        self.image = after;
    }
}

fn class<T>(r: std::thread::Result<Result<T, String>>) -> Result<Result<T, String>, ()> { r.map_err(|_| ()) }

fn run_mem_session(p: &Prog, lines: &[String], res: &mut Res) {
    let mut lv = Live::new(p);
    res.pairs.push((lv.new_line(), "ok".into()));
    res.samples.push(json!({"session": "mem", "window_base": format!("{:#x}", lv.base), "mapped_pages": lv.mapped.iter().enumerate().filter(|(_, m)| **m).map(|(i, _)| i).collect::<Vec<_>>(), "pid": "(not compared)"}));
    let mut finished = false;
    for line in &lines[1..] {
        let t: Vec<&str> = line.split(' ').collect();
        if finished { res.pairs.push((line.clone(), "bad-op".into())); continue; }
        let ans: String = match t.as_slice() {
            ["C15", "read", off, n] => match (off.parse::<usize>(), n.parse::<usize>()) {
                (Ok(off), Ok(n)) => {
                    let r = class(catch_unwind(AssertUnwindSafe(|| lv.dbg.read_memory(lv.base + off, n).map_err(|e| e.to_string()))));
                    res.evals += 1;
                    let mapped = lv.all_mapped(off, n);
                    let span = n.div_ceil(8) * 8;
                    let rp = json!({"session": "mem", "request": line, "offset": off, "len": n, "mapped_pages": lv.mapped});
                    match r {
                        Ok(Ok(bytes)) => {
                            if !mapped { res.fail("read-of-unmapped-range-succeeds", format!("read_memory(window+{off}, {n}) succeeded but the range is not fully mapped"), rp); }
                            else {
                                let mut truth = vec![0u8; n];
                                if n > 0 { lv.mem.read_exact_at(&mut truth, (lv.base + off) as u64).expect("/proc/pid/mem"); }
                                if truth != bytes { res.fail("read-returns-wrong-bytes", format!("read_memory(window+{off}, {n}) = {} but /proc/pid/mem holds {}", hex(&bytes), hex(&truth)), rp); }
                            }
                            res.count(if n == 0 { "read.ok.empty" } else if (off % 8) + n > 8 { "read.ok.multiword" } else { "read.ok.oneword" });
                            if n % 8 != 0 && !lv.all_mapped(off, span) { res.count(if n < 8 { "read.ok.tail_of_mapping.short" } else { "read.ok.tail_of_mapping.long" }); }
                            format!("ok {}", hex(&bytes))
                        }
                        Ok(Err(e)) => {
                            if mapped {
                                // (repaired by 829a669: the key stays, a regression is a VIOLATION)
                                if !lv.all_mapped(off, span) {
                                    res.fail("read-tail-of-mapping-eio", format!("read_memory(window+{off}, {n}): [a,a+n) is mapped and ends {} byte(s) before the end of its mapping, the read fails ({e}): the last word peek runs past the mapping", off + span - (off + n)), rp);
                                } else { res.fail("read-of-mapped-range-fails", format!("read_memory(window+{off}, {n}) failed ({e}) although the whole word span is mapped"), rp); }
                            }
                            res.count(if mapped { "read.err.mapped_range" } else { "read.err.unmapped" });
                            "err".into()
                        }
                        Err(()) => "panic".into(),
                    }
                }
                _ => "bad-op".into(),
            },
            ["C15", "poke", off, w] => match (off.parse::<usize>(), w.parse::<u64>()) {
                (Ok(off), Ok(w)) => {
                    let r = class(catch_unwind(AssertUnwindSafe(|| lv.dbg.write_memory(lv.base + off, w as usize).map_err(|e| e.to_string()))));
                    match r {
                        Ok(r) => { lv.check_write(res, line, "write_memory", off, &w.to_le_bytes(), r.is_ok()); res.count(if r.is_ok() { "poke.ok" } else { "poke.err" }); if r.is_ok() { "ok".into() } else { "err".into() } }
                        Err(()) => "panic".into(),
                    }
                }
                _ => "bad-op".into(),
            },
            ["C15", "write", off, data] => match (off.parse::<usize>(), unhex(data)) {
                (Ok(off), Some(data)) => {
                    let r = class(catch_unwind(AssertUnwindSafe(|| dap_write_bytes(&lv.dbg, lv.base + off, &data).map_err(|e| e.to_string()))));
                    match r {
                        Ok(r) => {
                            lv.check_write(res, line, "DAP write_bytes", off, &data, r.is_ok());
                            let shape = if data.is_empty() { "empty" } else if off / 8 == (off + data.len() - 1) / 8 { "within_word" } else if off / PAGE == (off + data.len() - 1) / PAGE { "across_words" } else { "across_pages" };
                            res.count(&format!("write.{}.{shape}", if r.is_ok() { "ok" } else { "err" }));
                            if r.is_ok() { "ok".into() } else { "err".into() }
                        }
                        Err(()) => { lv.image = lv.snapshot(); "panic".into() }
                    }
                }
                _ => "bad-op".into(),
            },
            ["C15", "sum"] => { let img = lv.snapshot(); lv.sums(&img) }
            ["C15", "regs"] => enc_list(&kregs(&raw_getregs(lv.tid)), |v| v.to_string()),
            ["C15", "getreg", name] => {
                let name = dec_str(name);
                match class(catch_unwind(AssertUnwindSafe(|| lv.dbg.get_register_value(&name).map_err(|e| e.to_string())))) {
                    Ok(Ok(v)) => {
                        res.evals += 1;
                        let truth = KREGS.iter().position(|k| *k == name).map(|i| kregs(&raw_getregs(lv.tid))[i]);
                        if truth != Some(v) { res.fail("register-read-differs-from-kernel", format!("get_register_value({name}) = {v}, raw PTRACE_GETREGS says {truth:?}"), json!({"session": "mem", "request": line})); }
                        v.to_string()
                    }
                    Ok(Err(_)) => "err".into(),
                    Err(()) => "panic".into(),
                }
            }
            ["C15", "setreg", name, v] => match v.parse::<u64>() {
                Ok(v) => {
                    let name = dec_str(name);
                    let before = kregs(&raw_getregs(lv.tid));
                    match class(catch_unwind(AssertUnwindSafe(|| lv.dbg.set_register_value(&name, v).map_err(|e| e.to_string())))) {
                        Ok(r) => {
                            res.evals += 1;
                            let after = kregs(&raw_getregs(lv.tid));
                            let idx = KREGS.iter().position(|k| *k == name);
                            let mut want = before;
                            if let (Some(i), true) = (idx, r.is_ok()) { want[i] = v; }
                            if after != want {
                                let d: Vec<String> = (0..27).filter(|i| after[*i] != want[*i]).map(|i| format!("{}: {:#x} (expected {:#x})", KREGS[i], after[i], want[i])).collect();
                                res.fail("register-write-not-exact", format!("set_register_value({name}, {v:#x}) -> {:?}; kernel registers afterwards differ: {}", r.as_ref().err(), d.join(", ")), json!({"session": "mem", "request": line}));
                            }
                            if r.is_err() && idx.is_some() { res.fail("register-write-fails", format!("set_register_value({name}, {v:#x}) failed: {:?}", r.as_ref().err()), json!({"session": "mem", "request": line})); }
                            if r.is_ok() { "ok".into() } else { "err".into() }
                        }
                        Err(()) => "panic".into(),
                    }
                }
                _ => "bad-op".into(),
            },
            ["C15", "finish"] => {
                // the program itself reports what it sees: restore the registers first (the model's answer does not depend on them)
                raw_setregs(lv.tid, &lv.regs0);
                finished = true;
                let want = lv.sums(&lv.snapshot());
                let r = class(catch_unwind(AssertUnwindSafe(|| lv.dbg.continue_debugee().map_err(|e| e.to_string()))));
                res.evals += 1;
                let got: Vec<String> = (0..NPAGES).filter(|p| lv.mapped[*p]).map(|p| {
                    let l = wait_line(&lv.stdout, |l| l.starts_with(&format!("sum {p} "))).unwrap_or_default();
                    format!("{p}:{}", l.rsplit(' ').next().unwrap_or(""))
                }).collect();
                let got = enc_list(&got, |s| s.clone());
                if got != want { res.fail("program-sees-different-memory", format!("after the session the program computed {got}, /proc/pid/mem before resuming gave {want} (continue: {r:?})"), json!({"session": "mem", "request": line})); }
                got
            }
            _ => "bad-op".into(),
        };
        res.pairs.push((line.clone(), ans));
    }
    let _ = lv.pid;
}

fn run_dis_session(p: &Prog, lines: &[String], res: &mut Res) {
    let fname = lines[0].split(' ').nth(3).unwrap_or("checkpoint");
    let Some(f) = p.func(fname) else { for l in lines { res.pairs.push((l.clone(), "bad-op".into())); } return };
    let (mut dbg, _stdout) = start(p, if fname == "checkpoint" { None } else { Some(fname) });
    let pid = dbg.process().pid().as_raw();
    res.pairs.push((lines[0].clone(), "ok".into()));
    // load address of the executable from /proc/<pid>/maps (PIE)
    let exe = p.path.canonicalize().unwrap();
    let load = maps(pid).iter().filter(|(_, _, path)| Path::new(path) == exe).map(|(s, _, _)| *s).min().expect("exe mapping");
    let fn_start = load + f.addr as usize;
    struct P<'a> { fn_size: u64, fn_bytes: &'a [u8], fn_addr: u64 }
    let p = P { fn_size: f.size, fn_bytes: &f.bytes, fn_addr: f.addr };
    let mem = std::fs::File::open(format!("/proc/{pid}/mem")).unwrap();
    let cs = { use capstone::prelude::*; Capstone::new().x86().mode(arch::x86::ArchMode::Mode64).syntax(arch::x86::ArchSyntax::Att).build().unwrap() };
    let reference: Vec<(u64, String, String)> = cs.disasm_all(p.fn_bytes, p.fn_addr).unwrap().iter()
        .map(|i| (i.address(), i.mnemonic().unwrap_or("").to_string(), i.op_str().unwrap_or("").to_string())).collect();
    let mut cached = false;
    for line in &lines[1..] {
        let t: Vec<&str> = line.split(' ').collect();
        match t.as_slice() {
            ["C15", "disasm", len, offs] if len.parse::<u64>().is_ok() && (*offs == "-" || offs.split(',').all(|o| o.parse::<usize>().is_ok())) => {
                let offs: Vec<usize> = dec_list(offs, |o| o.parse().unwrap());
                let mut set = vec![];
                let mut refused = vec![];
                for o in &offs {
                    let a = RelocatedAddress::from(fn_start + o);
                    match catch_unwind(AssertUnwindSafe(|| dbg.set_breakpoint_at_addr(a).map(|_| ()).map_err(|e| e.to_string()))) {
                        Ok(Ok(())) => set.push(*o),
                        _ => refused.push(*o),
                    }
                }
                if !refused.is_empty() { res.count("disasm.breakpoint_refused"); }
                // what the process holds now (with INT3 patches), independent of the debugger
                let mut raw = vec![0u8; p.fn_size as usize];
                mem.read_exact_at(&mut raw, fn_start as u64).unwrap();
                let patched = raw.iter().zip(p.fn_bytes).filter(|(a, b)| a != b).count();
                let r = catch_unwind(AssertUnwindSafe(|| dbg.disasm().map_err(|e| e.to_string())));
                res.evals += 1;
                let rp = json!({"session": "dis", "request": line, "fn_size": p.fn_size, "breakpoint_offsets_set": set, "refused": refused});
                let ans = match &r {
                    Ok(Ok(asm)) => {
                        let got: Vec<(u64, String, String)> = asm.instructions.iter().map(|i| (usize::from(i.address) as u64, i.mnemonic.clone().unwrap_or_default(), i.operands.clone().unwrap_or_default())).collect();
                        let same = got == reference;
                        if !same {
                            let k = got.iter().zip(&reference).position(|(a, b)| a != b).unwrap_or(got.len().min(reference.len()));
                            res.fail("disasm-shows-patched-bytes", format!("disasm() differs from the disassembly of the ELF file's bytes at instruction {k}: {:?} vs {:?}", got.get(k), reference.get(k)), rp.clone());
                        }
                        res.count(if cached { "disasm.ok.cached" } else { "disasm.ok.computed" });
                        if !cached && same {
                            // tie of the masking model to this run: raw text + registry (offset, on-disk byte) must give the on-disk text
                            let stop_off = (dbg.ecx().location().pc.as_usize() - fn_start) as u64;
                            let _ = stop_off;
                            let mut bps: Vec<(usize, u8)> = (0..p.fn_size as usize).filter(|i| raw[*i] != p.fn_bytes[*i]).map(|i| (fn_start + i, p.fn_bytes[i])).collect();
                            bps.push((fn_start + p.fn_size as usize + 64, 0x90)); // a breakpoint of another function: must be ignored
                            res.pairs.push((format!("C15 mask {} {} {} {}", fn_start, fn_start + p.fn_size as usize, hex(&raw), enc_list(&bps, |(a, s)| format!("{a}:{s}"))), format!("ok {}", hex(p.fn_bytes))));
                        }
                        cached = true;
                        "ok".to_string()
                    }
                    Ok(Err(e)) => { res.fail("disasm-fails", format!("disasm() failed: {e}"), rp.clone()); "err".into() }
                    Err(_) => {
                        res.fail("disasm-breakpoint-at-function-end-panics", format!("disasm() panicked (index out of bounds) with a breakpoint exactly at the end address of the function in focus (size {}, breakpoint offsets {set:?})", p.fn_size), rp.clone());
                        "panic".into()
                    }
                };
                res.count(&format!("disasm.patched_bytes_{}", patched.min(5)));
                // the model is given the breakpoints that were really set
                let line2 = format!("C15 disasm {len} {}", enc_list(&set, |o| o.to_string()));
                res.pairs.push((line2, ans));
                for o in &set { let _ = catch_unwind(AssertUnwindSafe(|| dbg.remove_breakpoint(bugstalker::debugger::address::Address::Relocated(RelocatedAddress::from(fn_start + o))).map(|_| ()).map_err(|e| e.to_string()))); }
            }
            ["C15", "mask", ..] => {} // re-derived by the preceding `disasm` line
            _ => res.pairs.push((line.clone(), "bad-op".into())),
        }
    }
}

fn scalar_kind(k: &str) -> Option<DapScalarKind> {
    Some(match k {
        "i8" => DapScalarKind::I8, "i16" => DapScalarKind::I16, "i32" => DapScalarKind::I32, "i64" => DapScalarKind::I64,
        "i128" => DapScalarKind::I128, "isize" => DapScalarKind::Isize, "u8" => DapScalarKind::U8, "u16" => DapScalarKind::U16,
        "u32" => DapScalarKind::U32, "u64" => DapScalarKind::U64, "u128" => DapScalarKind::U128, "usize" => DapScalarKind::Usize,
        "bool" => DapScalarKind::Bool, _ => return None,
    })
}

/// independent reading of "the written value": exact integer parse, then range check of the target type
fn spec_parse(kind: &str, s: &str) -> Option<Option<Vec<u8>>> {
    let s = s.trim();
    if kind == "bool" { return None; }
    let signed = kind.starts_with('i');
    let bytes: usize = match kind { "i8" | "u8" => 1, "i16" | "u16" => 2, "i32" | "u32" => 4, "i128" | "u128" => 16, _ => 8 };
    let (radix, body) = match s.strip_prefix("0x").or_else(|| s.strip_prefix("0X")) { Some(h) => (16, h), None => (10, s) };
    // value as (negative?, magnitude)
    let (neg, digits) = match body.strip_prefix('-') { Some(d) => (true, d), None => (false, body.strip_prefix('+').unwrap_or(body)) };
    if digits.is_empty() || !digits.chars().all(|c| c.is_digit(radix)) { return None; } // not a number at all: no opinion
    let mag = u128::from_str_radix(digits, radix).ok()?;
    // "-0" for an unsigned type: Rust's own unsigned parsers refuse a minus sign; either answer is acceptable
    if !signed && neg && mag == 0 { return None; }
    let bits = 8 * bytes as u32;
    let fits = if signed {
        if neg { mag <= 1u128 << (bits - 1) } else { mag < 1u128 << (bits - 1) }
    } else { (!neg || mag == 0) && (bits == 128 || mag < 1u128 << bits) };
    if !fits { return Some(None); }
    let v: u128 = if neg { (mag as i128).wrapping_neg() as u128 } else { mag };
    Some(Some(v.to_le_bytes()[..bytes].to_vec()))
}

fn run_parse_session(lines: &[String], res: &mut Res) {
    res.pairs.push((lines[0].clone(), "ok".into()));
    for line in &lines[1..] {
        let t: Vec<&str> = line.split(' ').collect();
        let ans = match t.as_slice() {
            ["C15", "parse", kind, input] if scalar_kind(kind).is_some() && input.starts_with('x') => {
                let input = dec_str(input);
                let r = catch_unwind(AssertUnwindSafe(|| dap_parse_set_value(scalar_kind(kind).unwrap(), &input).map_err(|e| e.to_string())));
                if let Some(want) = spec_parse(kind, &input) {
                    res.evals += 1;
                    match (&r, &want) {
                        (Ok(Ok(b)), None) => res.fail("setvalue-out-of-range-truncated", format!("parse_set_value({kind}, {input:?}) accepts a value that does not fit the type and stores {}", hex(b)), json!({"session": "parse", "request": line})),
                        (Ok(Ok(b)), Some(w)) if b != w => res.fail("setvalue-wrong-bytes", format!("parse_set_value({kind}, {input:?}) = {} expected {}", hex(b), hex(w)), json!({"session": "parse", "request": line})),
                        (Ok(Err(e)), Some(_)) => res.fail("setvalue-representable-refused", format!("parse_set_value({kind}, {input:?}) refused a representable value: {e}"), json!({"session": "parse", "request": line})),
                        _ => {}
                    }
                }
                match r { Ok(Ok(b)) => { res.count("parse.ok"); format!("ok {}", hex(&b)) } Ok(Err(_)) => { res.count("parse.err"); "err".into() } Err(_) => "panic".into() }
            }
            _ => "bad-op".into(),
        };
        res.pairs.push((line.clone(), ans));
    }
}

// ------------------------------------------------------------------------------------------------ parent side
fn in_worker(idx: usize, dir: &Path, f: impl FnOnce(&mut Res)) -> Option<Value> {
    let file = dir.join(format!("worker-{idx}.json"));
    let _ = std::fs::remove_file(&file);
    let pid = unsafe { libc::fork() };
    if pid == 0 {
        let mut res = Res::default();
        let r = catch_unwind(AssertUnwindSafe(|| f(&mut res)));
        if r.is_err() { res.pairs.push(("#".into(), "worker-panicked".into())); }
        std::fs::write(&file, res.to_json().to_string()).unwrap();
        unsafe { libc::_exit(0) };
    }
    let t0 = std::time::Instant::now();
    loop {
        let mut st = 0;
        let r = unsafe { libc::waitpid(pid, &mut st, libc::WNOHANG) };
        if r == pid { break; }
        if t0.elapsed().as_secs() > 300 { unsafe { libc::kill(pid, libc::SIGKILL); libc::waitpid(pid, &mut st, 0); } break; }
        std::thread::sleep(std::time::Duration::from_millis(5));
    }
    let v: Option<Value> = std::fs::read_to_string(&file).ok().and_then(|s| serde_json::from_str(&s).ok());
    let _ = std::fs::remove_file(&file);
    v
}

pub fn exec(req: &[String], out: &mut Out, dir: &Path) {
    let p = prog();
    // split into sessions
    let mut sessions: Vec<Vec<String>> = vec![];
    for l in req {
        if l.starts_with("C15 new") || sessions.is_empty() { sessions.push(vec![]); }
        sessions.last_mut().unwrap().push(l.clone());
    }
    for (idx, s) in sessions.iter().enumerate() {
        let kind = s[0].split(' ').nth(2).unwrap_or("");
        let v = match (s[0].starts_with("C15 new"), kind) {
            (true, "mem") => in_worker(idx, dir, |res| run_mem_session(&p, s, res)),
            (true, "dis") => in_worker(idx, dir, |res| run_dis_session(&p, s, res)),
            (true, "parse") => in_worker(idx, dir, |res| run_parse_session(s, res)),
            _ => { for l in s { out.pair(l.clone(), "bad-op".into()); } continue; }
        };
        out.count(&format!("sessions.{kind}"), 1);
        match v {
            Some(v) => {
                for pr in v["pairs"].as_array().unwrap() {
                    let (r, a) = (pr[0].as_str().unwrap(), pr[1].as_str().unwrap());
                    if r == "#" { out.pair(s[0].clone(), a.to_string()); } else { out.pair(r.to_string(), a.to_string()); }
                }
                for f in v["fails"].as_array().unwrap() { out.oracle_failures.push(f.clone()); }
                for st in v["stats"].as_array().unwrap() { out.count(st[0].as_str().unwrap(), st[1].as_u64().unwrap()); }
                for sm in v["samples"].as_array().unwrap() { out.sample(sm.clone()); }
                out.oracle_evals += v["evals"].as_u64().unwrap();
            }
            None => out.pair(s[0].clone(), "worker-died".into()),
        }
    }
}

pub fn run(args: &[String]) {
    let a = parse_args(args);
    let mut out = Out::new(&a.out);
    let req = match &a.replay {
        Some(f) => read_lines(f),
        None => { let mut rng = Rng::new(a.seed); gen_requests(&mut rng, a.n, &mut out) }
    };
    exec(&req, &mut out, &a.out);
    out.finish();
}
