//! C12: the DAP adapter (`DebugSession`) driven in-process over a mock transport.
//!
//! * `gen_requests` derives request histories from a DAP grammar (valid / missing / ill-typed / absent
//!   arguments, repeated and out-of-order commands).
//! * `exec` runs every session of a request file in a forked worker process (the tracer calls
//!   `waitpid(-1)`), records the wire exactly as written, and writes for each request line the
//!   canonicalised list of messages the adapter wrote in answer to it (K: compared with the Lean session
//!   model `Driver.C12`), plus one `sched` line per session tying the Lean *writer* model to the observed
//!   sequence numbers.
//! * `oracle` is an independent wire checker for the five clauses of the property (O).
use crate::util::*;
use bugstalker::dap::transport::DapTransport;
use bugstalker::dap::yadap::session::DebugSession;
use serde_json::{Value, json};
use std::io::Write as _;
use std::path::{Path, PathBuf};
use std::sync::atomic::{AtomicI64, AtomicU64, Ordering};
use std::sync::mpsc::{Receiver, channel};
use std::sync::{Arc, Mutex};
use std::time::{Duration, Instant};

// ------------------------------------------------------------------------------------------------
// grammar

/// commands of the grammar (all are arms of `DebugSession::dispatch`, except `frobnicate`)
const COMMANDS: &[&str] = &[
    "initialize", "launch", "setBreakpoints", "configurationDone", "threads", "stackTrace", "scopes",
    "variables", "continue", "next", "stepIn", "stepOut", "pause", "evaluate", "disconnect", "terminate",
    "terminateThreads", "frobnicate",
];
/// argument mutations: `valid` well-typed arguments; `missing` the required member is absent;
/// `illtyped` the required member has the wrong JSON type; `noargs` no `arguments` member at all;
/// `nofile` (launch only) a program path that does not exist.
const MUTS: &[&str] = &["valid", "missing", "illtyped", "noargs", "nofile"];

fn verif_root() -> PathBuf {
    // harness/ is CARGO_MANIFEST_DIR; the framework root is its parent
    Path::new(env!("CARGO_MANIFEST_DIR")).parent().unwrap().to_path_buf()
}
fn prog_src() -> PathBuf { verif_root().join("progs-src/c12_chatty.rs") }
fn prog_bin() -> PathBuf { verif_root().join("progs/c12_chatty") }

/// compile the debuggee on demand (parent process only)
fn ensure_prog() {
    let (src, bin) = (prog_src(), prog_bin());
    let fresh = match (std::fs::metadata(&src), std::fs::metadata(&bin)) {
        (Ok(s), Ok(b)) => b.modified().unwrap() >= s.modified().unwrap(),
        _ => false,
    };
    if fresh { return; }
    std::fs::create_dir_all(bin.parent().unwrap()).unwrap();
    let tmp = bin.with_extension(format!("tmp{}", std::process::id()));
    let st = std::process::Command::new("rustc").args(["+1.89", "-g", "-o"]).arg(&tmp).arg(&src)
        .current_dir(verif_root().join("harness")).status().expect("rustc");
    assert!(st.success(), "rustc failed on {}", src.display());
    std::fs::rename(&tmp, &bin).unwrap();
}

/// line number of the `BP:<name>` marker in the debuggee source
fn bp_line(name: &str) -> i64 {
    let src = std::fs::read_to_string(prog_src()).unwrap();
    src.lines().position(|l| l.contains(&format!("BP:{name}"))).map(|i| i as i64 + 1).unwrap_or(1)
}

/// what the driver learned from the wire so far (to build *valid* arguments of later requests)
#[derive(Default)]
struct Observed { thread_id: Option<i64>, frame_id: Option<i64>, vars_ref: Option<i64> }

fn build_args(cmd: &str, mutn: &str, param: u64, variant: &str, obs: &Observed) -> Option<Value> {
    if mutn == "noargs" { return None; }
    let tid = obs.thread_id.unwrap_or(1);
    let src = prog_src().to_string_lossy().to_string();
    let v = match (cmd, mutn) {
        ("initialize", _) => json!({"adapterID": "c12", "linesStartAt1": true}),
        ("launch", "valid") => {
            let args: Vec<&str> = if variant == "threads" { vec!["threads"] } else { vec![] };
            json!({"program": prog_bin().to_string_lossy(), "args": args})
        }
        ("launch", "nofile") => json!({"program": "/nonexistent/c12/no-such-program"}),
        ("launch", "missing") => json!({"args": []}),
        ("launch", _) => json!({"program": 17}),
        ("setBreakpoints", "valid") | ("setBreakpoints", "nofile") => {
            let names = ["work", "end", "joined"];
            let bps: Vec<Value> = (0..param.min(3) as usize).map(|i| json!({"line": bp_line(names[i])})).collect();
            json!({"source": {"path": src}, "breakpoints": bps})
        }
        ("setBreakpoints", "missing") => json!({"breakpoints": [{"line": 3}]}),
        ("setBreakpoints", _) => json!({"source": {"path": 5}, "breakpoints": "x"}),
        ("stackTrace", "valid") | ("stackTrace", "nofile") => json!({"threadId": tid}),
        ("stackTrace", "missing") => json!({"levels": 3}),
        ("stackTrace", _) => json!({"threadId": "one"}),
        ("scopes", "valid") | ("scopes", "nofile") => json!({"frameId": obs.frame_id.unwrap_or(tid << 16)}),
        ("scopes", "missing") => json!({}),
        ("scopes", _) => json!({"frameId": [1]}),
        ("variables", "valid") | ("variables", "nofile") => json!({"variablesReference": obs.vars_ref.unwrap_or(1)}),
        ("variables", "missing") => json!({"start": 0}),
        ("variables", _) => json!({"variablesReference": "r"}),
        ("evaluate", "valid") | ("evaluate", "nofile") => json!({"expression": "acc", "frameId": obs.frame_id.unwrap_or(tid << 16)}),
        ("evaluate", "missing") => json!({"context": "watch"}),
        ("evaluate", _) => json!({"expression": 12}),
        ("continue" | "next" | "stepIn" | "stepOut" | "pause", "valid" | "nofile") => json!({"threadId": tid}),
        ("continue" | "next" | "stepIn" | "stepOut" | "pause", "missing") => json!({}),
        ("continue" | "next" | "stepIn" | "stepOut" | "pause", _) => json!({"threadId": "t"}),
        ("disconnect", "valid") | ("disconnect", "nofile") => json!({"terminateDebuggee": true}),
        ("disconnect", "missing") => json!({}),
        ("disconnect", _) => json!({"terminateDebuggee": "yes"}),
        ("terminateThreads", "valid") | ("terminateThreads", "nofile") | ("terminateThreads", "missing") => json!({}),
        ("terminateThreads", _) => json!({"threadIds": "all"}),
        (_, "valid") | (_, "nofile") => json!({}),
        (_, "missing") => json!({}),
        (_, _) => json!("ill-typed-arguments"),
    };
    Some(v)
}

/// a typical valid prefix, then noise
pub fn gen_requests(rng: &mut Rng, n: u64, out: &mut Out) -> Vec<String> {
    let mut req = vec![];
    let mut made = 0u64;
    let mut sid = 0u64;
    while made < n {
        sid += 1;
        let variant = if rng.chance(1, 3) { "threads" } else { "plain" };
        let force = match rng.below(4) { 0 => "fwdlate", _ => "free" };
        req.push(format!("C12 new {sid} {variant} {force}"));
        out.count(&format!("session.{variant}.{force}"), 1);
        let shape = rng.below(10);
        let mut cmds: Vec<(String, String, u64)> = vec![];
        let mut push = |c: &str, m: &str, p: u64| cmds.push((c.to_string(), m.to_string(), p));
        let pick_mut = |rng: &mut Rng| -> &'static str {
            match rng.below(10) { 0..=5 => "valid", 6 => "missing", 7 => "illtyped", 8 => "noargs", _ => "nofile" }
        };
        // 0..=5: well-ordered prefix followed by a mixed tail; 6..=7: out of order from the start; 8..=9: fully random
        if shape <= 5 {
            push("initialize", "valid", 0);
            if rng.chance(1, 4) { push("launch", pick_mut(rng), 0); }
            push("launch", "valid", 0);
            if rng.chance(3, 4) { push("setBreakpoints", "valid", rng.below(4)); }
            if rng.chance(1, 5) { push("setBreakpoints", pick_mut(rng), rng.below(4)); }
            push("configurationDone", "valid", 0);
            let len = rng.range(2, 12);
            for _ in 0..len {
                let c = match rng.below(20) {
                    0..=5 => "continue", 6 => "next", 7 => "stepIn", 8 => "stepOut", 9 => "threads", 10 => "stackTrace",
                    11 => "scopes", 12 => "variables", 13 => "evaluate", 14 => "pause", 15 => "setBreakpoints",
                    16 => "configurationDone", 17 => "terminateThreads", 18 => "frobnicate", _ => "initialize",
                };
                let m = pick_mut(rng);
                push(c, m, rng.below(4));
            }
        } else if shape <= 7 {
            if rng.chance(1, 2) { push("initialize", "valid", 0); }
            let len = rng.range(1, 6);
            for _ in 0..len {
                let c = *rng.pick(&["continue", "next", "stepIn", "stepOut", "pause", "threads", "stackTrace", "scopes",
                    "variables", "evaluate", "setBreakpoints", "configurationDone", "terminateThreads", "frobnicate"]);
                push(c, pick_mut(rng), rng.below(4));
            }
            push("launch", pick_mut(rng), 0);
            if rng.chance(1, 2) { push("launch", "valid", 0); }
            let len = rng.range(1, 8);
            for _ in 0..len {
                let c = *rng.pick(&["continue", "continue", "configurationDone", "next", "stepOut", "pause", "threads",
                    "stackTrace", "evaluate", "setBreakpoints", "terminateThreads"]);
                push(c, pick_mut(rng), rng.below(4));
            }
        } else {
            let len = rng.range(3, 14);
            for _ in 0..len {
                let c = *rng.pick(&COMMANDS[..COMMANDS.len()]);
                if c == "disconnect" || c == "terminate" { continue; }
                push(c, pick_mut(rng), rng.below(4));
            }
        }
        // how the session ends
        match rng.below(6) {
            0 => {}
            1 => push("terminate", pick_mut(rng), 0),
            2 => push("disconnect", "missing", 0),
            _ => push("disconnect", pick_mut(rng), 0),
        }
        if rng.chance(1, 8) { push("threads", "valid", 0); } // a request after the session has ended
        let mut cseq = rng.range(1, 5);
        for (c, m, p) in cmds {
            req.push(format!("C12 req {cseq} {c} {m} {p}"));
            cseq += rng.range(1, 3);
            made += 1;
        }
    }
    req
}

// ------------------------------------------------------------------------------------------------
// worker: one DebugSession in a forked process

struct Recorder { f: Mutex<std::fs::File> }
impl Recorder {
    fn rec(&self, v: Value) {
        let mut f = self.f.lock().unwrap();
        let _ = writeln!(f, "{v}");
    }
}

struct Mock { rx: Receiver<Value>, rec: Arc<Recorder> }
impl DapTransport for Mock {
    fn read_message(&mut self) -> anyhow::Result<Value> {
        // like the real transports, this blocks while the caller holds the transport mutex
        self.rec.rec(json!({"t": "read"}));
        READS.fetch_add(1, Ordering::SeqCst);
        self.rx.recv().map_err(|_| anyhow::anyhow!("DAP connection closed"))
    }
    fn write_message(&mut self, m: &Value) -> anyhow::Result<()> {
        self.rec.rec(json!({"t": "w", "m": m}));
        WRITES.fetch_add(1, Ordering::SeqCst);
        let fwd = m["event"] == "output" && (m["body"]["category"] == "stdout" || m["body"]["category"] == "stderr");
        if !fwd { SESSION_WRITES.fetch_add(1, Ordering::SeqCst); }
        if fwd {
            let i = if m["body"]["category"] == "stdout" { 0 } else { 1 };
            OUT_BYTES[i].fetch_add(m["body"]["output"].as_str().map(|s| s.len()).unwrap_or(0) as u64, Ordering::SeqCst);
        }
        if m["event"] == "exited" { EXITED.fetch_add(1, Ordering::SeqCst); }
        if m["type"] == "response" && m["command"] == "launch" && m["success"] == true { LAUNCHES.fetch_add(1, Ordering::SeqCst); }
        Ok(())
    }
}

static READS: AtomicU64 = AtomicU64::new(0);
static WRITES: AtomicU64 = AtomicU64::new(0);
static SESSION_WRITES: AtomicU64 = AtomicU64::new(0);
static OUT_BYTES: [AtomicU64; 2] = [AtomicU64::new(0), AtomicU64::new(0)];
static EXITED: AtomicU64 = AtomicU64::new(0);
static LAUNCHES: AtomicU64 = AtomicU64::new(0);
/// number of forwarder allocations that are still to be held back (per forwarder) — `fwdlate` forcing
static HOLD_FWD: [AtomicI64; 2] = [AtomicI64::new(0), AtomicI64::new(0)];
static ALLOC_LOG: Mutex<Option<Arc<Recorder>>> = Mutex::new(None);
/// set by the driver when no further request will be sent: holds are released and no new hold starts
static RELEASE: AtomicU64 = AtomicU64::new(0);

fn sched_hook(name: &'static str, seq: i64) {
    let w = match name { "forwarder.stdout" => 1, "forwarder.stderr" => 2, _ => 0 };
    if let Some(r) = ALLOC_LOG.lock().unwrap().as_ref() { r.rec(json!({"t": "a", "w": w, "seq": seq})); }
    if w > 0 && HOLD_FWD[w - 1].fetch_sub(1, Ordering::SeqCst) > 0 && RELEASE.load(Ordering::SeqCst) == 0 {
        // hold this forwarder between its allocation and its write until the session thread has written
        // a message (which would then carry a larger number and be earlier on the wire). Since the repair the
        // forwarder holds the transport lock here, the session cannot write and the hold runs into its
        // time limit: the forced schedule no longer reorders (if it does, the oracle reports it)
        let base = SESSION_WRITES.load(Ordering::SeqCst);
        let t0 = Instant::now();
        while SESSION_WRITES.load(Ordering::SeqCst) == base && RELEASE.load(Ordering::SeqCst) == 0 && t0.elapsed() < Duration::from_millis(1500) {
            std::thread::sleep(Duration::from_micros(200));
        }
    } else if w > 0 {
        HOLD_FWD[w - 1].store(0, Ordering::SeqCst);
    }
}

struct Req { cseq: i64, cmd: String, mutn: String, param: u64 }

fn worker(variant: &str, force: &str, reqs: &[Req], log: &Path, expected_len: (u64, u64)) -> ! {
    let rec = Arc::new(Recorder { f: Mutex::new(std::fs::File::create(log).unwrap()) });
    *ALLOC_LOG.lock().unwrap() = Some(rec.clone());
    bugstalker::dap::verif::set_sched_hook(Some(sched_hook));
    bugstalker::debugger::rust::Environment::init(None);
    let (tx, rx) = channel::<Value>();
    let io: Arc<Mutex<dyn DapTransport>> = Arc::new(Mutex::new(Mock { rx, rec: rec.clone() }));
    let rec2 = rec.clone();
    let h = std::thread::spawn(move || {
        let r = std::panic::catch_unwind(std::panic::AssertUnwindSafe(|| DebugSession::new(io).run(vec![])));
        let res = match r { Ok(Ok(())) => "ok".to_string(), Ok(Err(e)) => format!("err:{e:#}"), Err(_) => "panic".to_string() };
        rec2.rec(json!({"t": "end", "res": res}));
    });
    let mut obs = Observed::default();
    let mut tx = Some(tx);
    let mut seen_lines = 0usize;
    for (i, r) in reqs.iter().enumerate() {
        if h.is_finished() {
            rec.rec(json!({"t": "req", "i": i, "cmd": r.cmd, "closed": true}));
            continue;
        }
        // refresh what we know from the wire (the worker re-reads its own log: simple and rarely done)
        let text = std::fs::read_to_string(log).unwrap_or_default();
        for l in text.lines().skip(seen_lines) {
            seen_lines += 1;
            let Ok(v) = serde_json::from_str::<Value>(l) else { continue };
            let m = &v["m"];
            if m["event"] == "stopped" { if let Some(t) = m["body"]["threadId"].as_i64() { obs.thread_id = Some(t); } }
            if m["type"] == "response" && m["command"] == "stackTrace" {
                if let Some(id) = m["body"]["stackFrames"][0]["id"].as_i64() { obs.frame_id = Some(id); }
            }
            if m["type"] == "response" && m["command"] == "scopes" {
                if let Some(id) = m["body"]["scopes"][0]["variablesReference"].as_i64() { obs.vars_ref = Some(id); }
            }
        }
        let args = build_args(&r.cmd, &r.mutn, r.param, variant, &obs);
        let mut msg = json!({"seq": r.cseq, "type": "request", "command": r.cmd});
        if let Some(a) = args { msg["arguments"] = a; }
        if force == "fwdlate" && matches!(r.cmd.as_str(), "continue" | "configurationDone" | "next" | "stepOut") {
            HOLD_FWD[0].store(1, Ordering::SeqCst);
            HOLD_FWD[1].store(1, Ordering::SeqCst);
        }
        rec.rec(json!({"t": "req", "i": i, "cmd": r.cmd, "msg": msg}));
        if tx.as_ref().unwrap().send(msg).is_err() { continue; }
        // the request is answered completely when the session asks for the next message (or has ended):
        // the session reads once per loop iteration, so request i is done at read number i+2
        let t0 = Instant::now();
        loop {
            if READS.load(Ordering::SeqCst) >= i as u64 + 2 { break; }
            if h.is_finished() { break; }
            if t0.elapsed() > Duration::from_secs(40) { rec.rec(json!({"t": "hang", "i": i})); unsafe { libc::_exit(3) } }
            std::thread::sleep(Duration::from_micros(300));
        }
    }
    RELEASE.store(1, Ordering::SeqCst);
    drop(tx.take());
    let t0 = Instant::now();
    while !h.is_finished() && t0.elapsed() < Duration::from_secs(20) { std::thread::sleep(Duration::from_millis(1)); }
    // the debuggee ran to its exit: everything it printed is in the pipes; wait (generously: the machine may be
    // loaded) until the forwarders have delivered it, so that `output-lost` is never a scheduling artefact
    if EXITED.load(Ordering::SeqCst) > 0 && LAUNCHES.load(Ordering::SeqCst) == 1 {
        let t0 = Instant::now();
        while (OUT_BYTES[0].load(Ordering::SeqCst) < expected_len.0 || OUT_BYTES[1].load(Ordering::SeqCst) < expected_len.1)
            && t0.elapsed() < Duration::from_secs(20) {
            std::thread::sleep(Duration::from_millis(2));
        }
    }
    // let the forwarders finish (the debugger is dropped with the session: pipes reach EOF)
    let mut last = WRITES.load(Ordering::SeqCst);
    let mut quiet = Instant::now();
    let t0 = Instant::now();
    while quiet.elapsed() < Duration::from_millis(60) && t0.elapsed() < Duration::from_secs(3) {
        std::thread::sleep(Duration::from_millis(2));
        let now = WRITES.load(Ordering::SeqCst);
        if now != last { last = now; quiet = Instant::now(); }
    }
    rec.rec(json!({"t": "done"}));
    unsafe { libc::_exit(0) }
}

// ------------------------------------------------------------------------------------------------
// parent: sessions -> workers -> answers + oracle

struct Session { variant: String, force: String, new_line: String, reqs: Vec<(String, Option<Req>)> }

fn parse_sessions(lines: &[String]) -> Vec<Session> {
    let mut out: Vec<Session> = vec![];
    for l in lines {
        let t: Vec<&str> = l.split(' ').filter(|x| !x.is_empty()).collect();
        match t.as_slice() {
            ["C12", "new", _sid, variant, force] if ["plain", "threads"].contains(variant) && ["free", "fwdlate"].contains(force) => {
                out.push(Session { variant: variant.to_string(), force: force.to_string(), new_line: l.clone(), reqs: vec![] });
            }
            ["C12", "sched", ..] => {} // recomputed from the run
            ["C12", "req", cseq, cmd, mutn, param, ..] if !out.is_empty() && cseq.parse::<i64>().is_ok() && param.parse::<u64>().is_ok()
                && COMMANDS.contains(cmd) && MUTS.contains(mutn) => {
                let r = Req { cseq: cseq.parse().unwrap(), cmd: cmd.to_string(), mutn: mutn.to_string(), param: param.parse().unwrap() };
                let base = format!("C12 req {cseq} {cmd} {mutn} {param}");
                out.last_mut().unwrap().reqs.push((base, Some(r)));
            }
            _ => {
                if out.is_empty() { out.push(Session { variant: "plain".into(), force: "free".into(), new_line: String::new(), reqs: vec![] }); }
                out.last_mut().unwrap().reqs.push((l.clone(), None));
            }
        }
    }
    out
}

fn run_workers(sessions: &[Session], dir: &Path, expected: &[(Vec<u8>, Vec<u8>); 2]) -> Vec<(PathBuf, String)> {
    let par = std::env::var("C12_PAR").ok().and_then(|s| s.parse().ok()).unwrap_or(6usize);
    let mut results: Vec<(PathBuf, String)> = (0..sessions.len()).map(|i| (dir.join(format!("s{i}.jsonl")), String::new())).collect();
    let mut running: Vec<(i32, usize, Instant)> = vec![];
    let mut next = 0usize;
    while next < sessions.len() || !running.is_empty() {
        while next < sessions.len() && running.len() < par {
            let s = &sessions[next];
            let reqs: Vec<Req> = s.reqs.iter().filter_map(|(_, r)| r.as_ref().map(|r| Req { cseq: r.cseq, cmd: r.cmd.clone(), mutn: r.mutn.clone(), param: r.param })).collect();
            let pid = unsafe { libc::fork() };
            if pid == 0 {
                // quiet worker: the library logs to stderr in places
                let ex = if s.variant == "threads" { &expected[1] } else { &expected[0] };
                worker(&s.variant, &s.force, &reqs, &results[next].0, (ex.0.len() as u64, ex.1.len() as u64));
            }
            assert!(pid > 0, "fork failed");
            running.push((pid, next, Instant::now()));
            next += 1;
        }
        let mut i = 0;
        while i < running.len() {
            let (pid, idx, t0) = running[i];
            let mut st = 0;
            let r = unsafe { libc::waitpid(pid, &mut st, libc::WNOHANG) };
            if r == pid {
                results[idx].1 = if libc::WIFEXITED(st) { format!("exit{}", libc::WEXITSTATUS(st)) } else { format!("signal{}", libc::WTERMSIG(st)) };
                running.swap_remove(i);
                continue;
            }
            if t0.elapsed() > Duration::from_secs(120) {
                unsafe { libc::kill(pid, libc::SIGKILL); libc::waitpid(pid, &mut st, 0); }
                results[idx].1 = "watchdog".into();
                running.swap_remove(i);
                continue;
            }
            i += 1;
        }
        std::thread::sleep(Duration::from_millis(2));
    }
    results
}

#[derive(Clone, Debug)]
enum Rec { Req { closed: bool, cmd: String }, Read, W(Value), A { w: u64, seq: i64 }, End(String), Hang, Done }

fn load_log(p: &Path) -> Vec<Rec> {
    let text = std::fs::read_to_string(p).unwrap_or_default();
    text.lines().filter_map(|l| {
        let v: Value = serde_json::from_str(l).ok()?;
        Some(match v["t"].as_str()? {
            "req" => Rec::Req { closed: v["closed"] == true, cmd: v["cmd"].as_str().unwrap_or("").to_string() },
            "read" => Rec::Read,
            "w" => Rec::W(v["m"].clone()),
            "a" => Rec::A { w: v["w"].as_u64()?, seq: v["seq"].as_i64()? },
            "end" => Rec::End(v["res"].as_str()?.to_string()),
            "hang" => Rec::Hang,
            "done" => Rec::Done,
            _ => return None,
        })
    }).collect()
}

fn is_fwd_output(m: &Value) -> bool {
    m["event"] == "output" && (m["body"]["category"] == "stdout" || m["body"]["category"] == "stderr")
}
fn is_progress(m: &Value) -> bool { m["event"].as_str().is_some_and(|e| e.starts_with("progress")) }

/// canonical token of one wire message (no bodies, no adapter sequence numbers)
fn canon(m: &Value) -> String {
    if m["type"] == "response" {
        format!("R.{}.{}.{}", m["command"].as_str().unwrap_or("?"), if m["success"] == true { "ok" } else { "err" }, m["request_seq"])
    } else if m["type"] == "event" {
        let e = m["event"].as_str().unwrap_or("?");
        match e {
            "stopped" => format!("E.stopped.{}", m["body"]["reason"].as_str().unwrap_or("?").replace(' ', "_")),
            "thread" | "breakpoint" | "module" | "loadedSource" => format!("E.{e}.{}", m["body"]["reason"].as_str().unwrap_or("?")),
            "output" => format!("E.output.{}", m["body"]["category"].as_str().unwrap_or("?")),
            _ => format!("E.{e}"),
        }
    } else { "M.unknown".into() }
}

struct Answer { tokens: Vec<String>, ended: Option<String>, closed: bool, hang: bool, msgs: Vec<Value> }

/// per request: the messages written between its `req` record and the next one
fn split_answers(log: &[Rec], nreq: usize) -> Vec<Answer> {
    let mut out: Vec<Answer> = vec![];
    for r in log {
        match r {
            Rec::Req { closed, .. } => out.push(Answer { tokens: vec![], ended: None, closed: *closed, hang: false, msgs: vec![] }),
            Rec::W(m) => if let Some(a) = out.last_mut() {
                if !is_fwd_output(m) && !is_progress(m) { a.tokens.push(canon(m)); }
                a.msgs.push(m.clone());
            },
            Rec::End(res) => if let Some(a) = out.last_mut() { a.ended = Some(res.clone()); },
            Rec::Hang => if let Some(a) = out.last_mut() { a.hang = true; },
            _ => {}
        }
    }
    while out.len() < nreq { out.push(Answer { tokens: vec![], ended: None, closed: false, hang: true, msgs: vec![] }); }
    out
}

/// hints the Lean session model cannot know: what the *debuggee* did (never what the adapter owes)
fn hints(cmd: &str, a: &Answer) -> String {
    let has = |p: &str| a.tokens.iter().any(|t| t.starts_with(p));
    let outcome = if has("E.exited") { "exit".to_string() }
        else if let Some(t) = a.tokens.iter().find(|t| t.starts_with("E.stopped.")) { format!("stop:{}", &t["E.stopped.".len()..]) }
        else { "none".to_string() };
    let ts = a.tokens.iter().filter(|t| *t == "E.thread.started").count();
    let te = a.tokens.iter().filter(|t| *t == "E.thread.exited").count();
    // evaluate on a live debuggee: whether the expression could be read is a property of the debuggee state
    let ev = if cmd == "evaluate" { if has("R.evaluate.ok") { " h:evok" } else { " h:everr" } } else { "" };
    format!("h:{outcome} ts:{ts} te:{te}{ev}")
}

fn closed_by_client(res: &str) -> bool { res.contains("DAP connection closed") }

fn answer_line(a: &Answer) -> String {
    if a.closed { return "closed".into(); }
    if a.hang { return "hang".into(); }
    let mut t = a.tokens.clone();
    match a.ended.as_deref() {
        Some("ok") => t.push("end".into()),
        Some("panic") => t.push("panic".into()),
        // an `Err` of `run` that is not the driver closing the connection after the last request
        Some(res) if !closed_by_client(res) => t.push("dropped".into()),
        _ => {}
    }
    enc_list(&t, |s| s.clone())
}

// ------------------------------------------------------------------------------------------------
// oracle: independent wire checker (five clauses)

fn fail_suffix(cmd: &str, st: (bool, bool, bool)) -> String {
    let (launched, started, over) = st;
    let st = if !launched { "before-launch" } else if over { "after-exit" } else if !started { "before-start" } else { "live" };
    format!("{cmd}-{st}")
}

fn oracle(s: &Session, log: &[Rec], status: &str, expected: &(Vec<u8>, Vec<u8>), out: &mut Out) {
    let replay = |extra: Value| -> Value {
        let lines: Vec<String> = std::iter::once(s.new_line.clone()).chain(s.reqs.iter().map(|(l, _)| l.clone())).collect();
        json!({"session": lines, "detail": extra})
    };
    let reqs: Vec<&Req> = s.reqs.iter().filter_map(|(_, r)| r.as_ref()).collect();
    // ---- clause 1 + 5: exactly one response per request, matching request_seq/command; failing request -> error response
    // responses attributed to the request they follow; debuggee state *at the time of the request* for stable keys
    let mut per_req: Vec<(bool, Vec<Value>, (bool, bool, bool))> = vec![];
    let (mut launched, mut started, mut over) = (false, false, false);
    for r in log {
        match r {
            Rec::Req { closed, .. } => per_req.push((*closed, vec![], (launched, started, over))),
            Rec::W(m) => {
                if m["type"] == "response" { if let Some(p) = per_req.last_mut() { p.1.push(m.clone()); } }
                if m["type"] == "response" && m["command"] == "launch" && m["success"] == true { launched = true; started = false; over = false; }
                if m["type"] == "response" && m["command"] == "configurationDone" && m["success"] == true { started = true; }
                if m["event"] == "exited" || m["event"] == "terminated" { over = true; }
            }
            _ => {}
        }
    }
    let hung = log.iter().any(|r| matches!(r, Rec::Hang));
    for (i, (closed, rsps, st)) in per_req.iter().enumerate() {
        let Some(rq) = reqs.get(i) else { continue };
        if *closed { continue; }
        let sfx = fail_suffix(&rq.cmd, *st);
        out.oracle_evals += 1;
        if rsps.is_empty() {
            if hung || status == "watchdog" { out.oracle_fail(&format!("adapter-hang:{sfx}"), &format!("request {} ({}) never answered: the adapter hangs", rq.cseq, rq.cmd), replay(json!({"request": i}))); }
            else if status.starts_with("signal") { out.oracle_fail(&format!("adapter-crash:{sfx}"), &format!("worker died ({status}) while answering {}", rq.cmd), replay(json!({"request": i}))); }
            else { out.oracle_fail(&format!("no-response:{sfx}"), &format!("request {} ({}) got no response", rq.cseq, rq.cmd), replay(json!({"request": i}))); }
            continue;
        }
        if rsps.len() > 1 {
            let shape: Vec<String> = rsps.iter().map(canon).collect();
            out.oracle_fail(&format!("two-responses-for-one-request:{sfx}"),
                &format!("request seq {} ({}) got {} responses: {}", rq.cseq, rq.cmd, rsps.len(), shape.join(" ")), replay(json!({"request": i, "responses": shape})));
        }
        for m in rsps {
            if m["request_seq"].as_i64() != Some(rq.cseq) || m["command"].as_str() != Some(&rq.cmd) {
                out.oracle_fail(&format!("response-mismatch:{}", rq.cmd), &format!("response {} does not match request seq {} command {}", canon(m), rq.cseq, rq.cmd), replay(json!({"request": i})));
            }
        }
        // clause 5: a request that cannot succeed (a reading of the protocol, not of the code): a required argument is
        // absent / ill-typed, the command is unknown, the program does not exist, or there is no debuggee to act on
        let needs_dbg = matches!(rq.cmd.as_str(), "setBreakpoints" | "configurationDone" | "threads" | "stackTrace" | "scopes" | "continue" | "next" | "stepIn" | "stepOut" | "pause" | "evaluate");
        let required_arg = matches!(rq.cmd.as_str(), "launch" | "setBreakpoints" | "stackTrace" | "scopes" | "variables" | "evaluate");
        let bad_args = required_arg && matches!(rq.mutn.as_str(), "missing" | "illtyped" | "noargs");
        let must_fail = rq.cmd == "frobnicate" || bad_args || (rq.cmd == "launch" && rq.mutn == "nofile") || (needs_dbg && !st.0);
        if must_fail && rsps.iter().all(|m| m["success"] == true) {
            out.oracle_fail(&format!("failing-request-reported-success:{sfx}"), &format!("request {} {} ({}) cannot succeed but the only response says success", rq.cseq, rq.cmd, rq.mutn), replay(json!({"request": i})));
        }
    }
    // a connection dropped by the adapter (run returned Err / panicked before the client closed)
    {
        let mut last_cmd = "?".to_string(); let mut nreq = 0usize;
        for r in log {
            match r {
                Rec::Req { cmd, .. } => { last_cmd = cmd.clone(); nreq += 1; }
                Rec::End(res) => {
                    out.oracle_evals += 1;
                    if res == "panic" {
                        out.oracle_fail(&format!("adapter-panic:{last_cmd}"), &format!("the session thread panicked while handling {last_cmd}"), replay(json!({"request": nreq})));
                    } else if res != "ok" && !closed_by_client(res) {
                        out.oracle_fail(&format!("connection-dropped:{last_cmd}"), &format!("the adapter ended the session with an error while handling {last_cmd}: {res}"), replay(json!({"request": nreq})));
                    }
                }
                _ => {}
            }
        }
    }
    // ---- clause 2: seq = 1,2,3,... in wire order
    let wire: Vec<&Value> = log.iter().filter_map(|r| if let Rec::W(m) = r { Some(m) } else { None }).collect();
    out.oracle_evals += 1;
    for (k, m) in wire.iter().enumerate() {
        if m["seq"].as_i64() != Some(k as i64 + 1) {
            let who = |m: &Value| if is_fwd_output(m) { "forwarder" } else { "session" };
            let prev = if k > 0 { who(wire[k - 1]) } else { "-" };
            out.oracle_fail("seq-out-of-wire-order", &format!("message #{} on the wire ({} by {}) carries seq {} (previous message by {})", k + 1, canon(m), who(m), m["seq"], prev),
                replay(json!({"position": k + 1, "seq": m["seq"], "force": s.force})));
            break;
        }
    }
    {
        let mut seen: std::collections::BTreeSet<i64> = Default::default();
        for m in &wire {
            let q = m["seq"].as_i64().unwrap_or(-1);
            if q < 1 || !seen.insert(q) {
                out.oracle_fail("seq-duplicate-or-invalid", &format!("sequence number {q} of {} is repeated or not positive", canon(m)), replay(json!({"seq": q})));
                break;
            }
        }
    }
    // ---- clause 3 + 4: lifecycle events once and ordered, causal order, nothing after `terminated`
    // (a `launch` request opens a new lifecycle: the client asked for a new debuggee)
    out.oracle_evals += 1;
    let (mut n_exited, mut n_terminated) = (0, 0);
    let mut terminated_at: Option<usize> = None;
    let mut live_threads: std::collections::BTreeSet<i64> = Default::default();
    let mut running = false; // between `continued` and the next `stopped`/`exited`
    let mut ever_exited = false;
    let mut reported: std::collections::BTreeSet<String> = Default::default();
    let mut fail = |out: &mut Out, key: String, what: String| { if reported.insert(key.clone()) { out.oracle_fail(&key, &what, replay(json!({}))); } };
    let mut k = 0usize;
    for r in log {
        let m = match r {
            Rec::Req { cmd, closed, .. } => { if cmd == "launch" && !*closed { terminated_at = None; n_exited = 0; n_terminated = 0; } continue; }
            Rec::W(m) => { k += 1; m }
            _ => continue,
        };
        if m["type"] == "response" && m["command"] == "launch" && m["success"] == true { live_threads.clear(); running = false; }
        if m["type"] != "event" { continue; }
        let ev = m["event"].as_str().unwrap_or("");
        if let Some(t) = terminated_at {
            let key = if is_fwd_output(m) { "output-after-terminated".to_string() } else { format!("event-after-terminated:{ev}") };
            fail(out, key, format!("`{}` (seq {}) is sent after `terminated` (wire position {} > {})", canon(m), m["seq"], k, t));
        }
        match ev {
            "exited" => {
                n_exited += 1; ever_exited = true;
                if n_exited > 1 { fail(out, "exited-twice".into(), "`exited` announced twice for one debuggee".into()); }
                if n_terminated > 0 { fail(out, "exited-after-terminated".into(), "`exited` after `terminated`".into()); }
                running = false;
            }
            "terminated" => {
                n_terminated += 1;
                if n_terminated > 1 { fail(out, "terminated-twice".into(), "`terminated` announced twice for one debuggee".into()); }
                terminated_at = Some(k);
            }
            "continued" => {
                if running { fail(out, "continued-twice-without-stop".into(), "`continued` announced while already announced as running (no stop in between)".into()); }
                running = true;
            }
            "stopped" => { running = false; }
            "thread" => {
                let id = m["body"]["threadId"].as_i64().unwrap_or(-1);
                match m["body"]["reason"].as_str().unwrap_or("") {
                    "started" => if !live_threads.insert(id) { fail(out, "thread-started-twice".into(), format!("thread {id} announced as started twice")); },
                    "exited" => if !live_threads.remove(&id) { fail(out, "thread-exit-announced-without-live-thread".into(), format!("thread {id} announced as exited but it is not a live announced thread")); },
                    _ => {}
                }
            }
            _ => {}
        }
    }
    // ---- forwarded output: every line exactly once, in order, none invented (only with a single launch)
    let launches = wire.iter().filter(|m| m["type"] == "response" && m["command"] == "launch" && m["success"] == true).count();
    if launches == 1 {
        out.oracle_evals += 1;
        for (cat, exp) in [("stdout", &expected.0), ("stderr", &expected.1)] {
            let got: Vec<u8> = wire.iter().filter(|m| m["event"] == "output" && m["body"]["category"] == cat)
                .flat_map(|m| m["body"]["output"].as_str().unwrap_or("").as_bytes().to_vec()).collect();
            if !exp.starts_with(&got) {
                fail(out, format!("output-corrupted:{cat}"), format!("forwarded {cat} ({} bytes) is not a prefix of what the debuggee prints", got.len()));
            } else if ever_exited && got.len() != exp.len() && log.iter().any(|r| matches!(r, Rec::Done)) {
                fail(out, format!("output-lost:{cat}"), format!("the debuggee exited after printing {} bytes of {cat}, {} were forwarded", exp.len(), got.len()));
            }
        }
    }
}

/// writer model tie: reconstruct a schedule (list of writer ids; a writer's steps alternate `alloc`, `write`)
/// from the allocation log and the wire, lazily allocating; the answer is the wire's seq numbers
fn sched_line(log: &[Rec]) -> (String, String) {
    let mut owner: std::collections::BTreeMap<i64, u64> = Default::default();
    for r in log { if let Rec::A { w, seq } = r { owner.insert(*seq, *w); } }
    let wire: Vec<(u64, i64)> = log.iter().filter_map(|r| if let Rec::W(m) = r {
        let w = if m["event"] == "output" && m["body"]["category"] == "stdout" { 1 } else if m["event"] == "output" && m["body"]["category"] == "stderr" { 2 } else { 0 };
        Some((w, m["seq"].as_i64().unwrap_or(-1)))
    } else { None }).collect();
    let mut steps: Vec<u64> = vec![];
    let mut next = 1i64;
    for (w, s) in &wire {
        while next <= *s {
            match owner.get(&next) { Some(o) => steps.push(*o), None => return ("C12 sched -".into(), format!("unreconstructible:no-allocation-of-{next}")) }
            next += 1;
        }
        steps.push(*w);
    }
    let seqs: Vec<i64> = wire.iter().map(|x| x.1).collect();
    (format!("C12 sched {}", enc_list(&steps, |w| w.to_string())), enc_list(&seqs, |s| s.to_string()))
}

fn native_output(variant: &str) -> (Vec<u8>, Vec<u8>) {
    let mut c = std::process::Command::new(prog_bin());
    if variant == "threads" { c.arg("threads"); }
    let o = c.output().expect("run debuggee natively");
    (o.stdout, o.stderr)
}

pub fn exec(req: &[String], out: &mut Out, dir: &Path) {
    ensure_prog();
    let expected = [native_output("plain"), native_output("threads")];
    let sessions = parse_sessions(req);
    let sdir = dir.join("sessions");
    std::fs::create_dir_all(&sdir).unwrap();
    let results = run_workers(&sessions, &sdir, &expected);
    for (s, (path, status)) in sessions.iter().zip(results.iter()) {
        if !s.new_line.is_empty() { out.pair(s.new_line.clone(), "ok".into()); }
        let log = load_log(path);
        let nreq = s.reqs.iter().filter(|(_, r)| r.is_some()).count();
        let answers = split_answers(&log, nreq);
        let mut k = 0usize;
        for (line, r) in &s.reqs {
            match r {
                None => out.pair(line.clone(), "bad-op".into()),
                Some(rq) => {
                    let a = &answers[k];
                    k += 1;
                    let ans = answer_line(a);
                    out.count(&format!("req.{}.{}", rq.cmd, rq.mutn), 1);
                    if a.tokens.iter().any(|t| t.ends_with(&format!(".err.{}", rq.cseq))) { out.count("answer.error_response", 1); }
                    if a.tokens.iter().any(|t| t.starts_with("E.stopped")) { out.count("answer.stopped", 1); }
                    if a.tokens.iter().any(|t| t == "E.exited") { out.count("answer.exited", 1); }
                    out.pair(format!("{line} {}", hints(&rq.cmd, a)), ans);
                }
            }
        }
        if !s.new_line.is_empty() {
            let (rq, ans) = sched_line(&log);
            let nfw = log.iter().filter(|r| matches!(r, Rec::W(m) if is_fwd_output(m))).count();
            out.count("wire.messages", log.iter().filter(|r| matches!(r, Rec::W(_))).count() as u64);
            out.count("wire.forwarder_output_events", nfw as u64);
            out.pair(rq, ans);
        }
        let ex = if s.variant == "threads" { &expected[1] } else { &expected[0] };
        oracle(s, &log, status, ex, out);
        out.sample(json!({"session": s.new_line, "requests": s.reqs.iter().map(|(l, _)| l.clone()).collect::<Vec<_>>(),
            "answers": answers.iter().map(|a| a.tokens.join(",")).collect::<Vec<_>>() }));
    }
}

pub fn run(args: &[String]) {
    let a = parse_args(args);
    let mut out = Out::new(&a.out);
    let req = match &a.replay {
        Some(f) => read_lines(f),
        None => { let mut rng = Rng::new(a.seed); gen_requests(&mut rng, a.n, &mut out) }
    };
    let dir = a.out.clone();
    exec(&req, &mut out, &dir);
    out.finish();
}
