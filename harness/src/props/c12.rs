//! C12: the DAP adapter (`DebugSession`) driven in-process over a mock transport.
//!
//! * `gen_requests` derives request histories from a DAP grammar over EVERY command of `dispatch` (valid /
//!   missing / ill-typed / absent arguments, repeated and out-of-order commands, every session phase,
//!   cancellation ahead of / after / of non-existent requests and of progress ids, stepping over thread creation).
//! * `exec` runs every session of a request file in a forked worker process (the tracer calls
//!   `waitpid(-1)`), records the wire exactly as written, and writes for each request line the
//!   canonicalised list of messages the adapter wrote in answer to it (K: compared with the Lean session
//!   model `Driver.C12`), plus one `sched` line per session tying the Lean *writer* model to the observed
//!   sequence numbers.
//! * `oracle` is an independent wire checker for the five clauses of the property (O).
use crate::util::*;
use bugstalker::dap::transport::DapTransport;
use bugstalker::dap::yadap::session::DebugSession;
use serde_json::{Value, json};
use std::collections::{BTreeMap, BTreeSet};
use std::io::Write as _;
use std::path::{Path, PathBuf};
use std::sync::atomic::{AtomicI64, AtomicU64, Ordering};
use std::sync::mpsc::{Receiver, channel};
use std::sync::{Arc, Mutex};
use std::time::{Duration, Instant};

// ------------------------------------------------------------------------------------------------
// grammar

/// commands of the grammar: every arm of `DebugSession::dispatch` (tools/props/C12.py compares this list with
/// the table extracted from the source on every run) and `frobnicate`, which `dispatch` does not know
const COMMANDS: &[&str] = &[
    "initialize", "launch", "attach", "configurationDone", "setBreakpoints", "setFunctionBreakpoints",
    "setInstructionBreakpoints", "setExceptionBreakpoints", "dataBreakpointInfo", "setDataBreakpoints",
    "breakpointLocations", "exceptionInfo", "threads", "stackTrace", "scopes", "variables", "setVariable",
    "continue", "restart", "restartFrame", "next", "stepIn", "stepInTargets", "stepOut", "stepBack",
    "reverseContinue", "pause", "gotoTargets", "goto", "evaluate", "setExpression", "completions",
    "loadedSources", "modules", "readMemory", "writeMemory", "disassemble", "terminate", "terminateThreads",
    "cancel", "runInTerminal", "disconnect", "source", "frobnicate",
];
/// argument mutations: `valid` well-typed arguments; `missing` the required member is absent;
/// `illtyped` the required member (or `arguments` itself) has the wrong JSON type; `noargs` no `arguments` member
/// at all; `nofile` (launch / attach) a well-typed target that does not exist.
const MUTS: &[&str] = &["valid", "missing", "illtyped", "noargs", "nofile"];
/// session phases of the coverage table (the phase a request is *handled* in, computed from the wire)
const PHASES: &[&str] = &["before-initialize", "before-launch", "before-configurationDone", "running", "stopped", "after-exit", "after-terminated"];
/// commands whose handler calls `consume_cancellation`
const CANCELLABLE: &[&str] = &["stackTrace", "evaluate", "readMemory", "disassemble"];
/// commands whose success depends on a fallible debugger call on the live debuggee (hint `h:ok` / `h:fail`)
const CALL_HINT: &[&str] = &["breakpointLocations", "setVariable", "restartFrame", "stepInTargets", "goto", "evaluate",
    "setExpression", "readMemory", "writeMemory", "disassemble", "terminateThreads"];
/// a successful answer to one of these changes what the debuggee does next: no output comparison for the session
const PERTURBING: &[&str] = &["restart", "restartFrame", "goto", "setVariable", "setExpression", "writeMemory",
    "terminateThreads", "setDataBreakpoints", "attach"];
const RESUMING: &[&str] = &["configurationDone", "continue", "next", "stepIn", "stepOut", "restart"];
/// the debuggee is mapped without ASLR: start of the executable's first segment (the ELF header)
const IMAGE_BASE: &str = "0x555555554000";

fn verif_root() -> PathBuf {
    // harness/ is CARGO_MANIFEST_DIR; the framework root is its parent
    Path::new(env!("CARGO_MANIFEST_DIR")).parent().unwrap().to_path_buf()
}
fn prog_src() -> PathBuf { verif_root().join("progs-src/c12_chatty.rs") }
fn prog_bin() -> PathBuf { verif_root().join("progs/c12_chatty") }

/// compile the debuggee on demand (parent process only)
fn ensure_prog() {
    let (src, bin) = (prog_src(), prog_bin());
    let fresh = match (std::fs::metadata(&src), std::fs::metadata(&bin)) {
        (Ok(s), Ok(b)) => b.modified().unwrap() >= s.modified().unwrap(),
        _ => false,
    };
    if fresh { return; }
    std::fs::create_dir_all(bin.parent().unwrap()).unwrap();
    let tmp = bin.with_extension(format!("tmp{}", std::process::id()));
    let st = std::process::Command::new("rustc").args(["+1.89", "-g", "-o"]).arg(&tmp).arg(&src)
        .current_dir(verif_root().join("harness")).status().expect("rustc");
    assert!(st.success(), "rustc failed on {}", src.display());
    std::fs::rename(&tmp, &bin).unwrap();
}

/// line number of the `BP:<name>` marker in the debuggee source
fn bp_line(name: &str) -> i64 {
    let src = std::fs::read_to_string(prog_src()).unwrap();
    src.lines().position(|l| l.contains(&format!("BP:{name}"))).map(|i| i as i64 + 1).unwrap_or(1)
}

/// source breakpoints selected by `param` (the Lean model knows only how many there are: `srcBpCount`)
fn src_bp_names(param: u64) -> Vec<&'static str> {
    match param {
        0..=3 => ["work", "end", "joined"][..param as usize].to_vec(),
        _ => ["spawn1", "joined"][..((param - 3) % 3) as usize].to_vec(),
    }
}

/// what the driver learned from the wire so far (to build *valid* arguments of later requests)
#[derive(Default)]
struct Observed { thread_id: Option<i64>, frame_id: Option<i64>, vars_ref: Option<i64>, goto_target: Option<i64>, live_stopped: bool }

fn build_args(cmd: &str, mutn: &str, param: u64, variant: &str, obs: &Observed) -> Option<Value> {
    if mutn == "noargs" { return None; }
    let tid = obs.thread_id.unwrap_or(1);
    let frame = obs.frame_id.unwrap_or(tid << 16);
    let src = prog_src().to_string_lossy().to_string();
    let valid = mutn == "valid" || mutn == "nofile";
    let missing = mutn == "missing";
    let v = match cmd {
        "initialize" => json!({"adapterID": "c12", "linesStartAt1": true}),
        "launch" => match mutn {
            "valid" => {
                let args: Vec<&str> = if variant == "threads" { vec!["threads"] } else { vec![] };
                json!({"program": prog_bin().to_string_lossy(), "args": args})
            }
            "nofile" => json!({"program": "/nonexistent/c12/no-such-program"}),
            "missing" => json!({"args": []}),
            _ => json!({"program": 17}),
        },
        // no live attach target in this harness: `valid` is rejected by `parse_sessions`
        "attach" => match mutn {
            "nofile" | "valid" => json!({"pid": 2_000_000_000}),
            "missing" => json!({"program": "x"}),
            _ => json!({"pid": [1]}),
        },
        "setBreakpoints" => if valid {
            let bps: Vec<Value> = src_bp_names(param).iter().map(|n| json!({"line": bp_line(n)})).collect();
            json!({"source": {"path": src}, "breakpoints": bps})
        } else if missing { json!({"breakpoints": [{"line": 3}]}) } else { json!({"source": {"path": 5}, "breakpoints": "x"}) },
        "setFunctionBreakpoints" => if valid {
            let names = [json!({"name": "work"}), json!({"name": "no_such_function_c12"}), json!({"condition": "1"})];
            json!({"breakpoints": names[..param.min(3) as usize].to_vec()})
        } else if missing { json!({}) } else { json!({"breakpoints": "x"}) },
        "setInstructionBreakpoints" => if valid {
            // none of these reaches the debugger: unparsable reference, no reference, negative address
            let bps = [json!({"instructionReference": "zz"}), json!({"offset": 4}), json!({"instructionReference": "0x10", "offset": -32})];
            json!({"breakpoints": bps[..param.min(3) as usize].to_vec()})
        } else if missing { json!({}) } else { json!({"breakpoints": 7}) },
        "setExceptionBreakpoints" => if valid { json!({"filters": ["signal", "process"]}) } else if missing { json!({}) } else { json!({"filters": "all"}) },
        "dataBreakpointInfo" => if valid { json!({"name": "acc"}) } else if missing { json!({}) } else { json!({"name": 5}) },
        "setDataBreakpoints" => if valid {
            let bps = [json!({"dataId": "expr:acc", "accessType": "read"}), json!({"accessType": "write"}), json!({"dataId": "expr:acc", "accessType": "write"})];
            json!({"breakpoints": bps[..param.min(3) as usize].to_vec()})
        } else if missing { json!({}) } else { json!({"breakpoints": {"dataId": 1}}) },
        "breakpointLocations" => if valid {
            match param % 3 {
                0 => json!({"source": {"path": src}, "line": bp_line("work")}),
                1 => json!({"instructionReference": IMAGE_BASE}),
                _ => json!({"line": 3}),
            }
        } else if missing { json!({}) } else { json!("ill-typed-arguments") },
        "stackTrace" => if valid { json!({"threadId": tid}) } else if missing { json!({"levels": 3}) } else { json!({"threadId": "one"}) },
        "scopes" | "restartFrame" | "stepInTargets" => if valid { json!({"frameId": frame}) } else if missing { json!({}) } else { json!({"frameId": [1]}) },
        "variables" => if valid { json!({"variablesReference": obs.vars_ref.unwrap_or(1)}) } else if missing { json!({"start": 0}) } else { json!({"variablesReference": "r"}) },
        "setVariable" => if valid { json!({"variablesReference": obs.vars_ref.unwrap_or(1), "name": "acc", "value": "5"}) }
            else if missing { json!({"variablesReference": 1, "name": "acc"}) } else { json!({"variablesReference": "r", "name": "acc", "value": "5"}) },
        "evaluate" => if valid { json!({"expression": "acc", "frameId": frame}) } else if missing { json!({"context": "watch"}) } else { json!({"expression": 12}) },
        "setExpression" => if valid { json!({"expression": "acc", "value": "7", "frameId": frame}) }
            else if missing { json!({"expression": "acc"}) } else { json!({"expression": "acc", "value": 7}) },
        "continue" | "next" | "stepIn" | "stepOut" | "pause" | "stepBack" | "reverseContinue" =>
            if valid { json!({"threadId": tid}) } else if missing { json!({}) } else { json!({"threadId": "t"}) },
        "gotoTargets" => if valid { json!({"source": {"path": src}, "line": bp_line("end")}) }
            else if missing { json!({"source": {"path": src}}) } else { json!({"source": {"path": src}, "line": "x"}) },
        // without a target learned from `gotoTargets` the request names an invalid one (an error response either way)
        "goto" => if valid { json!({"targetId": obs.goto_target.unwrap_or(-1), "threadId": tid}) } else if missing { json!({}) } else { json!({"targetId": "x"}) },
        "completions" => if valid { json!({"text": "acc", "column": if param % 2 == 0 { 4 } else { 1 }}) }
            else if missing { json!({"text": "acc"}) } else { json!({"text": 5, "column": 1}) },
        "readMemory" => if valid { json!({"memoryReference": IMAGE_BASE, "count": 16}) }
            else if missing { json!({"memoryReference": IMAGE_BASE}) } else { json!({"memoryReference": 5, "count": 16}) },
        // `valid`: nothing, or the eight bytes that are already there (the ELF identification)
        "writeMemory" => if valid { json!({"memoryReference": IMAGE_BASE, "data": if param % 2 == 0 { "" } else { "f0VMRgIBAQA=" }}) }
            else if missing { json!({"memoryReference": IMAGE_BASE}) } else { json!({"memoryReference": IMAGE_BASE, "data": 5}) },
        "disassemble" => if valid { json!({"memoryReference": IMAGE_BASE, "offset": 4096, "instructionCount": 4}) }
            else if missing { json!({"memoryReference": IMAGE_BASE}) } else { json!({"memoryReference": 5, "instructionCount": 4}) },
        "disconnect" => if valid { json!({"terminateDebuggee": true}) } else if missing { json!({}) } else { json!({"terminateDebuggee": "yes"}) },
        "terminateThreads" => if valid {
            match param % 4 {
                0 | 1 => json!({}),
                2 => json!({"threadIds": [999_999_999]}),
                // a real thread only while the debuggee is known to be stopped and alive (never signal a recycled id)
                _ => if obs.live_stopped && obs.thread_id.is_some() { json!({"threadIds": [tid]}) } else { json!({"threadIds": [-1]}) },
            }
        } else if missing { json!({}) } else { json!({"threadIds": "all"}) },
        "cancel" => {
            let n = param / 4;
            let pid = format!("bs-progress-{n}");
            if valid {
                match param % 4 { 0 => json!({"requestId": n}), 1 => json!({"progressId": pid}), 2 => json!({}), _ => json!({"requestId": n, "progressId": pid}) }
            } else if missing { json!({}) } else {
                match param % 4 { 0 => json!({"requestId": "x"}), 1 => json!({"progressId": 7}), 2 => json!({"requestId": n, "progressId": 7}), _ => json!("ill-typed-arguments") }
            }
        }
        "runInTerminal" => if valid {
            if param == 1 { json!({"kind": "integrated", "args": ["/bin/true"]}) } else { json!({"args": ["/nonexistent/c12/no-such-terminal"]}) }
        } else if missing { json!({"kind": "integrated"}) } else { json!({"args": "x"}) },
        "source" => if valid {
            match param % 3 { 0 => json!({"source": {"path": src}}), 1 => json!({"sourceReference": 1}), _ => json!({"source": {"path": "/nonexistent/c12/no-such-source.rs"}}) }
        } else if missing { json!({}) } else { json!("ill-typed-arguments") },
        _ => if valid || missing { json!({}) } else { json!("ill-typed-arguments") },
    };
    Some(v)
}

type Cmds = Vec<(String, String, u64, bool)>;

fn pick_mut(rng: &mut Rng) -> &'static str {
    match rng.below(10) { 0..=5 => "valid", 6 => "missing", 7 => "illtyped", 8 => "noargs", _ => "nofile" }
}

/// a parameter that makes sense for the command (selects among its valid forms)
fn pick_param(rng: &mut Rng, cmd: &str) -> u64 {
    match cmd {
        "cancel" => rng.below(4) + 4 * rng.range(1, 9),
        "runInTerminal" => 0, // a program that does not exist: never a child process next to a debuggee
        "setBreakpoints" => rng.below(6),
        _ => rng.below(4),
    }
}

/// commands that move the session to another phase or end it: in phase-coverage sessions they go last
fn phase_changing(c: &str) -> u8 {
    match c {
        "launch" | "attach" | "configurationDone" | "continue" | "next" | "stepIn" | "stepOut" | "terminateThreads" | "goto" | "restartFrame" => 1,
        // after `exited` the stop of a restarted debuggee is not announced: nothing that resumes follows a restart
        "restart" => 2,
        _ => 0,
    }
}

/// request histories: (A) a well-ordered prefix followed by a mixed tail, (B) out of order from the start,
/// (C) fully random, (D) cancellation, (E) stepping over thread creation, (F) phase coverage: every command of
/// `dispatch` dealt from a shuffled deck into sessions that establish each of the seven phases.
pub fn gen_requests(rng: &mut Rng, n: u64, out: &mut Out) -> Vec<String> {
    let mut req = vec![];
    let mut made = 0u64;
    let mut sid = 0u64;
    let all: Vec<&str> = COMMANDS.iter().copied().filter(|c| *c != "disconnect" && *c != "terminate").collect();
    // commands safe in a random position (restart is placed by the dedicated shapes only: after `exited` its stop
    // is not announced, and what a later step did could not be read off the wire)
    let tail_cmds: Vec<&str> = all.iter().copied().filter(|c| *c != "restart" && *c != "attach").collect();
    let mut decks: Vec<Vec<(&str, &str)>> = vec![vec![]; PHASES.len()];
    let mut phase_rr = rng.below(PHASES.len() as u64) as usize;
    while made < n {
        sid += 1;
        let shape = rng.below(20);
        let variant = if (9..=11).contains(&shape) || rng.chance(1, 3) { "threads" } else { "plain" };
        let force = match rng.below(4) { 0 => "fwdlate", _ => "free" };
        req.push(format!("C12 new {sid} {variant} {force}"));
        out.count(&format!("session.{variant}.{force}"), 1);
        let mut cmds: Cmds = vec![];
        macro_rules! push { ($c:expr, $m:expr, $p:expr) => { cmds.push(($c.to_string(), $m.to_string(), $p, false)) }; }
        macro_rules! piped { ($c:expr, $m:expr, $p:expr) => { cmds.push(($c.to_string(), $m.to_string(), $p, true)) }; }
        match shape {
            0..=2 => { // (A)
                out.count("shape.A-ordered-prefix", 1);
                push!("initialize", "valid", 0);
                if rng.chance(1, 4) { push!("launch", pick_mut(rng), 0); }
                push!("launch", "valid", 0);
                if rng.chance(3, 4) { push!("setBreakpoints", "valid", rng.below(6)); }
                if rng.chance(1, 5) { push!("setBreakpoints", pick_mut(rng), rng.below(4)); }
                push!("configurationDone", "valid", 0);
                for _ in 0..rng.range(2, 12) {
                    let c = if rng.chance(1, 3) { "continue" } else { *rng.pick(&tail_cmds) };
                    push!(c, pick_mut(rng), pick_param(rng, c));
                }
            }
            3 => { // (B)
                out.count("shape.B-out-of-order", 1);
                if rng.chance(1, 2) { push!("initialize", "valid", 0); }
                for _ in 0..rng.range(1, 6) { let c = *rng.pick(&tail_cmds); push!(c, pick_mut(rng), pick_param(rng, c)); }
                push!("launch", pick_mut(rng), 0);
                if rng.chance(1, 2) { push!("launch", "valid", 0); }
                for _ in 0..rng.range(1, 8) {
                    let c = if rng.chance(1, 3) { *rng.pick(&["continue", "configurationDone", "next"]) } else { *rng.pick(&tail_cmds) };
                    push!(c, pick_mut(rng), pick_param(rng, c));
                }
            }
            4 => { // (C)
                out.count("shape.C-random", 1);
                for _ in 0..rng.range(3, 14) { let c = *rng.pick(&tail_cmds); push!(c, pick_mut(rng), pick_param(rng, c)); }
            }
            5..=8 => { // (D) cancellation; the sequence numbers of the session are known in advance: `base + i`
                out.count("shape.D-cancel", 1);
                let stopped = rng.chance(3, 4);
                push!("initialize", "valid", 0);
                let mut progress = 0u64; // progress ids taken so far (launch, modules, disassemble): the generator's own count
                if stopped || rng.chance(1, 2) {
                    push!("launch", "valid", 0); progress += 1;
                    if stopped { push!("setBreakpoints", "valid", rng.range(1, 3)); push!("configurationDone", "valid", 0); }
                }
                let base = rng.range(1, 5);
                let mut rot = rng.below(4) as usize; // the cancellable commands take turns
                for _ in 0..rng.range(3, 6) {
                    let target = CANCELLABLE[rot % 4]; rot += 1;
                    let at = base + cmds.len() as u64; // seq of the next request
                    match rng.below(8) {
                        0..=2 => { // cancel ahead by request id
                            let gap = rng.below(3); // other requests between the cancel and its target
                            push!("cancel", "valid", 4 * (at + 1 + gap));
                            for _ in 0..gap { let c = *rng.pick(&["threads", "loadedSources", "scopes", "evaluate", "stackTrace", "variables"]); push!(c, pick_mut(rng), 0); }
                            push!(target, if rng.chance(4, 5) { "valid" } else { pick_mut(rng) }, 0);
                            if target == "disassemble" { progress += 1; }
                            if rng.chance(1, 2) { push!(target, "valid", 0); if target == "disassemble" { progress += 1; } } // the same command again, not cancelled
                        }
                        3 => { // cancel a past request, then the command again
                            push!(target, "valid", 0); if target == "disassemble" { progress += 1; }
                            push!("cancel", "valid", 4 * at);
                            push!(target, "valid", 0); if target == "disassemble" { progress += 1; }
                        }
                        4 => { // cancel a request id nobody will use, or both ids
                            push!("cancel", "valid", 4 * (at + 1000) + if rng.chance(1, 2) { 0 } else { 3 });
                            push!(target, "valid", 0); if target == "disassemble" { progress += 1; }
                        }
                        5 | 6 => { // cancel by progress id: the id the next `disassemble` will take (exact unless a
                                   // `stackTrace` disassembled frames in between: then it is just some other id)
                            let delta = if rng.chance(3, 4) { 1 } else { rng.range(0, 3) };
                            push!("cancel", "valid", 4 * (progress + delta) + 1);
                            if rng.chance(1, 3) { push!("modules", "valid", 0); progress += 1; }
                            push!("disassemble", "valid", 0); progress += 1;
                            if rng.chance(1, 2) { push!("disassemble", "valid", 0); progress += 1; }
                        }
                        _ => { // ill-typed cancels: one of them records the request id before it fails
                            push!("cancel", "illtyped", 4 * (at + 1) + rng.below(4));
                            push!(target, "valid", 0); if target == "disassemble" { progress += 1; }
                        }
                    }
                }
                // fix the sequence numbers: consecutive from `base`
                let mut i = 0u64;
                for (c, m, p, _) in cmds.drain(..).collect::<Vec<_>>() { req.push(format!("C12 req {} {c} {m} {p}", base + i)); i += 1; made += 1; }
                if rng.chance(2, 3) { req.push(format!("C12 req {} disconnect valid 0", base + i)); made += 1; }
                continue;
            }
            9..=11 => { // (E) stop on the statement that spawns a thread, step over it, ask for the threads, run on
                out.count("shape.E-thread-steps", 1);
                push!("initialize", "valid", 0);
                push!("launch", "valid", 0);
                push!("setBreakpoints", "valid", rng.range(4, 5));
                push!("configurationDone", "valid", 0);
                if rng.chance(1, 3) { push!("threads", "valid", 0); }
                let step = *rng.pick(&["next", "next", "stepIn", "stepOut"]);
                push!(step, "valid", 0);
                if step != "next" { for _ in 0..rng.below(3) { let c = *rng.pick(&["next", "threads", "stackTrace", "pause", "stepIn"]); push!(c, "valid", 0); } }
                push!("threads", "valid", 0);
                // over the `join`: the worker is gone, the next `threads` announces its exit from the cache diff
                if step == "next" && rng.chance(3, 4) { push!("next", "valid", 0); push!("threads", "valid", 0); }
                for _ in 0..rng.range(1, 5) { let c = *rng.pick(&["next", "threads", "continue", "continue", "stepOut", "terminateThreads", "stackTrace"]); push!(c, "valid", if c == "terminateThreads" { 3 } else { 0 }); }
                if rng.chance(1, 2) { push!("threads", "valid", 0); }
            }
            _ => { // (F) phase coverage
                let ph = phase_rr; phase_rr = (phase_rr + 1) % PHASES.len();
                out.count(&format!("shape.F-phase.{}", PHASES[ph]), 1);
                if ph >= 1 { push!("initialize", "valid", 0); }
                if ph >= 2 { push!("launch", "valid", 0); }
                match PHASES[ph] {
                    "running" | "stopped" => { push!("setBreakpoints", "valid", 3); push!("setFunctionBreakpoints", "valid", 1); push!("configurationDone", "valid", 0); }
                    "after-exit" => { push!("configurationDone", "valid", 0); }
                    "after-terminated" => { if rng.chance(1, 2) { push!("configurationDone", "valid", 0); } push!("terminateThreads", "valid", 0); }
                    _ => {}
                }
                if decks[ph].len() < 10 {
                    let mut d: Vec<(&str, &str)> = vec![];
                    // (`attach`: the well-typed form names a process that does not exist - there is no live target here)
                    for c in &all { for m in ["valid", "valid", "missing", "illtyped", "noargs"] { d.push((c, if *c == "attach" && m == "valid" { "nofile" } else { m })); } }
                    for i in (1..d.len()).rev() { let j = rng.below(i as u64 + 1) as usize; d.swap(i, j); }
                    decks[ph] = d;
                }
                let k = if PHASES[ph] == "running" { 5 } else { rng.range(5, 9) as usize };
                let at = decks[ph].len() - k;
                let mut hand: Vec<(&str, &str)> = decks[ph].split_off(at);
                // a terminal program that really runs is a child of the adapter process: never next to a debuggee
                let spawns = ph <= 1 && hand.iter().any(|(c, m)| *c == "runInTerminal" && *m == "valid");
                if spawns { hand.retain(|(c, _)| *c != "launch"); }
                hand.sort_by_key(|(c, _)| phase_changing(c));
                if PHASES[ph] == "running" {
                    // each command is sent while the previous resume request is still being executed
                    for (c, m) in hand { push!("continue", "valid", 0); piped!(c, m, pick_param(rng, c)); }
                } else {
                    for (c, m) in hand {
                        let p = if c == "runInTerminal" && spawns { 1 } else { pick_param(rng, c) };
                        push!(c, m, p);
                    }
                }
            }
        }
        // how the session ends
        match rng.below(6) {
            0 => {}
            1 => push!("terminate", pick_mut(rng), 0),
            2 => push!("disconnect", "missing", 0),
            _ => push!("disconnect", pick_mut(rng), 0),
        }
        if rng.chance(1, 8) { push!("threads", "valid", 0); } // a request after the session has ended
        let mut cseq = rng.range(1, 5);
        for (c, m, p, piped) in cmds {
            if piped { req.push("C12 pipe".into()); }
            req.push(format!("C12 req {cseq} {c} {m} {p}"));
            cseq += rng.range(1, 3);
            made += 1;
        }
    }
    req
}

// ------------------------------------------------------------------------------------------------
// worker: one DebugSession in a forked process

struct Recorder { f: Mutex<std::fs::File> }
impl Recorder {
    fn rec(&self, v: Value) {
        let mut f = self.f.lock().unwrap();
        let _ = writeln!(f, "{v}");
    }
}

struct Mock { rx: Receiver<Value>, rec: Arc<Recorder> }
impl DapTransport for Mock {
    fn read_message(&mut self) -> anyhow::Result<Value> {
        // like the real transports, this blocks while the caller holds the transport mutex
        self.rec.rec(json!({"t": "read"}));
        READS.fetch_add(1, Ordering::SeqCst);
        let m = self.rx.recv().map_err(|_| anyhow::anyhow!("DAP connection closed"))?;
        // everything written from here to the next `got` is the answer to this request
        self.rec.rec(json!({"t": "got"}));
        GOT.fetch_add(1, Ordering::SeqCst);
        Ok(m)
    }
    fn write_message(&mut self, m: &Value) -> anyhow::Result<()> {
        self.rec.rec(json!({"t": "w", "m": m}));
        WRITES.fetch_add(1, Ordering::SeqCst);
        let fwd = m["event"] == "output" && (m["body"]["category"] == "stdout" || m["body"]["category"] == "stderr");
        if !fwd { SESSION_WRITES.fetch_add(1, Ordering::SeqCst); }
        if fwd {
            let i = if m["body"]["category"] == "stdout" { 0 } else { 1 };
            OUT_BYTES[i].fetch_add(m["body"]["output"].as_str().map(|s| s.len()).unwrap_or(0) as u64, Ordering::SeqCst);
        }
        if m["event"] == "exited" { EXITED.fetch_add(1, Ordering::SeqCst); }
        if m["type"] == "response" && m["success"] == true {
            let c = m["command"].as_str().unwrap_or("");
            if c == "launch" { LAUNCHES.fetch_add(1, Ordering::SeqCst); }
            if PERTURBING.contains(&c) { PERTURBED.fetch_add(1, Ordering::SeqCst); }
        }
        Ok(())
    }
}

static READS: AtomicU64 = AtomicU64::new(0);
static GOT: AtomicU64 = AtomicU64::new(0);
static WRITES: AtomicU64 = AtomicU64::new(0);
static SESSION_WRITES: AtomicU64 = AtomicU64::new(0);
static OUT_BYTES: [AtomicU64; 2] = [AtomicU64::new(0), AtomicU64::new(0)];
static EXITED: AtomicU64 = AtomicU64::new(0);
static LAUNCHES: AtomicU64 = AtomicU64::new(0);
static PERTURBED: AtomicU64 = AtomicU64::new(0);
/// number of forwarder allocations that are still to be held back (per forwarder) — `fwdlate` forcing
static HOLD_FWD: [AtomicI64; 2] = [AtomicI64::new(0), AtomicI64::new(0)];
static ALLOC_LOG: Mutex<Option<Arc<Recorder>>> = Mutex::new(None);
/// set by the driver when no further request will be sent: holds are released and no new hold starts
static RELEASE: AtomicU64 = AtomicU64::new(0);

fn sched_hook(name: &'static str, seq: i64) {
    let w = match name { "forwarder.stdout" => 1, "forwarder.stderr" => 2, _ => 0 };
    if let Some(r) = ALLOC_LOG.lock().unwrap().as_ref() { r.rec(json!({"t": "a", "w": w, "seq": seq})); }
    if w > 0 && HOLD_FWD[w - 1].fetch_sub(1, Ordering::SeqCst) > 0 && RELEASE.load(Ordering::SeqCst) == 0 {
        // hold this forwarder between its allocation and its write until the session thread has written
        // a message (which would then carry a larger number and be earlier on the wire). Since the repair the
        // forwarder holds the transport lock here, the session cannot write and the hold runs into its
        // time limit: the forced schedule no longer reorders (if it does, the oracle reports it)
        let base = SESSION_WRITES.load(Ordering::SeqCst);
        let t0 = Instant::now();
        while SESSION_WRITES.load(Ordering::SeqCst) == base && RELEASE.load(Ordering::SeqCst) == 0 && t0.elapsed() < Duration::from_millis(1500) {
            std::thread::sleep(Duration::from_micros(200));
        }
    } else if w > 0 {
        HOLD_FWD[w - 1].store(0, Ordering::SeqCst);
    }
}

/// the thread list the debugger hands to `refresh_threads_with_events` (an observation of the debuggee, taken
/// before the session diffs it against its cache)
fn thread_probe(ids: &[i64]) {
    if let Some(r) = ALLOC_LOG.lock().unwrap().as_ref() { r.rec(json!({"t": "tl", "ids": ids})); }
}

struct Req { cseq: i64, cmd: String, mutn: String, param: u64, piped: bool }

/// how much slower than an idle machine this one is right now: (1-minute load average / cpus), at least 1.
/// Launching a debuggee costs ~10 CPU-seconds (parallel DWARF loading): on a machine shared with other builds the
/// stall limits below are multiplied by this factor, so that a starved session is not taken for a hung adapter.
fn load_factor() -> u64 {
    let load = std::fs::read_to_string("/proc/loadavg").ok().and_then(|s| s.split(' ').next().and_then(|x| x.parse::<f64>().ok())).unwrap_or(0.0);
    let cpus = std::thread::available_parallelism().map(|n| n.get()).unwrap_or(1) as f64;
    ((load / cpus).ceil() as u64).clamp(1, 20)
}

/// direct children of this process (the debuggee, or a forked child that has not yet become it)
fn child_pids() -> Vec<i32> {
    let me = std::process::id();
    let mut out = vec![];
    for e in std::fs::read_dir("/proc").into_iter().flatten().flatten() {
        let p = e.file_name().to_string_lossy().to_string();
        if !p.chars().all(|c| c.is_ascii_digit()) { continue; }
        let st = std::fs::read_to_string(format!("/proc/{p}/stat")).unwrap_or_default();
        let after: Vec<&str> = st.rsplit(')').next().unwrap_or("").split_whitespace().collect();
        if after.get(1).and_then(|x| x.parse::<u32>().ok()) == Some(me) { if let Ok(pid) = p.parse() { out.push(pid); } }
    }
    out
}

/// what became of the debuggee PROCESS (seen through /proc, not through the adapter): `unload` a forked child that has
/// not yet executed the program, `alive` the program, `gone` no child (or only a dead one). Used when a request that
/// starts the debuggee is answered with an error: the debugger library may fail half-way (it does, under load, in the
/// thread-creation race of its tracer), and what the debuggee did is an observation, not something the adapter owes.
fn debuggee_state() -> &'static str {
    let mut st = "gone";
    for c in child_pids() {
        let stat = std::fs::read_to_string(format!("/proc/{c}/stat")).unwrap_or_default();
        let state = stat.rsplit(')').next().unwrap_or("").split_whitespace().next().unwrap_or("Z").to_string();
        if state == "Z" || state == "X" { continue; }
        let comm = std::fs::read_to_string(format!("/proc/{c}/comm")).unwrap_or_default();
        if comm.trim().starts_with("c12_chatty") { return "alive"; }
        st = "unload";
    }
    st
}

/// where every thread of this process and every child process is blocked (kept in the session log of a hang)
fn hang_diag() -> Value {
    let rd = |p: String| std::fs::read_to_string(p).unwrap_or_default().trim().to_string();
    let me = std::process::id();
    let mut tasks = vec![];
    for e in std::fs::read_dir("/proc/self/task").into_iter().flatten().flatten() {
        let t = e.file_name().to_string_lossy().to_string();
        tasks.push(json!({"tid": t, "comm": rd(format!("/proc/self/task/{t}/comm")), "wchan": rd(format!("/proc/self/task/{t}/wchan")),
            "syscall": rd(format!("/proc/self/task/{t}/syscall")), "stat": rd(format!("/proc/self/task/{t}/stat")).chars().take(80).collect::<String>()}));
    }
    let mut children = vec![];
    for e in std::fs::read_dir("/proc").into_iter().flatten().flatten() {
        let p = e.file_name().to_string_lossy().to_string();
        if !p.chars().all(|c| c.is_ascii_digit()) { continue; }
        let st = rd(format!("/proc/{p}/stat"));
        let after = st.rsplit(')').next().unwrap_or("").split_whitespace().map(String::from).collect::<Vec<_>>();
        if after.get(1).and_then(|x| x.parse::<u32>().ok()) == Some(me) {
            children.push(json!({"pid": p, "stat": st.chars().take(80).collect::<String>(), "wchan": rd(format!("/proc/{p}/wchan")), "syscall": rd(format!("/proc/{p}/syscall"))}));
        }
    }
    json!({"tasks": tasks, "children": children})
}

fn worker(variant: &str, force: &str, reqs: &[Req], log: &Path, expected_len: (u64, u64)) -> ! {
    // own process group (the watchdog kills the group), no inherited stdout/stderr (a forked child of the library
    // must not keep the pipes of `check` open), a small DWARF-loading pool (several sessions run side by side)
    unsafe {
        libc::setpgid(0, 0);
        let null = libc::open(c"/dev/null".as_ptr(), libc::O_WRONLY);
        if null >= 0 { libc::dup2(null, 1); libc::dup2(null, 2); }
    }
    if std::env::var_os("RAYON_NUM_THREADS").is_none() { unsafe { std::env::set_var("RAYON_NUM_THREADS", "4"); } }
    let rec = Arc::new(Recorder { f: Mutex::new(std::fs::File::create(log).unwrap()) });
    *ALLOC_LOG.lock().unwrap() = Some(rec.clone());
    bugstalker::dap::verif::set_sched_hook(Some(sched_hook));
    bugstalker::dap::verif::set_thread_probe(Some(thread_probe));
    bugstalker::debugger::rust::Environment::init(None);
    let (tx, rx) = channel::<Value>();
    let io: Arc<Mutex<dyn DapTransport>> = Arc::new(Mutex::new(Mock { rx, rec: rec.clone() }));
    let rec2 = rec.clone();
    let h = std::thread::spawn(move || {
        let r = std::panic::catch_unwind(std::panic::AssertUnwindSafe(|| DebugSession::new(io).run(vec![])));
        let res = match r { Ok(Ok(())) => "ok".to_string(), Ok(Err(e)) => format!("err:{e:#}"), Err(_) => "panic".to_string() };
        rec2.rec(json!({"t": "end", "res": res}));
    });
    let mut obs = Observed::default();
    let mut tx = Some(tx);
    let mut seen_lines = 0usize;
    let mut sent = 0u64;
    // the session reads once per loop iteration: it waits for message i when it has started read number i+1
    let wait_reads = |k: u64, i: usize| {
        let t0 = Instant::now();
        while READS.load(Ordering::SeqCst) < k && !h.is_finished() {
            if t0.elapsed() > Duration::from_secs(40 * load_factor()) {
                rec.rec(json!({"t": "hang", "i": i, "diag": hang_diag()}));
                // leave no stopped child behind (it would keep inherited descriptors open for ever)
                for c in child_pids() { unsafe { libc::kill(c, libc::SIGKILL); } }
                unsafe { libc::_exit(3) }
            }
            std::thread::sleep(Duration::from_micros(300));
        }
    };
    for (i, r) in reqs.iter().enumerate() {
        // a request is sent when the previous one is answered completely; a piped one right away
        if !r.piped { wait_reads(i as u64 + 1, i); }
        if h.is_finished() { break; }
        if !r.piped && i > 0 { rec.rec(json!({"t": "obs", "dbg": debuggee_state()})); }
        // refresh what we know from the wire (the worker re-reads its own log: simple and rarely done)
        let text = std::fs::read_to_string(log).unwrap_or_default();
        for l in text.lines().skip(seen_lines) {
            seen_lines += 1;
            let Ok(v) = serde_json::from_str::<Value>(l) else { continue };
            let m = &v["m"];
            if m["event"] == "stopped" { obs.live_stopped = true; if let Some(t) = m["body"]["threadId"].as_i64() { obs.thread_id = Some(t); } }
            if m["event"] == "continued" || m["event"] == "exited" || m["event"] == "terminated" { obs.live_stopped = false; }
            if m["type"] == "response" {
                match m["command"].as_str().unwrap_or("") {
                    "stackTrace" => if let Some(id) = m["body"]["stackFrames"][0]["id"].as_i64() { obs.frame_id = Some(id); },
                    "scopes" => if let Some(id) = m["body"]["scopes"][0]["variablesReference"].as_i64() { obs.vars_ref = Some(id); },
                    "gotoTargets" => if let Some(id) = m["body"]["targets"][0]["id"].as_i64() { obs.goto_target = Some(id); },
                    "launch" | "attach" | "restart" | "terminateThreads" => obs.live_stopped = false,
                    _ => {}
                }
            }
        }
        if r.piped { obs.live_stopped = false; }
        let args = build_args(&r.cmd, &r.mutn, r.param, variant, &obs);
        let mut msg = json!({"seq": r.cseq, "type": "request", "command": r.cmd});
        if let Some(a) = args { msg["arguments"] = a; }
        if force == "fwdlate" && matches!(r.cmd.as_str(), "continue" | "configurationDone" | "next" | "stepOut") {
            HOLD_FWD[0].store(1, Ordering::SeqCst);
            HOLD_FWD[1].store(1, Ordering::SeqCst);
        }
        rec.rec(json!({"t": "req", "i": i, "cmd": r.cmd, "msg": msg}));
        if tx.as_ref().unwrap().send(msg).is_err() { break; }
        sent += 1;
    }
    wait_reads(sent + 1, reqs.len());
    if !h.is_finished() { rec.rec(json!({"t": "obs", "dbg": debuggee_state()})); }
    RELEASE.store(1, Ordering::SeqCst);
    drop(tx.take());
    let t0 = Instant::now();
    while !h.is_finished() && t0.elapsed() < Duration::from_secs(20) { std::thread::sleep(Duration::from_millis(1)); }
    // requests the session never read (it had ended before): the connection was already closed for them
    for i in GOT.load(Ordering::SeqCst) as usize..reqs.len() { rec.rec(json!({"t": "req", "i": i, "cmd": reqs[i].cmd, "closed": true})); }
    // the debuggee ran to its exit: everything it printed is in the pipes; wait (generously: the machine may be
    // loaded) until the forwarders have delivered it, so that `output-lost` is never a scheduling artefact
    if EXITED.load(Ordering::SeqCst) > 0 && LAUNCHES.load(Ordering::SeqCst) == 1 && PERTURBED.load(Ordering::SeqCst) == 0 {
        let t0 = Instant::now();
        while (OUT_BYTES[0].load(Ordering::SeqCst) < expected_len.0 || OUT_BYTES[1].load(Ordering::SeqCst) < expected_len.1)
            && t0.elapsed() < Duration::from_secs(20) {
            std::thread::sleep(Duration::from_millis(2));
        }
    }
    // let the forwarders finish (the debugger is dropped with the session: pipes reach EOF)
    let mut last = WRITES.load(Ordering::SeqCst);
    let mut quiet = Instant::now();
    let t0 = Instant::now();
    while quiet.elapsed() < Duration::from_millis(60) && t0.elapsed() < Duration::from_secs(3) {
        std::thread::sleep(Duration::from_millis(2));
        let now = WRITES.load(Ordering::SeqCst);
        if now != last { last = now; quiet = Instant::now(); }
    }
    rec.rec(json!({"t": "done"}));
    unsafe { libc::_exit(0) }
}

// ------------------------------------------------------------------------------------------------
// parent: sessions -> workers -> answers + oracle

enum Item { Req(String, Req), Pipe(String), Bad(String) }
struct Session { variant: String, force: String, new_line: String, items: Vec<Item> }
impl Session {
    fn reqs(&self) -> Vec<&Req> { self.items.iter().filter_map(|i| if let Item::Req(_, r) = i { Some(r) } else { None }).collect() }
    fn lines(&self) -> Vec<String> {
        std::iter::once(self.new_line.clone()).chain(self.items.iter().map(|i| match i { Item::Req(l, _) | Item::Pipe(l) | Item::Bad(l) => l.clone() })).collect()
    }
}

fn parse_sessions(lines: &[String]) -> Vec<Session> {
    let mut out: Vec<Session> = vec![];
    let mut piped = false;
    for l in lines {
        let t: Vec<&str> = l.split(' ').filter(|x| !x.is_empty()).collect();
        match t.as_slice() {
            ["C12", "new", _sid, variant, force] if ["plain", "threads"].contains(variant) && ["free", "fwdlate"].contains(force) => {
                out.push(Session { variant: variant.to_string(), force: force.to_string(), new_line: l.clone(), items: vec![] });
                piped = false;
            }
            ["C12", "sched", ..] => {} // recomputed from the run
            ["C12", "pipe"] if !out.is_empty() => { out.last_mut().unwrap().items.push(Item::Pipe("C12 pipe".into())); piped = true; }
            ["C12", "req", cseq, cmd, mutn, param, ..] if !out.is_empty() && cseq.parse::<i64>().is_ok() && param.parse::<u64>().is_ok()
                && COMMANDS.contains(cmd) && MUTS.contains(mutn) && !(*cmd == "attach" && *mutn == "valid") => {
                let r = Req { cseq: cseq.parse().unwrap(), cmd: cmd.to_string(), mutn: mutn.to_string(), param: param.parse().unwrap(), piped };
                piped = false;
                out.last_mut().unwrap().items.push(Item::Req(format!("C12 req {cseq} {cmd} {mutn} {param}"), r));
            }
            _ => {
                if out.is_empty() { out.push(Session { variant: "plain".into(), force: "free".into(), new_line: String::new(), items: vec![] }); }
                out.last_mut().unwrap().items.push(Item::Bad(l.clone()));
            }
        }
    }
    out
}

/// A session whose worker stalled (40 s without an answer, or the 120 s watchdog) is run once more in a fresh
/// worker: a stall of the machine (this check shares it with other builds) is not a verdict about the adapter; a
/// hang of the adapter itself stalls again and is reported. The first log is kept as `s<i>.stalled.jsonl`.
fn run_workers(sessions: &[Session], dir: &Path, expected: &[(Vec<u8>, Vec<u8>); 2], out: &mut Out) -> Vec<(PathBuf, String)> {
    let mut results = run_workers_once(sessions, &(0..sessions.len()).collect::<Vec<_>>(), dir, expected);
    let stalled: Vec<usize> = (0..sessions.len()).filter(|i| results[*i].1 == "exit3" || results[*i].1 == "watchdog").collect();
    if !stalled.is_empty() {
        out.count("session.stalled_and_rerun", stalled.len() as u64);
        for i in &stalled { let _ = std::fs::rename(&results[*i].0, dir.join(format!("s{i}.stalled.jsonl"))); }
        let again = run_workers_once(sessions, &stalled, dir, expected);
        for i in stalled { results[i] = again[i].clone(); }
    }
    results
}

fn run_workers_once(sessions: &[Session], which: &[usize], dir: &Path, expected: &[(Vec<u8>, Vec<u8>); 2]) -> Vec<(PathBuf, String)> {
    let par = std::env::var("C12_PAR").ok().and_then(|s| s.parse().ok()).unwrap_or(4usize);
    let mut results: Vec<(PathBuf, String)> = (0..sessions.len()).map(|i| (dir.join(format!("s{i}.jsonl")), String::new())).collect();
    let mut running: Vec<(i32, usize, Instant)> = vec![];
    let mut nexti = 0usize;
    while nexti < which.len() || !running.is_empty() {
        while nexti < which.len() && running.len() < par {
            let next = which[nexti];
            let s = &sessions[next];
            let reqs: Vec<Req> = s.reqs().iter().map(|r| Req { cseq: r.cseq, cmd: r.cmd.clone(), mutn: r.mutn.clone(), param: r.param, piped: r.piped }).collect();
            let pid = unsafe { libc::fork() };
            if pid == 0 {
                let ex = if s.variant == "threads" { &expected[1] } else { &expected[0] };
                worker(&s.variant, &s.force, &reqs, &results[next].0, (ex.0.len() as u64, ex.1.len() as u64));
            }
            assert!(pid > 0, "fork failed");
            running.push((pid, next, Instant::now()));
            nexti += 1;
        }
        let mut i = 0;
        while i < running.len() {
            let (pid, idx, t0) = running[i];
            let mut st = 0;
            let r = unsafe { libc::waitpid(pid, &mut st, libc::WNOHANG) };
            if r == pid {
                results[idx].1 = if libc::WIFEXITED(st) { format!("exit{}", libc::WEXITSTATUS(st)) } else { format!("signal{}", libc::WTERMSIG(st)) };
                running.swap_remove(i);
                continue;
            }
            if t0.elapsed() > Duration::from_secs(150 * load_factor()) {
                unsafe { libc::kill(-pid, libc::SIGKILL); libc::kill(pid, libc::SIGKILL); libc::waitpid(pid, &mut st, 0); }
                results[idx].1 = "watchdog".into();
                running.swap_remove(i);
                continue;
            }
            i += 1;
        }
        std::thread::sleep(Duration::from_millis(2));
    }
    results
}

#[derive(Clone, Debug)]
enum Rec { Closed, Got, W(Value), Tl(Vec<i64>), Obs(String), A { w: u64, seq: i64 }, End(String), Hang, Done }

fn load_log(p: &Path) -> Vec<Rec> {
    let text = std::fs::read_to_string(p).unwrap_or_default();
    text.lines().filter_map(|l| {
        let v: Value = serde_json::from_str(l).ok()?;
        Some(match v["t"].as_str()? {
            "req" if v["closed"] == true => Rec::Closed,
            "got" => Rec::Got,
            "w" => Rec::W(v["m"].clone()),
            "tl" => Rec::Tl(v["ids"].as_array()?.iter().filter_map(|x| x.as_i64()).collect()),
            "obs" => Rec::Obs(v["dbg"].as_str()?.to_string()),
            "a" => Rec::A { w: v["w"].as_u64()?, seq: v["seq"].as_i64()? },
            "end" => Rec::End(v["res"].as_str()?.to_string()),
            "hang" => Rec::Hang,
            "done" => Rec::Done,
            _ => return None,
        })
    }).collect()
}

fn is_fwd_output(m: &Value) -> bool {
    m["event"] == "output" && (m["body"]["category"] == "stdout" || m["body"]["category"] == "stderr")
}

/// thread ids are OS thread ids: canonical name = rank among all ids the session ever mentions
fn thread_ranks(log: &[Rec]) -> BTreeMap<i64, usize> {
    let mut ids: BTreeSet<i64> = Default::default();
    for r in log {
        match r {
            Rec::Tl(l) => ids.extend(l.iter().copied()),
            Rec::W(m) => {
                if m["event"] == "thread" || m["event"] == "stopped" { if let Some(t) = m["body"]["threadId"].as_i64() { ids.insert(t); } }
                if m["type"] == "response" && m["command"] == "threads" {
                    for t in m["body"]["threads"].as_array().into_iter().flatten() { if let Some(id) = t["id"].as_i64() { ids.insert(id); } }
                }
            }
            _ => {}
        }
    }
    ids.into_iter().enumerate().map(|(i, t)| (t, i + 1)).collect()
}

fn progress_no(m: &Value) -> u64 {
    m["body"]["progressId"].as_str().and_then(|s| s.strip_prefix("bs-progress-")).and_then(|s| s.parse().ok()).unwrap_or(0)
}

/// canonical token of one wire message (no bodies except thread / progress ids, no adapter sequence numbers)
fn canon(m: &Value, ranks: &BTreeMap<i64, usize>) -> String {
    if m["type"] == "response" {
        format!("R.{}.{}.{}", m["command"].as_str().unwrap_or("?"), if m["success"] == true { "ok" } else { "err" }, m["request_seq"])
    } else if m["type"] == "event" {
        let e = m["event"].as_str().unwrap_or("?");
        match e {
            "stopped" => format!("E.stopped.{}", m["body"]["reason"].as_str().unwrap_or("?").replace(' ', "_")),
            "thread" => format!("E.thread.{}.{}", m["body"]["reason"].as_str().unwrap_or("?"),
                m["body"]["threadId"].as_i64().and_then(|t| ranks.get(&t)).copied().unwrap_or(0)),
            "breakpoint" | "module" | "loadedSource" => format!("E.{e}.{}", m["body"]["reason"].as_str().unwrap_or("?")),
            "output" => format!("E.output.{}", m["body"]["category"].as_str().unwrap_or("?")),
            "progressStart" | "progressUpdate" | "progressEnd" => format!("E.{e}.{}", progress_no(m)),
            _ => format!("E.{e}"),
        }
    } else { "M.unknown".into() }
}

/// the adapter iterates hash sets: inside a run of adjacent thread events the order is not part of the protocol
/// (`started` first, then by id; `Driver.C12.normRuns` does the same to the model's answer)
fn norm_thread_runs(tokens: &mut [String]) {
    let key = |t: &String| -> (u8, u64) {
        let p: Vec<&str> = t.split('.').collect();
        (if p.get(2) == Some(&"started") { 0 } else { 1 }, p.get(3).and_then(|x| x.parse().ok()).unwrap_or(0))
    };
    let mut i = 0;
    while i < tokens.len() {
        if tokens[i].starts_with("E.thread.") {
            let mut j = i;
            while j < tokens.len() && tokens[j].starts_with("E.thread.") { j += 1; }
            tokens[i..j].sort_by_key(key);
            i = j;
        } else { i += 1; }
    }
}

#[derive(Default)]
struct Answer { tokens: Vec<String>, ended: Option<String>, closed: bool, hang: bool, msgs: Vec<Value>, tls: Vec<Vec<i64>>, obs: Option<String> }

/// per request: the messages written between the moment the session received it and the moment it received the next
fn split_answers(log: &[Rec], nreq: usize, ranks: &BTreeMap<i64, usize>) -> Vec<Answer> {
    let mut out: Vec<Answer> = vec![];
    for r in log {
        match r {
            Rec::Got => out.push(Answer::default()),
            Rec::Closed => out.push(Answer { closed: true, ..Default::default() }),
            Rec::W(m) => if let Some(a) = out.last_mut() {
                if !is_fwd_output(m) { a.tokens.push(canon(m, ranks)); }
                a.msgs.push(m.clone());
            },
            Rec::Tl(l) => if let Some(a) = out.last_mut() { a.tls.push(l.clone()); },
            Rec::Obs(o) => if let Some(a) = out.last_mut() { a.obs = Some(o.clone()); },
            Rec::End(res) => if let Some(a) = out.last_mut() { a.ended = Some(res.clone()); },
            Rec::Hang => if let Some(a) = out.last_mut() { a.hang = true; },
            _ => {}
        }
    }
    for a in out.iter_mut() { norm_thread_runs(&mut a.tokens); }
    while out.len() < nreq { out.push(Answer { hang: true, ..Default::default() }); }
    out
}

/// hints the Lean session model cannot know: what the *debuggee* / the debugger library did (never what the adapter owes)
fn hints(rq: &Req, a: &Answer, ranks: &BTreeMap<i64, usize>) -> String {
    let cmd = rq.cmd.as_str();
    let has = |p: &str| a.tokens.iter().any(|t| t.starts_with(p));
    let rsps: Vec<&Value> = a.msgs.iter().filter(|m| m["type"] == "response").collect();
    let all_ok = !rsps.is_empty() && rsps.iter().all(|m| m["success"] == true);
    let outcome = if has("E.exited") { "exit".to_string() }
        else if let Some(t) = a.tokens.iter().find(|t| t.starts_with("E.stopped.")) { format!("stop:{}", &t["E.stopped.".len()..]) }
        // the debugger call succeeded but the session announced nothing (its `terminated` latch is set): a stop if
        // the thread cache was refreshed (or the command is a step), otherwise the debuggee ran to its end
        else if RESUMING.contains(&cmd) && all_ok {
            if !a.tls.is_empty() || matches!(cmd, "next" | "stepIn" | "stepOut") { "stop:unseen".to_string() } else { "exit".to_string() }
        }
        else { "none".to_string() };
    let rank_list = |l: &Vec<i64>| { let mut v: Vec<usize> = l.iter().map(|t| ranks.get(t).copied().unwrap_or(0)).collect(); v.sort(); enc_list(&v, |x| x.to_string()) };
    let tl = match a.tls.len() {
        1 => format!("tl:{}", rank_list(&a.tls[0])),
        0 => {
            // no refresh was observed; a `threads` response still says which threads the debugger lists
            let body = rsps.iter().find(|m| cmd == "threads" && m["success"] == true && m["body"]["threads"].is_array());
            match body {
                Some(m) => format!("tl:{}", rank_list(&m["body"]["threads"].as_array().unwrap().iter().filter_map(|t| t["id"].as_i64()).collect())),
                None => "tl:none".to_string(),
            }
        }
        _ => "tl:multi".to_string(),
    };
    let mut s = format!("h:{outcome} {tl}");
    if CALL_HINT.contains(&cmd) { s += if rsps.last().is_some_and(|m| m["success"] == true) { " h:ok" } else { " h:fail" }; }
    // a request that starts the debuggee and is answered with an error: what the process did nevertheless
    if matches!(cmd, "configurationDone" | "restart") && !all_ok { if let Some(o) = &a.obs { s += &format!(" dbg:{o}"); } }
    // a `continue` whose debugger call failed after the answer is announced as `stopped` (exception): whether the debuggee
    // process is still there (a signal stop looks the same on the wire) is an observation
    if cmd == "continue" && has("E.stopped.exception") { if let Some(o) = &a.obs { s += &format!(" dbg:{o}"); } }
    if cmd == "stackTrace" { s += &format!(" pg:{}", a.msgs.iter().filter(|m| m["event"] == "progressStart").count()); }
    if cmd == "setDataBreakpoints" {
        let n = rsps.last().map(|m| m["body"]["breakpoints"].as_array().into_iter().flatten().filter(|b| b["verified"] == true).count()).unwrap_or(0);
        s += &format!(" nrec:{n}");
    }
    s
}

fn closed_by_client(res: &str) -> bool { res.contains("DAP connection closed") }

fn answer_line(a: &Answer) -> String {
    if a.closed { return "closed".into(); }
    if a.hang { return "hang".into(); }
    let mut t = a.tokens.clone();
    match a.ended.as_deref() {
        Some("ok") => t.push("end".into()),
        Some("panic") => t.push("panic".into()),
        // an `Err` of `run` that is not the driver closing the connection after the last request
        Some(res) if !closed_by_client(res) => t.push("dropped".into()),
        _ => {}
    }
    enc_list(&t, |s| s.clone())
}

// ------------------------------------------------------------------------------------------------
// phases (coverage table) and oracle: independent wire checker (five clauses)

/// lifecycle of the debuggee as the CLIENT sees it on the wire, at the moment a request is received
#[derive(Clone, Copy, Default)]
struct Life { initialized: bool, launched: bool, started: bool, exited: bool, terminated: bool }
impl Life {
    fn see(&mut self, m: &Value) {
        if m["type"] == "response" && m["success"] == true {
            match m["command"].as_str().unwrap_or("") {
                "initialize" => self.initialized = true,
                "launch" | "attach" => { self.launched = true; self.started = m["command"] == "attach"; self.exited = false; self.terminated = false; }
                "configurationDone" => self.started = true,
                _ => {}
            }
        }
        if m["event"] == "exited" { self.exited = true; }
        if m["event"] == "terminated" { self.terminated = true; }
    }
    fn phase(&self, piped: bool) -> &'static str {
        if piped { "running" }
        else if self.exited { "after-exit" } else if self.terminated { "after-terminated" }
        else if self.started { "stopped" } else if self.launched { "before-configurationDone" }
        else if self.initialized { "before-launch" } else { "before-initialize" }
    }
    /// key suffix of oracle failures (kept from the first version of this check: known_findings.txt uses it)
    fn fail_state(&self) -> &'static str {
        if !self.launched { "before-launch" } else if self.exited || self.terminated { "after-exit" } else if !self.started { "before-start" } else { "live" }
    }
}

/// the client's view at the start of every answered / closed request
fn lives(log: &[Rec]) -> Vec<Life> {
    let mut out = vec![];
    let mut st = Life::default();
    for r in log {
        match r { Rec::Got | Rec::Closed => out.push(st), Rec::W(m) => st.see(m), _ => {} }
    }
    out
}

fn oracle(s: &Session, log: &[Rec], status: &str, expected: &(Vec<u8>, Vec<u8>), ranks: &BTreeMap<i64, usize>, out: &mut Out) {
    let replay = |extra: Value| -> Value { json!({"session": s.lines(), "detail": extra}) };
    let reqs = s.reqs();
    let answers = split_answers(log, reqs.len(), ranks);
    let lv = lives(log);
    let c = |m: &Value| canon(m, ranks);
    // ---- clause 1 + 5: exactly one response per request, matching request_seq/command; failing request -> error response
    let hung = log.iter().any(|r| matches!(r, Rec::Hang));
    let mut cancelled_ahead: BTreeSet<i64> = Default::default(); // request ids named by an accepted `cancel` and not yet consumed
    for (i, a) in answers.iter().enumerate() {
        let Some(rq) = reqs.get(i) else { continue };
        if a.closed { continue; }
        let st = lv.get(i).copied().unwrap_or_default();
        let sfx = format!("{}-{}", rq.cmd, st.fail_state());
        let rsps: Vec<&Value> = a.msgs.iter().filter(|m| m["type"] == "response").collect();
        out.oracle_evals += 1;
        let was_cancelled = CANCELLABLE.contains(&rq.cmd.as_str()) && cancelled_ahead.remove(&rq.cseq);
        if rsps.is_empty() {
            let how = if was_cancelled { "cancelled-" } else { "" };
            if hung || status == "watchdog" { out.oracle_fail(&format!("adapter-hang:{sfx}"), &format!("request {} ({}) never answered: the adapter hangs", rq.cseq, rq.cmd), replay(json!({"request": i}))); }
            else if status.starts_with("signal") { out.oracle_fail(&format!("adapter-crash:{sfx}"), &format!("worker died ({status}) while answering {}", rq.cmd), replay(json!({"request": i}))); }
            else { out.oracle_fail(&format!("no-response:{how}{sfx}"), &format!("request {} ({}){} got no response", rq.cseq, rq.cmd, if was_cancelled { ", cancelled ahead of time by its request id," } else { "" }), replay(json!({"request": i}))); }
            continue;
        }
        if rsps.len() > 1 {
            let shape: Vec<String> = rsps.iter().map(|m| c(m)).collect();
            out.oracle_fail(&format!("two-responses-for-one-request:{sfx}"),
                &format!("request seq {} ({}) got {} responses: {}", rq.cseq, rq.cmd, rsps.len(), shape.join(" ")), replay(json!({"request": i, "responses": shape})));
        }
        for m in &rsps {
            if m["request_seq"].as_i64() != Some(rq.cseq) || m["command"].as_str() != Some(&rq.cmd) {
                out.oracle_fail(&format!("response-mismatch:{}", rq.cmd), &format!("response {} does not match request seq {} command {}", c(m), rq.cseq, rq.cmd), replay(json!({"request": i})));
            }
        }
        // an accepted `cancel {requestId}` (a reading of the protocol: the named request, if it comes and is cancellable,
        // is answered — with an error response saying so — never dropped)
        if rq.cmd == "cancel" && rsps.iter().all(|m| m["success"] == true) && (rq.mutn == "valid" || rq.mutn == "nofile") && rq.param % 4 != 1 && rq.param % 4 != 2 {
            cancelled_ahead.insert((rq.param / 4) as i64);
        }
        if was_cancelled && rsps.iter().any(|m| m["success"] == true) {
            out.oracle_fail(&format!("cancelled-request-reported-success:{sfx}"), &format!("request {} ({}) was cancelled by its id before it arrived but is answered with success", rq.cseq, rq.cmd), replay(json!({"request": i})));
        }
        // clause 5: a request that cannot succeed (a reading of the protocol, not of the code): a required argument is
        // absent / ill-typed, the command is unknown or not supported, the target does not exist, or there is no debuggee to act on
        let cmd = rq.cmd.as_str();
        let needs_dbg = matches!(cmd, "setBreakpoints" | "setFunctionBreakpoints" | "setInstructionBreakpoints" | "setDataBreakpoints" | "configurationDone"
            | "threads" | "stackTrace" | "scopes" | "continue" | "next" | "stepIn" | "stepOut" | "pause" | "evaluate" | "setVariable" | "restart" | "restartFrame"
            | "stepInTargets" | "gotoTargets" | "goto" | "setExpression" | "readMemory" | "writeMemory" | "disassemble" | "breakpointLocations");
        let required_arg = matches!(cmd, "launch" | "attach" | "setBreakpoints" | "dataBreakpointInfo" | "breakpointLocations" | "stackTrace" | "scopes" | "variables"
            | "setVariable" | "restartFrame" | "stepInTargets" | "gotoTargets" | "goto" | "evaluate" | "setExpression" | "completions" | "readMemory" | "writeMemory"
            | "disassemble" | "runInTerminal" | "source");
        let bad_args = required_arg && matches!(rq.mutn.as_str(), "missing" | "illtyped" | "noargs");
        let no_debuggee = !st.launched || (st.terminated && !st.exited);
        let must_fail = matches!(cmd, "frobnicate" | "stepBack" | "reverseContinue") || bad_args
            || (matches!(cmd, "launch" | "attach") && rq.mutn == "nofile") || (needs_dbg && no_debuggee);
        if must_fail && rsps.iter().all(|m| m["success"] == true) {
            out.oracle_fail(&format!("failing-request-reported-success:{sfx}"), &format!("request {} {} ({}) cannot succeed but the only response says success", rq.cseq, rq.cmd, rq.mutn), replay(json!({"request": i})));
        }
    }
    // a connection dropped by the adapter (run returned Err / panicked before the client closed)
    for (i, a) in answers.iter().enumerate() {
        let Some(res) = &a.ended else { continue };
        let last_cmd = reqs.get(i).map(|r| r.cmd.clone()).unwrap_or("?".into());
        out.oracle_evals += 1;
        if res == "panic" {
            out.oracle_fail(&format!("adapter-panic:{last_cmd}"), &format!("the session thread panicked while handling {last_cmd}"), replay(json!({"request": i})));
        } else if res != "ok" && !closed_by_client(res) {
            out.oracle_fail(&format!("connection-dropped:{last_cmd}"), &format!("the adapter ended the session with an error while handling {last_cmd}: {res}"), replay(json!({"request": i})));
        }
    }
    // ---- clause 2: seq = 1,2,3,... in wire order
    let wire: Vec<&Value> = log.iter().filter_map(|r| if let Rec::W(m) = r { Some(m) } else { None }).collect();
    out.oracle_evals += 1;
    for (k, m) in wire.iter().enumerate() {
        if m["seq"].as_i64() != Some(k as i64 + 1) {
            let who = |m: &Value| if is_fwd_output(m) { "forwarder" } else { "session" };
            let prev = if k > 0 { who(wire[k - 1]) } else { "-" };
            out.oracle_fail("seq-out-of-wire-order", &format!("message #{} on the wire ({} by {}) carries seq {} (previous message by {})", k + 1, c(m), who(m), m["seq"], prev),
                replay(json!({"position": k + 1, "seq": m["seq"], "force": s.force})));
            break;
        }
    }
    {
        let mut seen: BTreeSet<i64> = Default::default();
        for m in &wire {
            let q = m["seq"].as_i64().unwrap_or(-1);
            if q < 1 || !seen.insert(q) {
                out.oracle_fail("seq-duplicate-or-invalid", &format!("sequence number {q} of {} is repeated or not positive", c(m)), replay(json!({"seq": q})));
                break;
            }
        }
    }
    // ---- clause 3 + 4: lifecycle events once and ordered, causal order, nothing after `terminated`
    // (a `launch` / `attach` request opens a new lifecycle: the client asked for a new debuggee)
    out.oracle_evals += 1;
    let (mut n_exited, mut n_terminated) = (0, 0);
    let mut terminated_at: Option<usize> = None;
    let mut live_threads: BTreeSet<i64> = Default::default();   // announced `started`, not yet `exited`
    let mut exited_once: BTreeMap<i64, usize> = Default::default(); // exit announced (and not started again since): in which lifecycle
    let mut launches_seen = 0usize;
    let mut running = false; // between `continued` and the next `stopped`/`exited`
    let mut ever_exited = false;
    let mut reported: BTreeSet<String> = Default::default();
    let mut fail = |out: &mut Out, key: String, what: String, at: usize| { if reported.insert(key.clone()) { out.oracle_fail(&key, &what, replay(json!({"request": at}))); } };
    let mut k = 0usize;
    let mut ri = 0usize; // index of the request being answered
    let mut nreq_seen = 0usize;
    // thread ids the adapter *used* (in a `threads` response, a `stopped` event) while answering the current request:
    // each must be an announced live thread by the time the answer is complete
    let mut used: Vec<(i64, &'static str)> = vec![];
    let mut owed_stop: Option<(String, &'static str)> = None; // a resume request answered with success: a stop or the end must be announced
    let check_boundary = |out: &mut Out, fail: &mut dyn FnMut(&mut Out, String, String, usize), used: &mut Vec<(i64, &'static str)>, owed: &mut Option<(String, &'static str)>,
                              live: &BTreeSet<i64>, silent: bool, ri: usize| {
        for (t, wher) in used.drain(..) {
            if !silent && !live.contains(&t) {
                let sfx = reqs.get(ri).map(|q| format!("{}-{}", q.cmd, lv.get(ri).copied().unwrap_or_default().fail_state())).unwrap_or_default();
                fail(out, format!("thread-unannounced:{wher}:{sfx}"), format!("thread {t} appears in a {wher} but no `thread started` event announced it by the end of that answer"), ri);
            }
        }
        if let Some((cmd, ph)) = owed.take() {
            fail(out, format!("stop-not-announced:{cmd}-{ph}"), format!("`{cmd}` was answered with success but neither `stopped` nor `exited`/`terminated` follows before the next request is handled"), ri);
        }
    };
    let lv_at = |i: usize| lv.get(i).copied().unwrap_or_default();
    for r in log {
        let m = match r {
            Rec::Got | Rec::Closed => {
                check_boundary(out, &mut fail, &mut used, &mut owed_stop, &live_threads, terminated_at.is_some(), ri);
                ri = nreq_seen; nreq_seen += 1;
                if matches!(r, Rec::Got) && reqs.get(ri).is_some_and(|q| q.cmd == "launch" || q.cmd == "attach") { terminated_at = None; n_exited = 0; n_terminated = 0; }
                continue;
            }
            Rec::W(m) => { k += 1; m }
            _ => continue,
        };
        if m["type"] == "response" {
            let cmd = m["command"].as_str().unwrap_or("");
            if m["success"] == true {
                // (threads of a debuggee that is replaced while it is alive stay announced until their exit is)
                if cmd == "launch" || cmd == "attach" { launches_seen += 1; running = false; }
                if cmd == "threads" { for t in m["body"]["threads"].as_array().into_iter().flatten() { if let Some(id) = t["id"].as_i64() { used.push((id, "threads-response")); } } }
                let rsp_count = answers.get(ri).map(|a| a.msgs.iter().filter(|x| x["type"] == "response").count()).unwrap_or(0);
                // (once `terminated` was sent the debuggee is gone for the client: only a request that starts it again owes a stop)
                if (RESUMING.contains(&cmd) || (terminated_at.is_none() && matches!(cmd, "pause" | "goto" | "restartFrame"))) && rsp_count == 1 {
                    owed_stop = Some((cmd.to_string(), lv_at(ri).fail_state()));
                }
            }
            continue;
        }
        if m["type"] != "event" { continue; }
        let ev = m["event"].as_str().unwrap_or("");
        if let Some(t) = terminated_at {
            let key = if is_fwd_output(m) { "output-after-terminated".to_string() } else { format!("event-after-terminated:{ev}") };
            fail(out, key, format!("`{}` (seq {}) is sent after `terminated` (wire position {} > {})", c(m), m["seq"], k, t), ri);
        }
        match ev {
            "exited" => {
                n_exited += 1; ever_exited = true; owed_stop = None;
                if n_exited > 1 { fail(out, "exited-twice".into(), "`exited` announced twice for one debuggee".into(), ri); }
                if n_terminated > 0 { fail(out, "exited-after-terminated".into(), "`exited` after `terminated`".into(), ri); }
                running = false;
            }
            "terminated" => {
                n_terminated += 1; owed_stop = None;
                if n_terminated > 1 { fail(out, "terminated-twice".into(), "`terminated` announced twice for one debuggee".into(), ri); }
                terminated_at = Some(k);
            }
            "continued" => {
                if running { fail(out, "continued-twice-without-stop".into(), "`continued` announced while already announced as running (no stop in between)".into(), ri); }
                running = true;
            }
            "stopped" => {
                running = false; owed_stop = None;
                if let Some(t) = m["body"]["threadId"].as_i64() { if !live_threads.contains(&t) { used.push((t, "stopped-event")); } }
            }
            "thread" => {
                let id = m["body"]["threadId"].as_i64().unwrap_or(-1);
                match m["body"]["reason"].as_str().unwrap_or("") {
                    "started" => if !live_threads.insert(id) { fail(out, "thread-started-twice".into(), format!("thread {id} announced as started twice"), ri); } else { exited_once.remove(&id); },
                    "exited" => if live_threads.remove(&id) { exited_once.insert(id, launches_seen); } else {
                        match exited_once.get(&id) {
                            Some(l) if *l != launches_seen => fail(out, "thread-exited-twice:after-relaunch".into(), format!("the exit of thread {id} was announced before the debuggee was launched again, and is announced a second time afterwards"), ri),
                            Some(_) => fail(out, "thread-exited-twice".into(), format!("thread {id} announced as exited twice"), ri),
                            None => fail(out, "thread-exit-without-start".into(), format!("thread {id} announced as exited but its start was never announced"), ri),
                        }
                    },
                    _ => {}
                }
            }
            _ => {}
        }
    }
    check_boundary(out, &mut fail, &mut used, &mut owed_stop, &live_threads, terminated_at.is_some(), ri);
    // ---- forwarded output: every line exactly once, in order, none invented (only for a debuggee that was launched
    // once and whose execution no request interfered with)
    let launches = wire.iter().filter(|m| m["type"] == "response" && m["command"] == "launch" && m["success"] == true).count();
    let perturbed = wire.iter().any(|m| m["type"] == "response" && m["success"] == true && PERTURBING.contains(&m["command"].as_str().unwrap_or("")));
    if launches == 1 && !perturbed {
        out.oracle_evals += 1;
        for (cat, exp) in [("stdout", &expected.0), ("stderr", &expected.1)] {
            let got: Vec<u8> = wire.iter().filter(|m| m["event"] == "output" && m["body"]["category"] == cat)
                .flat_map(|m| m["body"]["output"].as_str().unwrap_or("").as_bytes().to_vec()).collect();
            if !exp.starts_with(&got) {
                fail(out, format!("output-corrupted:{cat}"), format!("forwarded {cat} ({} bytes) is not a prefix of what the debuggee prints", got.len()), 0);
            } else if ever_exited && got.len() != exp.len() && log.iter().any(|r| matches!(r, Rec::Done)) {
                fail(out, format!("output-lost:{cat}"), format!("the debuggee exited after printing {} bytes of {cat}, {} were forwarded", exp.len(), got.len()), 0);
            }
        }
    }
}

/// writer model tie: reconstruct a schedule (list of writer ids; a writer's steps alternate `alloc`, `write`)
/// from the allocation log and the wire, lazily allocating; the answer is the wire's seq numbers
fn sched_line(log: &[Rec]) -> (String, String) {
    let mut owner: BTreeMap<i64, u64> = Default::default();
    for r in log { if let Rec::A { w, seq } = r { owner.insert(*seq, *w); } }
    let wire: Vec<(u64, i64)> = log.iter().filter_map(|r| if let Rec::W(m) = r {
        let w = if m["event"] == "output" && m["body"]["category"] == "stdout" { 1 } else if m["event"] == "output" && m["body"]["category"] == "stderr" { 2 } else { 0 };
        Some((w, m["seq"].as_i64().unwrap_or(-1)))
    } else { None }).collect();
    let mut steps: Vec<u64> = vec![];
    let mut next = 1i64;
    for (w, s) in &wire {
        while next <= *s {
            match owner.get(&next) { Some(o) => steps.push(*o), None => return ("C12 sched -".into(), format!("unreconstructible:no-allocation-of-{next}")) }
            next += 1;
        }
        steps.push(*w);
    }
    let seqs: Vec<i64> = wire.iter().map(|x| x.1).collect();
    (format!("C12 sched {}", enc_list(&steps, |w| w.to_string())), enc_list(&seqs, |s| s.to_string()))
}

fn native_output(variant: &str) -> (Vec<u8>, Vec<u8>) {
    let mut c = std::process::Command::new(prog_bin());
    if variant == "threads" { c.arg("threads"); }
    let o = c.output().expect("run debuggee natively");
    (o.stdout, o.stderr)
}

pub fn exec(req: &[String], out: &mut Out, dir: &Path) {
    ensure_prog();
    let expected = [native_output("plain"), native_output("threads")];
    let sessions = parse_sessions(req);
    let sdir = dir.join("sessions");
    std::fs::create_dir_all(&sdir).unwrap();
    let results = run_workers(&sessions, &sdir, &expected, out);
    // the coverage table always lists every command, also those this run never sent
    for c in COMMANDS { out.count(&format!("cmd.{c}"), 0); }
    for (s, (path, status)) in sessions.iter().zip(results.iter()) {
        if !s.new_line.is_empty() { out.pair(s.new_line.clone(), "ok".into()); }
        let log = load_log(path);
        let ranks = thread_ranks(&log);
        let reqs = s.reqs();
        let answers = split_answers(&log, reqs.len(), &ranks);
        let lv = lives(&log);
        let mut k = 0usize;
        for it in &s.items {
            match it {
                Item::Bad(line) => out.pair(line.clone(), "bad-op".into()),
                Item::Pipe(line) => out.pair(line.clone(), "ok".into()),
                Item::Req(line, rq) => {
                    let a = &answers[k];
                    let ans = answer_line(a);
                    if !a.closed && !a.hang {
                        let ph = lv.get(k).copied().unwrap_or_default().phase(rq.piped);
                        out.count(&format!("cmd.{}", rq.cmd), 1);
                        out.count(&format!("cp.{}.{ph}", rq.cmd), 1);
                        out.count(&format!("cm.{}.{}", rq.cmd, rq.mutn), 1);
                        out.count(&format!("phase.{ph}"), 1);
                    } else { out.count("req.after-session-end", 1); }
                    k += 1;
                    if a.tokens.iter().any(|t| t.ends_with(&format!(".err.{}", rq.cseq))) { out.count("answer.error_response", 1); }
                    if a.tokens.iter().any(|t| t.starts_with("E.stopped")) { out.count("answer.stopped", 1); }
                    if a.tokens.iter().any(|t| t == "E.exited") { out.count("answer.exited", 1); }
                    if a.tokens.iter().any(|t| t.starts_with("E.thread.started")) { out.count("answer.thread_started", 1); }
                    if a.tokens.iter().any(|t| t.starts_with("E.thread.exited")) && !a.tokens.iter().any(|t| t == "E.terminated") { out.count("answer.thread_exited_by_cache_diff", 1); }
                    if rq.cmd == "threads" && a.tokens.iter().any(|t| t.starts_with("E.thread.started")) { out.count("answer.thread_started_by_threads_request", 1); }
                    if CANCELLABLE.contains(&rq.cmd.as_str()) && a.msgs.iter().any(|m| m["type"] == "response" && m["message"] == "cancelled") { out.count(&format!("answer.cancelled.{}", rq.cmd), 1); }
                    out.pair(format!("{line} {}", hints(rq, a, &ranks)), ans);
                }
            }
        }
        if !s.new_line.is_empty() {
            let (rq, ans) = sched_line(&log);
            let nfw = log.iter().filter(|r| matches!(r, Rec::W(m) if is_fwd_output(m))).count();
            out.count("wire.messages", log.iter().filter(|r| matches!(r, Rec::W(_))).count() as u64);
            out.count("wire.forwarder_output_events", nfw as u64);
            out.pair(rq, ans);
        }
        let ex = if s.variant == "threads" { &expected[1] } else { &expected[0] };
        oracle(s, &log, status, ex, &ranks, out);
        out.sample(json!({"session": s.new_line, "requests": s.lines()[1..].to_vec(),
            "answers": answers.iter().map(|a| a.tokens.join(",")).collect::<Vec<_>>() }));
    }
}

pub fn run(args: &[String]) {
    let a = parse_args(args);
    let mut out = Out::new(&a.out);
    let req = match &a.replay {
        Some(f) => read_lines(f),
        None => { let mut rng = Rng::new(a.seed); gen_requests(&mut rng, a.n, &mut out) }
    };
    let dir = a.out.clone();
    exec(&req, &mut out, &dir);
    if a.replay.is_none() {
        // cells of the (command, phase) table that this seeded run did not reach
        let mut empty = 0u64;
        for c in COMMANDS { for p in PHASES { if out.stats.get(&format!("cp.{c}.{p}")).is_none() { empty += 1; } } }
        out.count("coverage.command_phase_cells_total", (COMMANDS.len() * PHASES.len()) as u64);
        out.count("coverage.command_phase_cells_not_reached_in_this_run", empty);
    }
    out.finish();
}
