//! C10: signals reach the debuggee exactly once.
//! One session = one `Debugger` on `progs/c10_sig <script>` inside a forked worker.
//! Request lines:
//!   C10 new <script>            script of the debuggee (its own, deterministic signal raises and breakpoint sites)
//!   C10 break | C10 unbreak     breakpoint at `c10_point`
//!   C10 start | continue | stepi
//!   C10 send <sig>              the harness sends a thread-directed signal (tgkill) to the stopped debuggee
//!   C10 sendp <sig>             ... a process-directed signal (kill)
//!   C10 drain                   remove the breakpoint, continue until exit; answer = handler counters printed at exit
//! Answer of a run command: `<outcome> h=<signals given to EventHook::on_signal> l=<ptrace-boundary log>` where the log is the
//! sequence of: `a<sig>` a waitpid() that returned a signal-delivery-stop of a non-SIGTRAP signal, `c<sig>`/`s<sig>`/`y<sig>`
//! PTRACE_CONT / SINGLESTEP / SYSCALL with a non-zero data argument (injection), `x<sig>` a resume with data 0 of a thread
//! that sits in the signal-delivery-stop of <sig> (suppression).
use crate::live::*;
use crate::util::*;
use bugstalker::debugger::process::Child;
use bugstalker::debugger::variable::value::Value;
use bugstalker::debugger::{Debugger, DebuggerBuilder, EventHook, FunctionInfo, PlaceDescriptor, StopReason, rust};
use bugstalker::debugger::address::RelocatedAddress;
use bugstalker::debugger::register::debug::BreakCondition;
use nix::sys::signal::Signal;
use nix::unistd::Pid;
use serde_json::json;
use std::io::Read;
use std::sync::{Arc, Mutex};

pub const HANDLED: [i32; 13] = [1, 2, 3, 10, 12, 14, 15, 17, 23, 26, 27, 28, 29];
pub const QUIET_DOC: [i32; 6] = [14, 23, 17, 29, 26, 27];

#[derive(Clone, Default)]
struct Hook { log: Arc<Mutex<Vec<String>>> }
impl EventHook for Hook {
    fn on_breakpoint(&self, _: RelocatedAddress, _: u32, _: Option<PlaceDescriptor>, _: Option<&FunctionInfo>, _: Option<u32>) -> anyhow::Result<()> {
        self.log.lock().unwrap().push("b".into()); Ok(())
    }
    fn on_watchpoint(&self, _: RelocatedAddress, _: u32, _: Option<PlaceDescriptor>, _: BreakCondition, _: Option<&str>, _: Option<&Value>, _: Option<&Value>, _: bool) -> anyhow::Result<()> { Ok(()) }
    fn on_step(&self, _: RelocatedAddress, _: Option<PlaceDescriptor>, _: Option<&FunctionInfo>, _: Option<u32>) -> anyhow::Result<()> {
        self.log.lock().unwrap().push("t".into()); Ok(())
    }
    fn on_async_step(&self, _: RelocatedAddress, _: Option<PlaceDescriptor>, _: Option<&FunctionInfo>, _: u64, _: bool) -> anyhow::Result<()> { Ok(()) }
    fn on_signal(&self, s: Signal) { self.log.lock().unwrap().push(format!("{}", s as i32)); }
    fn on_exit(&self, c: i32) { self.log.lock().unwrap().push(format!("e{c}")); }
    fn on_process_install(&self, _: Pid, _: Option<&object::File>) {}
}

struct Sess {
    dbg: Debugger,
    hook: Hook,
    output: Arc<Mutex<Vec<u8>>>,
    reader: Option<std::thread::JoinHandle<()>>,
}

fn launch(script: &str) -> anyhow::Result<Sess> {
    let path = verif_root().join("progs").join("c10_sig");
    let (reader, writer) = os_pipe::pipe()?;
    let output = Arc::new(Mutex::new(Vec::new()));
    let o2 = output.clone();
    let handle = std::thread::spawn(move || {
        let mut r = std::io::BufReader::new(reader);
        let mut buf = [0u8; 4096];
        loop { match r.read(&mut buf) { Ok(0) | Err(_) => return, Ok(n) => o2.lock().unwrap().extend_from_slice(&buf[..n]) } }
    });
    rust::Environment::init(None);
    let runner = Child::new(path.to_str().unwrap(), vec![script.to_string()], None::<&std::path::Path>, writer.try_clone()?, writer);
    let process = runner.install()?;
    let hook = Hook::default();
    let dbg = DebuggerBuilder::<Hook>::new().with_hooks(hook.clone()).build(process)?;
    Ok(Sess { dbg, hook, output, reader: Some(handle) })
}

/// pending signal sets of the thread and of the process, read from /proc (independent of the debugger)
fn sigpnd(pid: i32) -> (u64, u64) {
    let s = std::fs::read_to_string(format!("/proc/{pid}/status")).unwrap_or_default();
    let f = |k: &str| s.lines().find_map(|l| l.strip_prefix(k)).map(|v| u64::from_str_radix(v.trim(), 16).unwrap_or(0)).unwrap_or(0);
    (f("SigPnd:"), f("ShdPnd:"))
}

fn wstatus(status: i32) -> String {
    if libc::WIFEXITED(status) { format!("E{}", libc::WEXITSTATUS(status)) }
    else if libc::WIFSIGNALED(status) { format!("K{}", libc::WTERMSIG(status)) }
    else if libc::WIFSTOPPED(status) {
        let ev = status >> 16;
        if ev != 0 { format!("V{}:{}", ev, libc::WSTOPSIG(status)) } else { format!("S{}", libc::WSTOPSIG(status)) }
    } else { format!("?{status:x}") }
}

fn reason(r: &Result<StopReason, bugstalker::debugger::Error>, main: i32) -> String {
    match r {
        Ok(StopReason::Breakpoint(_, _)) => "bp".into(),
        Ok(StopReason::DebugeeExit(c)) => format!("exit {c}"),
        Ok(StopReason::SignalStop(p, s)) => format!("sig {} {}", *s as i32, if p.as_raw() == main { "main" } else { "other" }),
        Ok(StopReason::DebugeeStart) => "started".into(),
        Ok(StopReason::Watchpoint(..)) => "wp".into(),
        Ok(StopReason::NoSuchProcess(_)) => "nsp".into(),
        Err(_) => "err".into(),
    }
}

/// the oracle's own bookkeeping (independent of the Lean model): what was sent, what the boundary showed
#[derive(Default)]
struct Truth {
    expected: std::collections::BTreeMap<i32, u32>,   // effective sends per signal (harness sends not merged + script raises)
    outstanding: Vec<i32>,                            // arrivals (signal-delivery-stops) not yet answered by an injection
    multi: bool,                                      // at some moment two arrivals were outstanding for the one thread
    step_injected: std::collections::BTreeSet<i32>,   // signals injected with PTRACE_SINGLESTEP
}

fn fail(emit: &mut dyn FnMut(String), key: &str, what: String, script: &str, line: &str) {
    emit(format!("!oracle {}", json!({"key": key, "what": what, "replay": {"script": script, "at": line}})));
}

fn session(lines: &[String], emit: &mut dyn FnMut(String)) {
    let raw = std::env::var("C10_RAW").is_ok();
    let t: Vec<&str> = lines[0].split(' ').collect();
    if t.len() != 3 || t[1] != "new" { emit("bad-op".into()); return; }
    let script = t[2].to_string();
    let toks: Vec<&str> = script.split(',').collect();
    let valid = toks.iter().all(|k| *k == "p" || ((k.starts_with('r') || k.starts_with('k')) && k[1..].parse::<i32>().map(|n| HANDLED.contains(&n)).unwrap_or(false)));
    if !valid { emit("bad-op".into()); for _ in &lines[1..] { emit("bad-op".into()); } return; }
    let mut s = match launch(&script) { Ok(l) => Some(l), Err(e) => { emit(format!("launch-failed {e}")); return; } };
    emit("ok".into());
    ipose::enable();
    let pid = s.as_ref().unwrap().dbg.process().pid().as_raw();
    let mut cur = 0i32;
    let (mut started, mut exited, mut dead) = (false, false, false);
    let mut tr = Truth::default();
    for k in &toks { if *k != "p" { *tr.expected.entry(k[1..].parse().unwrap()).or_insert(0) += 1; } }
    let guarded = |f: &mut dyn FnMut() -> String| -> String {
        std::panic::catch_unwind(std::panic::AssertUnwindSafe(|| f())).unwrap_or_else(|_| "panic".into())
    };
    for line in &lines[1..] {
        let t: Vec<&str> = line.split(' ').collect();
        if dead { emit(if t.len() >= 2 && t[0] == "C10" && ["break", "unbreak", "start", "continue", "stepi", "drain"].contains(&t[1]) && t.len() == 2 { "dead".into() }
                       else if t.len() == 3 && (t[1] == "send" || t[1] == "sendp") && t[2].parse::<i32>().map(|n| HANDLED.contains(&n)).unwrap_or(false) { "dead".into() } else { "bad-op".into() }); continue; }
        let sess = s.as_mut().unwrap();
        ipose::take();
        sess.hook.log.lock().unwrap().clear();
        // ---- run commands: outcome, hooks, boundary log; then the per-command oracle
        let mut run_cmd = |sess: &mut Sess, what: &str, tr: &mut Truth, cur: &mut i32, exited: &mut bool, emit: &mut dyn FnMut(String)| -> (String, String, String) {
            let o = guarded(&mut || match what {
                "start" => reason(&sess.dbg.start_debugee_with_reason(), pid),
                "continue" => reason(&sess.dbg.continue_debugee_with_reason(), pid),
                _ => match sess.dbg.stepi() { Ok(()) => "done".into(), Err(_) => "err".into() },
            });
            if o.starts_with("exit") { *exited = true; }
            let hooks = sess.hook.log.lock().unwrap().clone();
            sess.hook.log.lock().unwrap().clear();
            let evs = ipose::take();
            // oracle bookkeeping from the raw boundary events
            let mut arrivals: Vec<i32> = vec![];
            let mut cur2 = *cur;
            let mut after_sysc = false;
            let mut sysc_nontrap = false;
            for e in &evs {
                match e {
                    ipose::Ev::Wait { ret, status, .. } if *ret > 0 => {
                        let st = *status;
                        if libc::WIFSTOPPED(st) && (st >> 16) == 0 && libc::WSTOPSIG(st) != libc::SIGTRAP {
                            let sg = libc::WSTOPSIG(st);
                            cur2 = sg; arrivals.push(sg);
                            if sg != 2 { tr.outstanding.push(sg); if tr.outstanding.len() >= 2 { tr.multi = true; } }
                            if after_sysc { sysc_nontrap = true; }
                        } else { cur2 = 0; }
                        after_sysc = false;
                    }
                    ipose::Ev::Ptrace { req, data, .. } if *req == libc::PTRACE_CONT || *req == libc::PTRACE_SINGLESTEP || *req == libc::PTRACE_SYSCALL => {
                        let d = *data as i32;
                        if d != 0 {
                            if let Some(i) = tr.outstanding.iter().position(|x| *x == d) { tr.outstanding.remove(i); }
                            if *req == libc::PTRACE_SINGLESTEP { tr.step_injected.insert(d); }
                            if d == 2 { fail(emit, "sigint-injected-into-debuggee", format!("`{line}`: a ptrace resume request carries SIGINT"), &script, line); }
                        }
                        after_sysc = *req == libc::PTRACE_SYSCALL;
                        cur2 = 0;
                    }
                    _ => {}
                }
            }
            let _ = cur2;
            let ctx = if tr.multi { ":several-signals-queued-for-one-thread" } else { "" };
            // reported stop
            let reported: Option<(i32, bool)> = if let Some(r) = o.strip_prefix("sig ") {
                let mut it = r.split(' '); let sg: i32 = it.next().unwrap().parse().unwrap(); Some((sg, it.next() == Some("main")))
            } else { hooks.iter().find_map(|h| h.parse::<i32>().ok()).map(|sg| (sg, true)) };
            if let Some((sg, main)) = reported {
                if !main { fail(emit, "signal-reported-with-wrong-thread", format!("`{line}`: signal {sg} reported for a thread that is not the receiving (only) thread"), &script, line); }
                if QUIET_DOC.contains(&sg) { fail(emit, &format!("quiet-signal-reported-as-stop{ctx}"), format!("`{line}` stops with quiet signal {sg}"), &script, line); }
                if !arrivals.contains(&sg) { fail(emit, &format!("signal-stop-reported-without-new-arrival{ctx}"), format!("`{line}` reports a stop for signal {sg}, but no signal-delivery-stop of {sg} happened during the command (arrivals: {arrivals:?})"), &script, line); }
                if !hooks.iter().any(|h| h.parse::<i32>().ok() == Some(sg)) { fail(emit, "signal-stop-without-on-signal-hook", format!("`{line}`: stop for signal {sg} but EventHook::on_signal was not called"), &script, line); }
            }
            for a in &arrivals {
                if !QUIET_DOC.contains(a) && reported.map(|r| r.0) != Some(*a) && o != "panic" {
                    fail(emit, "nonquiet-signal-arrival-not-reported", format!("`{line}`: signal {a} entered signal-delivery-stop but the command ended with `{o}` hooks {hooks:?}"), &script, line);
                }
            }
            if o == "panic" {
                let key = if sysc_nontrap { "debugger-panics-when-second-signal-arrives-after-quiet-signal-injected-in-single-step" } else { "debugger-panics" };
                fail(emit, key, format!("`{line}` panicked; arrivals {arrivals:?}"), &script, line);
            }
            // canonical log
            let mut l: Vec<String> = vec![];
            for e in evs {
                match e {
                    ipose::Ev::Wait { ret, status, .. } if ret > 0 => {
                        if raw { l.push(format!("w{}", wstatus(status))); }
                        if libc::WIFSTOPPED(status) && (status >> 16) == 0 {
                            let sg = libc::WSTOPSIG(status);
                            if sg != libc::SIGTRAP { *cur = sg; if !raw { l.push(format!("a{sg}")); } } else { *cur = 0; }
                        } else { *cur = 0; }
                    }
                    ipose::Ev::Ptrace { req, data, ret, .. } if req == libc::PTRACE_CONT || req == libc::PTRACE_SINGLESTEP || req == libc::PTRACE_SYSCALL => {
                        let k = if req == libc::PTRACE_CONT { 'c' } else if req == libc::PTRACE_SINGLESTEP { 's' } else { 'y' };
                        if raw { l.push(format!("{k}{data}{}", if ret != 0 { "!" } else { "" })); }
                        else if data != 0 { l.push(format!("{k}{data}")); }
                        else if *cur != 0 { l.push(format!("x{}", *cur)); }
                        *cur = 0;
                    }
                    _ => {}
                }
            }
            (o, enc_list(&hooks, |x| x.clone()), enc_list(&l, |x| x.clone()))
        };
        let ans = match t.as_slice() {
            ["C10", "break"] => if sess.dbg.set_breakpoint_at_fn("c10_point").is_ok() { "ok".to_string() } else { "err".into() },
            ["C10", "unbreak"] => match sess.dbg.remove_breakpoint_at_fn("c10_point") { Ok(v) if !v.is_empty() => "ok".to_string(), Ok(_) => "none".into(), Err(_) => "err".into() },
            ["C10", c @ ("start" | "continue" | "stepi")] => {
                let (o, h, l) = run_cmd(sess, c, &mut tr, &mut cur, &mut exited, emit);
                if *c == "start" && o != "err" { started = true; }
                if o == "panic" { dead = true; }
                format!("{o} h={h} l={l}")
            }
            ["C10", c @ ("send" | "sendp"), sig] => {
                let sig: i32 = sig.parse().unwrap_or(0);
                if !HANDLED.contains(&sig) { "bad-op".into() }
                else if !started || exited { "bad-op".into() } else {
                    let (p0, s0) = sigpnd(pid);
                    let bit = 1u64 << (sig - 1);
                    let merged = if *c == "send" { p0 & bit != 0 } else { s0 & bit != 0 };
                    let r = unsafe { if *c == "send" { libc::syscall(libc::SYS_tgkill, pid, pid, sig) } else { libc::kill(pid, sig) as i64 } };
                    if r == 0 && !merged { *tr.expected.entry(sig).or_insert(0) += 1; }
                    let (p, sh) = sigpnd(pid);
                    format!("{} pnd={:x},{:x}", if r == 0 { "ok" } else { "err" }, p, sh)
                }
            }
            ["C10", "drain"] => {
                let _ = sess.dbg.remove_breakpoint_at_fn("c10_point");
                let mut n = 0;
                let mut stops: Vec<String> = vec![];
                let mut logs: Vec<String> = vec![];
                while started && !exited && n < 40 {
                    n += 1;
                    let (o, _h, l) = run_cmd(sess, "continue", &mut tr, &mut cur, &mut exited, emit);
                    if l != "-" { logs.push(l); }
                    let stop = o == "err" || o == "panic";
                    stops.push(o);
                    if stop { break; }
                }
                dead = true;
                // the debuggee's own report: handler counters printed at exit
                let Sess { dbg, output, reader, .. } = s.take().unwrap();
                drop(dbg);
                if let Some(h) = reader { let _ = h.join(); }
                let out = String::from_utf8_lossy(&output.lock().unwrap()).to_string();
                let counts = out.lines().find_map(|l| l.strip_prefix("counts ")).map(|l| l.split(' ').next().unwrap().to_string());
                if exited {
                    match &counts {
                        None => fail(emit, "debuggee-exited-without-printing-its-counters", format!("output {out:?}"), &script, line),
                        Some(c) => {
                            for item in c.split(',') {
                                let (sg, n) = item.split_once(':').unwrap();
                                let (sg, n): (i32, u32) = (sg.parse().unwrap(), n.parse().unwrap());
                                let want = if sg == 2 { 0 } else { *tr.expected.get(&sg).unwrap_or(&0) };
                                let ctx = if tr.multi { ":several-signals-queued-for-one-thread" } else { "" };
                                if sg == 2 && n != 0 { fail(emit, "sigint-delivered-to-debuggee", format!("SIGINT handler ran {n} times"), &script, line); }
                                else if n > want {
                                    let key = if QUIET_DOC.contains(&sg) && tr.step_injected.contains(&sg) { "quiet-signal-delivered-twice-when-it-arrives-during-single-step".to_string() } else { "signal-delivered-more-often-than-sent".to_string() };
                                    fail(emit, &key, format!("signal {sg}: sent {want} time(s), its handler ran {n} time(s)"), &script, line);
                                } else if n < want {
                                    fail(emit, &format!("signal-lost{ctx}"), format!("signal {sg}: sent {want} time(s), its handler ran {n} time(s)"), &script, line);
                                }
                            }
                        }
                    }
                }
                format!("stops={} l={} counts={}", enc_list(&stops, |x| x.replace(' ', "_")), if logs.is_empty() { "-".to_string() } else { logs.join(",") },
                        if exited { counts.unwrap_or("?".into()) } else { "-".into() })
            }
            _ => "bad-op".into(),
        };
        emit(ans);
    }
}

const QUIET_SIGS: [i32; 6] = [14, 23, 17, 29, 26, 27];
const LOUD_SIGS: [i32; 6] = [10, 12, 1, 3, 15, 28];

fn pick_sig(rng: &mut Rng, out: &mut Out, what: &str) -> i32 {
    let r = rng.below(20);
    if r < 9 { out.count(&format!("{what}.quiet"), 1); *rng.pick(&QUIET_SIGS) }
    else if r < 19 { out.count(&format!("{what}.nonquiet"), 1); *rng.pick(&LOUD_SIGS) }
    else { out.count(&format!("{what}.sigint"), 1); 2 }
}

pub fn gen_requests(rng: &mut Rng, n: u64, out: &mut Out) -> Vec<String> {
    let mut req = vec![];
    for _ in 0..n {
        // script of the debuggee
        let mut toks: Vec<String> = vec![];
        for _ in 0..rng.range(1, 6) {
            match rng.below(10) {
                0..=3 => { toks.push("p".into()); out.count("script.point", 1); }
                4..=7 => { let s = pick_sig(rng, out, "script.raise"); toks.push(format!("r{s}")); }
                _ => { let s = pick_sig(rng, out, "script.kill"); toks.push(format!("k{s}")); }
            }
        }
        req.push(format!("C10 new {}", toks.join(",")));
        out.count("sessions", 1);
        let mut bp = false;
        if rng.chance(7, 10) { req.push("C10 break".into()); bp = true; out.count("op.break_before_start", 1); }
        if rng.chance(1, 15) { req.push("C10 continue".into()); out.count("op.continue_before_start", 1); }
        req.push("C10 start".into());
        let mut steps = 0;
        let mut pending = 0; // sends since the last run command (burst size)
        for _ in 0..rng.range(3, 14) {
            match rng.below(20) {
                0..=6 => {
                    let s = pick_sig(rng, out, "send");
                    let c = if rng.chance(3, 4) { "send" } else { "sendp" };
                    req.push(format!("C10 {c} {s}")); out.count(&format!("op.{c}"), 1); pending += 1;
                }
                7..=12 => { req.push("C10 continue".into()); out.count("op.continue", 1); out.count(&format!("burst.before_continue.{}", pending.min(3)), 1); pending = 0; }
                13..=16 => if steps < 10 { steps += 1; req.push("C10 stepi".into()); out.count("op.stepi", 1); out.count(&format!("burst.before_stepi.{}", pending.min(3)), 1); pending = 0; },
                17 => { req.push("C10 unbreak".into()); bp = false; out.count("op.unbreak", 1); }
                18 => { req.push("C10 break".into()); bp = true; out.count("op.break", 1); }
                _ => { req.push("C10 start".into()); out.count("op.start_again", 1); }
            }
        }
        let _ = bp;
        if rng.chance(9, 10) { req.push("C10 drain".into()); out.count("op.drain", 1); }
    }
    req
}

pub fn exec(req: &[String], out: &mut Out, tmpdir: &std::path::Path) {
    let mut sessions: Vec<Vec<String>> = vec![];
    for l in req {
        if l.starts_with("C10 new ") || sessions.is_empty() { sessions.push(vec![]); }
        sessions.last_mut().unwrap().push(l.clone());
    }
    let results = run_sessions(&sessions, tmpdir, "c10", par_default().min(4), session_timeout().max(90), |s, emit| session(s, emit));
    for (i, (s, (lines, how))) in sessions.iter().zip(results).enumerate() {
        let mut answers: Vec<String> = vec![];
        for l in lines {
            if let Some(j) = l.strip_prefix("!oracle ") {
                let v: serde_json::Value = serde_json::from_str(j).unwrap();
                out.oracle_fail(v["key"].as_str().unwrap(), v["what"].as_str().unwrap(), json!({"session": s, "detail": v["replay"]}));
            } else { answers.push(l); }
        }
        out.oracle_evals += answers.iter().filter(|a| a.contains(" h=") || a.starts_with("stops=")).count() as u64;
        for a in &answers {
            if a.starts_with("sig ") { out.count("answer.signal_stop", 1); }
            if a.starts_with("bp") { out.count("answer.breakpoint", 1); }
            if a.starts_with("exit") { out.count("answer.exit", 1); }
            if a.starts_with("panic") { out.count("answer.panic", 1); }
            if a.contains(",y") || a.contains("=y") { out.count("log.quiet_injected_in_step", 1); }
            if a.contains("x") && a.contains(" l=") { out.count("log.suppressed", 1); }
            if a.starts_with("stops=") && !a.ends_with("counts=-") { out.count("answer.counters_compared", 1); }
        }
        if how != "ok" {
            out.oracle_fail("debugger-crashed-or-hung", &format!("worker ended with {how} after {} of {} commands", answers.len(), s.len()), json!({"session": s}));
        }
        if i < 3 { out.sample(json!({"session": s, "answers": answers})); }
        for (k, l) in s.iter().enumerate() {
            let a = answers.get(k).cloned().unwrap_or_else(|| format!("worker-{how}"));
            if std::env::var("C10_RAW").is_ok() { eprintln!("{l}\n    -> {a}"); }
            out.pair(l.clone(), a);
        }
    }
}

pub fn run(args: &[String]) {
    let a = parse_args(args);
    let mut out = Out::new(&a.out);
    let req = match &a.replay {
        Some(f) => read_lines(f),
        None => { let mut rng = Rng::new(a.seed); gen_requests(&mut rng, a.n, &mut out) }
    };
    exec(&req, &mut out, &a.out);
    out.finish();
}
