//! C19: only what is in scope is shown, and it belongs to the selected frame.
//!
//! A session = one debugger on one debuggee (`c19_scopes`, opt-level 0, or `c19_scopes_o1`, opt-level 1):
//!
//!   C19 new <prog>                 + the abstract program, re-derived by `exec` on every run from the text output of
//!                                    `llvm-dwarfdump --debug-info` (an independent DWARF decoder): `C19 die ...`, `C19 loc ...`, `C19 fb ...`
//!   C19 stops <addr,...>           breakpoints at these (global) instruction addresses
//!   C19 run                        start / continue to the next stop; REWRITTEN by `exec` with what it observed independently:
//!                                    pc, the thread's raw registers, and per outer frame the stack pointer the reference trace
//!                                    gives for the call site (shifted by the difference between the two runs)
//!   C19 frame <k>                  `set_frame_into_focus(k)`; REWRITTEN with the pc of that frame (or `noframe`); answer: function DIE
//!   C19 locals | lookup <name> | args | arg <name>      which DIEs `var locals` / `var <name>` / `arg all` / `arg <name>` resolve to
//!   C19 read <name> | readarg <name>                     where the value is read from: `addr <a>` (memory) / `val <v>` (register, constant)
//!   C19 reg2dw <r> | dw2reg <n> | dwmap <n>             the DWARF <-> machine register tables, called directly
//!
//! K: every answer is compared with the Lean model (`Driver/C19.lean` over `Model/Scope.lean`).
//! O: the static scope model of the debuggee's SOURCE TEXT (brace matching; every binding carries a unique literal value,
//!    so a value read identifies the binding and, in recursive functions, the activation), the per-activation argument
//!    values, and an independent evaluation of register / location-list locations (half-open entries, raw registers).
use crate::dwline::{self, Row};
use crate::live::*;
use crate::util::*;
use bugstalker::debugger::address::RelocatedAddress;
use bugstalker::debugger::register::RegisterMap;
use bugstalker::debugger::variable::dqe::{Dqe, Selector};
use bugstalker::debugger::variable::value::{SupportedScalar, Value};
use bugstalker::debugger::{verif, StopReason};
use serde_json::json;
use std::collections::{BTreeMap, BTreeSet};
use std::path::Path;

pub const PROGS: &[&str] = &["c19_scopes-1.89", "c19_scopes_o1-1.89", "c19_gen1-1.89", "c19_gen1_o1-1.89", "c19_gen2-1.89", "c19_gen2_o1-1.89"];
const ID: &str = "C19";

fn crate_of(prog: &str) -> &str { prog.split('-').next().unwrap() }

// ------------------------------------------------------------------------------------------------------------
// independent DWARF decoding: text of `llvm-dwarfdump --debug-info`
// ------------------------------------------------------------------------------------------------------------

#[derive(Clone, Debug, Default)]
pub struct DieRec {
    pub off: u64,                 // offset in the unit
    pub parent: Option<u64>,
    pub tag: String,              // sub blk inl var par oth
    pub name: Option<String>,
    pub ranges: Vec<(u64, u64)>,
    pub loc: Option<LocAttr>,
    pub frame_base: Option<String>,
    pub decl_line: Option<u64>,
    pub decl_file: Option<String>,
    pub type_name: Option<String>,
    pub low_pc: Option<u64>,
    pub high_pc: Option<u64>,
}

#[derive(Clone, Debug)]
pub enum LocAttr { Expr(String), List(Vec<(u64, u64, String)>) }

/// `DW_OP_fbreg +64` -> `f+40`, `DW_OP_reg5 RDI` -> `r5`, `DW_OP_breg7 RSP+16` -> `b7+10`,
/// `DW_OP_breg14 R14+7, DW_OP_stack_value` -> `ve+7`, `DW_OP_lit7, DW_OP_stack_value` -> `c7`, anything else -> `u`
fn loc_token(expr: &str) -> String {
    let ops: Vec<&str> = expr.split(", ").map(|s| s.trim()).collect();
    let off = |s: &str| -> Option<String> {
        let s = s.trim();
        let (sign, d) = if let Some(r) = s.strip_prefix('+') { ('+', r) } else if let Some(r) = s.strip_prefix('-') { ('-', r) } else { return None };
        d.parse::<u64>().ok().map(|v| format!("{sign}{v:x}"))
    };
    let breg = |s: &str| -> Option<(u64, String)> {
        // "DW_OP_breg7 RSP+16"
        let r = s.strip_prefix("DW_OP_breg")?;
        let (n, rest) = r.split_once(' ')?;
        let i = rest.find(['+', '-'])?;
        Some((n.parse().ok()?, off(&rest[i..])?))
    };
    let konst = |s: &str| -> Option<u64> {
        if let Some(r) = s.strip_prefix("DW_OP_lit") { return r.parse().ok(); }
        for p in ["DW_OP_constu ", "DW_OP_const1u ", "DW_OP_const2u ", "DW_OP_const4u ", "DW_OP_const8u "] {
            if let Some(r) = s.strip_prefix(p) { return u64::from_str_radix(r.trim().trim_start_matches("0x"), 16).ok(); }
        }
        None
    };
    match ops.as_slice() {
        [a] if a.starts_with("DW_OP_fbreg ") => off(&a["DW_OP_fbreg ".len()..]).map(|o| format!("f{o}")),
        [a] if a.starts_with("DW_OP_reg") => a["DW_OP_reg".len()..].split(' ').next().and_then(|n| n.parse::<u64>().ok()).map(|n| format!("r{n:x}")),
        [a] if a.starts_with("DW_OP_breg") => breg(a).map(|(n, o)| format!("b{n:x}{o}")),
        [a, "DW_OP_stack_value"] if a.starts_with("DW_OP_breg") => breg(a).map(|(n, o)| format!("v{n:x}{o}")),
        [a, "DW_OP_stack_value"] => konst(a).map(|v| format!("c{v:x}")),
        // `DW_OP_constu C, DW_OP_breg<n> R+O, DW_OP_plus, DW_OP_stack_value` = register + (C + O) as a value
        [a, b, "DW_OP_plus", "DW_OP_stack_value"] if b.starts_with("DW_OP_breg") => match (konst(a), breg(b)) {
            (Some(c), Some((n, o))) => {
                let o = i64::from_str_radix(o.trim_start_matches(['+', '-']), 16).ok().map(|v| if o.starts_with('-') { -v } else { v });
                o.map(|o| { let t = c as i64 + o; format!("v{n:x}{}{:x}", if t < 0 { '-' } else { '+' }, t.unsigned_abs()) })
            }
            _ => None,
        },
        // a whole 8-byte register given as a single piece
        [a, "DW_OP_piece 0x8"] if a.starts_with("DW_OP_reg") => a["DW_OP_reg".len()..].split(' ').next().and_then(|n| n.parse::<u64>().ok()).map(|n| format!("r{n:x}")),
        _ => None,
    }.unwrap_or_else(|| "u".into())
}

fn paren(s: &str) -> &str {
    // text between the first '(' and the last ')'
    match (s.find('('), s.rfind(')')) { (Some(a), Some(b)) if b > a => &s[a + 1..b], (Some(a), _) => &s[a + 1..], _ => "" }
}
fn hexv(s: &str) -> Option<u64> { u64::from_str_radix(s.trim().trim_start_matches("0x"), 16).ok() }

/// the DIEs of the user's compile unit that lie in the subtree of a subprogram with code, in document order
pub fn user_dies(binary: &Path, krate: &str) -> Option<Vec<DieRec>> {
    let out = std::process::Command::new(dwline::dwarfdump()).arg("--debug-info").arg(binary).output().ok()?;
    if !out.status.success() { return None; }
    let text = String::from_utf8_lossy(&out.stdout);
    let marker = format!("progs-src/{krate}.rs");
    let mut cu_off = 0u64;
    let mut in_user = false;
    let mut seen_user = false;
    let mut all: Vec<(usize, DieRec)> = vec![]; // (depth, die) of the current unit
    let mut stack: Vec<(usize, u64)> = vec![];  // (depth, off) of open ancestors
    let mut multi: Option<&str> = None;         // attribute being continued on following lines
    let mut cu_named = false;
    for l in text.lines() {
        if l.contains(": Compile Unit:") {
            if seen_user { break; }
            cu_off = hexv(l.split(':').next()?)?;
            all.clear(); stack.clear(); in_user = false; cu_named = false; multi = None;
            continue;
        }
        let lt = l.trim_start();
        if lt.starts_with("0x") && lt.contains(": ") && (lt.contains("DW_TAG_") || lt.ends_with("NULL")) {
            multi = None;
            let (o, rest) = lt.split_once(':')?;
            let off = hexv(o)? - cu_off;
            let spaces = rest.len() - rest.trim_start().len();
            let depth = spaces.saturating_sub(1) / 2;
            let tag = rest.trim();
            if tag == "NULL" { continue; }
            while stack.last().is_some_and(|(d, _)| *d >= depth) { stack.pop(); }
            let parent = stack.last().map(|(_, o)| *o);
            stack.push((depth, off));
            let t = match tag { "DW_TAG_subprogram" => "sub", "DW_TAG_lexical_block" => "blk", "DW_TAG_inlined_subroutine" => "inl",
                                "DW_TAG_variable" => "var", "DW_TAG_formal_parameter" => "par", "DW_TAG_compile_unit" => "cu", _ => "oth" };
            all.push((depth, DieRec { off, parent, tag: t.into(), ..Default::default() }));
            continue;
        }
        let Some((_, cur)) = all.last_mut() else { continue };
        if let Some(kind) = multi {
            // continuation lines of DW_AT_ranges / DW_AT_location lists: "[0x.., 0x..)" or "[0x.., 0x..): expr"
            if lt.starts_with('[') {
                let close = lt.find(')')?;
                let (a, b) = lt[1..close].split_once(", ")?;
                let (a, b) = (hexv(a)?, hexv(b)?);
                let done = lt.ends_with("))") || (kind == "loc" && lt.ends_with(')') && !lt[close + 1..].trim_end_matches(')').contains('(') && lt[close + 1..].ends_with(')') && lt[close + 1..].matches(')').count() > lt[close + 1..].matches('(').count());
                if kind == "ranges" { cur.ranges.push((a, b)); }
                else if let Some(LocAttr::List(v)) = &mut cur.loc {
                    let mut e = lt[close + 1..].trim_start_matches(':').trim();
                    if done { e = e.strip_suffix(')').unwrap_or(e); }
                    v.push((a, b, loc_token(e)));
                }
                if done { multi = None; }
                continue;
            }
            multi = None;
        }
        if let Some(r) = lt.strip_prefix("DW_AT_name") {
            let n = paren(r).trim_matches('"').to_string();
            if cur.tag == "cu" && !cu_named { cu_named = true; in_user = n.contains(&marker); if in_user { seen_user = true; } }
            cur.name = Some(n);
        } else if let Some(r) = lt.strip_prefix("DW_AT_low_pc") { cur.low_pc = hexv(paren(r)); }
        else if let Some(r) = lt.strip_prefix("DW_AT_high_pc") { cur.high_pc = hexv(paren(r)); }
        else if let Some(r) = lt.strip_prefix("DW_AT_ranges") { if !r.trim_end().ends_with(')') { multi = Some("ranges"); } }
        else if let Some(r) = lt.strip_prefix("DW_AT_location") {
            let r = r.trim();
            if r.ends_with(':') || r.ends_with(": ") || (r.starts_with("(0x") && !r.ends_with(')')) { cur.loc = Some(LocAttr::List(vec![])); multi = Some("loc"); }
            else { cur.loc = Some(LocAttr::Expr(loc_token(paren(r)))); }
        }
        else if let Some(r) = lt.strip_prefix("DW_AT_frame_base") { cur.frame_base = Some(paren(r).to_string()); }
        else if let Some(r) = lt.strip_prefix("DW_AT_decl_line") { cur.decl_line = paren(r).parse().ok(); }
        else if let Some(r) = lt.strip_prefix("DW_AT_decl_file") { cur.decl_file = Some(paren(r).trim_matches('"').to_string()); }
        else if let Some(r) = lt.strip_prefix("DW_AT_type") { cur.type_name = paren(r).split('"').nth(1).map(String::from); }
    }
    if !seen_user || !in_user && all.is_empty() { return None; }
    // ranges of DIEs with low/high pc
    for (_, d) in all.iter_mut() {
        if d.ranges.is_empty() && let (Some(lo), Some(hi)) = (d.low_pc, d.high_pc) { d.ranges.push((lo, hi)); }
    }
    // keep the subtrees of subprograms that have code
    let mut keep: BTreeSet<u64> = BTreeSet::new();
    let mut res = vec![];
    for (_, d) in &all {
        let inside = d.parent.is_some_and(|p| keep.contains(&p));
        // functions written in the debuggee's own source file (not the std generics instantiated in its unit)
        if inside || (d.tag == "sub" && !d.ranges.is_empty() && d.decl_file.as_deref().is_some_and(|f| f.ends_with(&marker))) {
            keep.insert(d.off);
            let mut d = d.clone();
            if !inside { d.parent = None; }
            res.push(d);
        }
    }
    Some(res)
}

/// the `die` / `loc` / `fb` lines of the abstract program
fn program_lines(dies: &[DieRec]) -> Vec<String> {
    let mut v = vec![];
    for d in dies {
        v.push(format!("{ID} die {:x} {} {} {} {}", d.off, d.parent.map(|p| format!("{p:x}")).unwrap_or("-".into()), d.tag,
            d.name.as_deref().filter(|_| d.tag == "var" || d.tag == "par" || d.tag == "sub").map(enc_str).unwrap_or("-".into()),
            enc_list(&d.ranges, |(a, b)| format!("{a:x}:{b:x}"))));
        match &d.loc {
            Some(LocAttr::Expr(e)) if d.tag == "var" || d.tag == "par" => v.push(format!("{ID} loc {:x} e {e}", d.off)),
            Some(LocAttr::List(es)) if d.tag == "var" || d.tag == "par" => v.push(format!("{ID} loc {:x} l {}", d.off, enc_list(es, |(a, b, e)| format!("{a:x}:{b:x}:{e}")))),
            _ => {}
        }
        if d.tag == "sub" && let Some(fb) = &d.frame_base && let Some(n) = fb.strip_prefix("DW_OP_reg").and_then(|r| r.split(' ').next()).and_then(|n| n.parse::<u64>().ok()) {
            v.push(format!("{ID} fb {:x} {n:x}", d.off));
        }
    }
    v
}

// ------------------------------------------------------------------------------------------------------------
// the generator's static scope model: derived from the SOURCE TEXT of the debuggee (conventions in its header)
// ------------------------------------------------------------------------------------------------------------

#[derive(Clone, Debug)]
pub struct Binding { pub name: String, pub line: u64, pub end: u64, pub lit: Option<u64>, pub plus_n: bool, pub func: usize }
#[derive(Clone, Debug)]
pub struct SrcFn { pub name: String, pub first: u64, pub last: u64, pub params: Vec<String>, pub closure_of: Option<usize> }
pub struct Src { pub fns: Vec<SrcFn>, pub binds: Vec<Binding>, /// literal arguments of the calls written in `main`: callee -> arguments (None = not a literal)
    pub main_calls: BTreeMap<String, Vec<Option<u64>>> }

pub fn parse_source(text: &str) -> Src {
    let mut fns: Vec<SrcFn> = vec![];
    let mut binds: Vec<Binding> = vec![];
    // stack of open blocks: (function index, indices of bindings declared in the block, is the block a function body)
    let mut blocks: Vec<(usize, Vec<usize>, bool)> = vec![];
    let lit_of = |rhs: &str| -> (Option<u64>, bool) {
        let r = rhs.trim().trim_end_matches(';').trim();
        let (r, plus_n) = match r.strip_suffix("+ n") { Some(x) => (x.trim(), true), None => (r, false) };
        let r = r.strip_prefix("hold(").and_then(|x| x.strip_suffix(')')).unwrap_or(r);
        (r.parse::<u64>().ok(), plus_n)
    };
    for (i, raw) in text.lines().enumerate() {
        let ln = i as u64 + 1;
        let l = raw.trim();
        if l.starts_with("//") || l.is_empty() { continue; }
        let closes = l.starts_with('}');
        if closes && let Some((f, bs, is_fn)) = blocks.pop() {
            for b in bs { binds[b].end = ln; }
            if is_fn { fns[f].last = ln; }
        }
        let cur_fn = blocks.last().map(|b| b.0);
        let mut opened_fn: Option<usize> = None;
        if let Some(r) = l.strip_prefix("fn ") && l.ends_with('{') {
            let name = r.split('(').next().unwrap().to_string();
            let params = paren(r).split(',').filter_map(|p| p.split(':').next().map(|s| s.trim().to_string())).filter(|s| !s.is_empty()).collect();
            fns.push(SrcFn { name, first: ln, last: ln, params, closure_of: None });
            opened_fn = Some(fns.len() - 1);
        } else if l.starts_with("let ") && l.contains("= |") && l.ends_with('{') && let Some(cf) = cur_fn {
            // `let f = |arg: u64| {` : a binding of the enclosing function AND the body of a closure function
            let name = l["let ".len()..].split([' ', ':', '=']).next().unwrap().to_string();
            binds.push(Binding { name, line: ln, end: u64::MAX, lit: None, plus_n: false, func: cf });
            let bi = binds.len() - 1;
            blocks.last_mut().unwrap().1.push(bi);
            let params = l.split('|').nth(1).unwrap_or("").split(',').filter_map(|p| p.split(':').next().map(|s| s.trim().to_string())).filter(|s| !s.is_empty()).collect();
            fns.push(SrcFn { name: format!("{}::{{closure#0}}", fns[cf].name), first: ln, last: ln, params, closure_of: Some(cf) });
            opened_fn = Some(fns.len() - 1);
        } else if let Some(r) = l.strip_prefix("let ") && let Some(cf) = cur_fn {
            let r = r.strip_prefix("mut ").map(|x| (x, true)).unwrap_or((r, false));
            let name = r.0.split([' ', ':', '=', ';']).next().unwrap().to_string();
            let (lit, plus_n) = if r.1 { (None, false) } else { r.0.split_once('=').map(|(_, rhs)| lit_of(rhs)).unwrap_or((None, false)) };
            binds.push(Binding { name, line: ln, end: u64::MAX, lit, plus_n, func: cf });
            let bi = binds.len() - 1;
            blocks.last_mut().unwrap().1.push(bi);
        }
        if l.ends_with('{') {
            match opened_fn {
                Some(f) => blocks.push((f, vec![], true)),
                None => if let Some(f) = cur_fn { blocks.push((f, vec![], false)) },
            }
        }
    }
    // calls in `main`: `let r: u64 = NAME(ARG, ARG);`
    let mut main_calls: BTreeMap<String, Vec<Option<u64>>> = BTreeMap::new();
    if let Some(m) = fns.iter().find(|f| f.name == "main") {
        for (i, raw) in text.lines().enumerate() {
            let ln = i as u64 + 1;
            if ln <= m.first || ln >= m.last { continue; }
            if let Some((_, rhs)) = raw.split_once("= ") && let Some((callee, rest)) = rhs.split_once('(') && let Some(args) = rest.strip_suffix(");")
                && callee.chars().all(|ch| ch.is_alphanumeric() || ch == '_') {
                main_calls.insert(callee.to_string(), args.split(',').map(|a| a.trim().parse::<u64>().ok()).collect());
            }
        }
    }
    Src { fns, binds, main_calls }
}

impl Src {
    pub fn fn_at(&self, line: u64) -> Option<usize> {
        // innermost function (closures are nested in their parent's line span)
        self.fns.iter().enumerate().filter(|(_, f)| f.first <= line && line <= f.last).max_by_key(|(_, f)| f.first).map(|(i, _)| i)
    }
    /// (must be listed, must not be listed) among the bindings of the function that contains `line`
    pub fn scope_at(&self, line: u64) -> (Vec<&Binding>, Vec<&Binding>) {
        let Some(f) = self.fn_at(line) else { return (vec![], vec![]) };
        let mut must = vec![]; let mut must_not = vec![];
        for b in self.binds.iter().filter(|b| b.func == f) {
            if b.line < line && line < b.end { must.push(b); }
            else if line < b.line || line > b.end { must_not.push(b); }
        }
        (must, must_not)
    }
}

// ------------------------------------------------------------------------------------------------------------
// generation
// ------------------------------------------------------------------------------------------------------------

fn user_ranges(dies: &[DieRec]) -> Vec<(u64, u64)> {
    dies.iter().filter(|d| d.tag == "sub" && d.parent.is_none()).flat_map(|d| d.ranges.clone()).collect()
}
fn in_user(r: &[(u64, u64)], pc: u64) -> bool { r.iter().any(|(a, b)| pc >= *a && pc < *b) }

struct Ctx { p: Prog, dies: Vec<DieRec>, rows: Vec<Row>, src: Src, opt: bool }
fn load_ctx(name: &str) -> Option<Ctx> {
    let p = Prog::load(name);
    let krate = crate_of(name).to_string();
    let dies = user_dies(&p.path, &krate)?;
    let rows = dwline::line_rows(&p.path).unwrap_or_default();
    let text = std::fs::read_to_string(verif_root().join("progs-src").join(format!("{krate}.rs"))).ok()?;
    Some(Ctx { p, dies, rows, src: parse_source(&text), opt: krate.ends_with("_o1") })
}

/// the user frames of a trace position: (pc of the frame, index in the trace of the instruction the frame is stopped at /
/// its call instruction), innermost first; stops at the first frame outside the user's functions
fn true_frames(p: &Prog, ur: &[(u64, u64)], pos: usize) -> Vec<(u64, usize)> {
    let st = &p.trace[pos];
    let mut v = vec![(st.pc, pos)];
    let chain = &st.chain;
    let mut j = pos;
    for k in 1..=chain.len() {
        let ra = chain[chain.len() - k].wrapping_sub(p.base);
        if !in_user(ur, ra) { break; }
        let want = st.depth as i64 - k as i64;
        // the call instruction of frame k: last executed instruction of that depth before the position
        let Some(jj) = (0..j).rev().find(|x| p.trace[*x].depth as i64 == want) else { break };
        if ra <= p.trace[jj].pc || ra - p.trace[jj].pc > 8 { break; }
        v.push((ra, jj));
        j = jj;
    }
    v
}

pub fn gen_requests(rng: &mut Rng, n: u64, out: &mut Out) -> Vec<String> {
    let mut req = vec![];
    // the register tables, exhaustively
    req.push(format!("{ID} new tables"));
    for r in 0..32 { req.push(format!("{ID} reg2dw {r:x}")); }
    for n in 0..200u64 { req.push(format!("{ID} dw2reg {n:x}")); req.push(format!("{ID} dwmap {n:x}")); }
    for n in [0xffffu64, 0x7fff, 0x8000, 0x100] { req.push(format!("{ID} dw2reg {n:x}")); req.push(format!("{ID} dwmap {n:x}")); }
    out.count("tables.lines", req.len() as u64 - 1);
    // which programs a run visits rotates with the seed; opt-level 0 and 1 alternate
    let prog_off = 2 * rng.below(PROGS.len() as u64 / 2);
    for s in 0..n {
        let name = PROGS[((s + prog_off) % PROGS.len() as u64) as usize];
        let Some(c) = load_ctx(name) else { out.count("skipped.no-dwarfdump", 1); continue };
        let ur = user_ranges(&c.dies);
        let pcs: Vec<u64> = { let s: BTreeSet<u64> = c.p.trace.iter().map(|s| s.pc).filter(|pc| in_user(&ur, *pc)).collect(); s.into_iter().collect() };
        // interesting addresses: boundaries of block ranges and of location-list entries, and the instruction before them
        let mut edges: BTreeSet<u64> = BTreeSet::new();
        for d in &c.dies {
            for (a, b) in &d.ranges { edges.insert(*a); edges.insert(*b); }
            if let Some(LocAttr::List(es)) = &d.loc { for (a, b, _) in es { edges.insert(*a); edges.insert(*b); } }
        }
        let mut interesting: Vec<u64> = vec![];
        for (i, pc) in pcs.iter().enumerate() {
            if edges.contains(pc) { interesting.push(*pc); if i > 0 { interesting.push(pcs[i - 1]); } }
        }
        req.push(format!("{ID} new {name}"));
        out.count(&format!("prog.{name}"), 1);
        let mut stops: BTreeSet<u64> = BTreeSet::new();
        let k = rng.range(10, 18);
        // how often each address is executed: addresses inside `hold`/`leaf` are hit hundreds of times and would crowd out the rest
        let mut hitcount: BTreeMap<u64, usize> = BTreeMap::new();
        for st in &c.p.trace { *hitcount.entry(st.pc).or_default() += 1; }
        let mut budget = 160usize;
        let mut tries = 0;
        while (stops.len() as u64) < k && tries < 400 {
            tries += 1;
            let a = if !interesting.is_empty() && rng.chance(1, 2) { *rng.pick(&interesting) } else { *rng.pick(&pcs) };
            let h = hitcount.get(&a).copied().unwrap_or(0);
            if stops.contains(&a) || h > budget || (h > 12 && !rng.chance(1, 6)) { continue; }
            budget -= h;
            stops.insert(a);
        }
        req.push(format!("{ID} stops {}", enc_list(&stops.iter().collect::<Vec<_>>(), |a| format!("{a:x}"))));
        // the stops the program will make = projection of the reference trace; a random subset of them is explored
        let hits: Vec<usize> = (0..c.p.trace.len()).filter(|i| stops.contains(&c.p.trace[*i].pc)).collect();
        let want = rng.range(14, 22) as usize;
        let mut explore: BTreeSet<usize> = BTreeSet::new();
        if hits.len() <= want { explore.extend(hits.iter().copied()); } else { while explore.len() < want { explore.insert(*rng.pick(&hits)); } }
        let last = explore.iter().max().copied().unwrap_or(0);
        for &pos in hits.iter().filter(|h| **h <= last) {
            req.push(format!("{ID} run"));
            if !explore.contains(&pos) { out.count("op.run.passing", 1); continue; }
            out.count("op.run", 1);
            let frames = true_frames(&c.p, &ur, pos);
            out.count(&format!("frames.{}", frames.len().min(6)), 1);
            if edges.contains(&c.p.trace[pos].pc) { out.count("stop.at-a-range-or-loclist-edge", 1); }
            for (k, (fpc, _)) in frames.iter().enumerate().take(6) {
                req.push(format!("{ID} frame {k:x}"));
                req.push(format!("{ID} locals"));
                req.push(format!("{ID} args"));
                out.count(&format!("op.frame{}", k.min(3)), 1);
                // names of the function of this frame
                let Some(f) = c.dies.iter().find(|d| d.tag == "sub" && d.parent.is_none() && in_user(&d.ranges, *fpc)) else { continue };
                let mut sub: BTreeSet<u64> = BTreeSet::from([f.off]);
                let mut vars: Vec<&DieRec> = vec![]; let mut pars: Vec<&DieRec> = vec![];
                for d in &c.dies {
                    if d.parent.is_some_and(|p| sub.contains(&p)) {
                        sub.insert(d.off);
                        if d.tag == "var" && d.name.is_some() { vars.push(d); }
                        if d.tag == "par" && d.name.is_some() && d.parent == Some(f.off) { pars.push(d); }
                    }
                }
                let names: BTreeSet<&str> = vars.iter().map(|d| d.name.as_deref().unwrap()).collect();
                let shadowed: Vec<&str> = names.iter().copied().filter(|n| vars.iter().filter(|d| d.name.as_deref() == Some(n)).count() > 1).collect();
                for n in &names {
                    let multi = shadowed.contains(n);
                    if !(multi || rng.chance(1, 2)) { continue; }
                    req.push(format!("{ID} lookup {}", enc_str(n)));
                    if vars.iter().any(|d| d.name.as_deref() == Some(*n) && d.type_name.as_deref() == Some("u64")) {
                        req.push(format!("{ID} read {}", enc_str(n)));
                        out.count(if multi { "op.read.shadowed-name" } else { "op.read.plain-name" }, 1);
                    }
                }
                if rng.chance(1, 4) { req.push(format!("{ID} lookup {}", enc_str("no_such_name"))); }
                for d in &pars {
                    let n = d.name.as_deref().unwrap();
                    req.push(format!("{ID} arg {}", enc_str(n)));
                    if d.type_name.as_deref() == Some("u64") { req.push(format!("{ID} readarg {}", enc_str(n))); out.count("op.readarg", 1); }
                }
            }
        }
    }
    req
}

// ------------------------------------------------------------------------------------------------------------
// execution on the real debugger + oracle
// ------------------------------------------------------------------------------------------------------------

fn raw_regs(pid: i32) -> Option<libc::user_regs_struct> {
    let mut regs: libc::user_regs_struct = unsafe { std::mem::zeroed() };
    let r = unsafe { libc::ptrace(libc::PTRACE_GETREGS, pid, 0usize, &mut regs as *mut _ as usize) };
    if r == 0 { Some(regs) } else { None }
}
/// the registers in `struct RegisterMap` field order (the order of `Gen.Regs.structFields`)
fn map_order(r: &libc::user_regs_struct) -> [u64; 27] {
    [r.rax, r.rbx, r.rcx, r.rdx, r.rdi, r.rsi, r.rbp, r.rsp, r.r8, r.r9, r.r10, r.r11, r.r12, r.r13, r.r14, r.r15, r.rip,
     r.eflags, r.cs, r.orig_rax, r.fs_base, r.gs_base, r.fs, r.gs, r.ss, r.ds, r.es]
}
/// System V x86-64 psABI, figure 3.36: DWARF register number -> register (independent of register.rs)
fn abi_reg(r: &libc::user_regs_struct, n: u64) -> Option<u64> {
    Some(match n { 0 => r.rax, 1 => r.rdx, 2 => r.rcx, 3 => r.rbx, 4 => r.rsi, 5 => r.rdi, 6 => r.rbp, 7 => r.rsp, 8 => r.r8, 9 => r.r9,
                   10 => r.r10, 11 => r.r11, 12 => r.r12, 13 => r.r13, 14 => r.r14, 15 => r.r15, 16 => r.rip, _ => return None })
}

fn table_line(t: &[&str]) -> String {
    match t {
        [_, "reg2dw", r] => {
            let Ok(r) = usize::from_str_radix(r, 16) else { return "bad-op".into() };
            const NAMES: [&str; 27] = ["rax", "rbx", "rcx", "rdx", "rdi", "rsi", "rbp", "rsp", "r8", "r9", "r10", "r11", "r12", "r13", "r14", "r15", "rip",
                "eflags", "cs", "orig_rax", "fs_base", "gs_base", "fs", "gs", "ss", "ds", "es"];
            match NAMES.get(r).and_then(|n| verif::verif_register_to_dwarf(n)) { Some(Some(n)) => format!("some {n:x}"), _ => "none".into() }
        }
        [_, "dw2reg", n] => {
            let Ok(n) = u64::from_str_radix(n, 16) else { return "bad-op".into() };
            if n > 0xffff { return "panic".into(); }
            const VARIANTS: [&str; 27] = ["rax", "rbx", "rcx", "rdx", "rdi", "rsi", "rbp", "rsp", "r8", "r9", "r10", "r11", "r12", "r13", "r14", "r15", "rip",
                "eflags", "cs", "orig_rax", "fs_base", "gs_base", "fs", "gs", "ss", "ds", "es"];
            match std::panic::catch_unwind(|| verif::verif_register_from_dwarf(n as u16)) {
                Ok(name) => VARIANTS.iter().position(|v| *v == name).map(|i| format!("reg {i:x}")).unwrap_or(format!("reg ?{name}")),
                Err(_) => "panic".into(),
            }
        }
        [_, "dwmap", n] => {
            let Ok(n) = u64::from_str_radix(n, 16) else { return "bad-op".into() };
            if n > 0xffff { return "none".into(); }
            let mut r: libc::user_regs_struct = unsafe { std::mem::zeroed() };
            // field i of RegisterMap := 0x1000 + i
            let f: Vec<u64> = (0..27).map(|i| 0x1000 + i).collect();
            (r.rax, r.rbx, r.rcx, r.rdx, r.rdi, r.rsi, r.rbp, r.rsp) = (f[0], f[1], f[2], f[3], f[4], f[5], f[6], f[7]);
            (r.r8, r.r9, r.r10, r.r11, r.r12, r.r13, r.r14, r.r15, r.rip) = (f[8], f[9], f[10], f[11], f[12], f[13], f[14], f[15], f[16]);
            (r.eflags, r.cs, r.orig_rax, r.fs_base, r.gs_base, r.fs, r.gs, r.ss, r.ds, r.es) = (f[17], f[18], f[19], f[20], f[21], f[22], f[23], f[24], f[25], f[26]);
            match std::panic::catch_unwind(|| verif::verif_dwarf_map_value(RegisterMap::from(r), n as u16)) {
                Ok(Some(v)) => format!("some {v:x}"), Ok(None) => "none".into(), Err(_) => "panic".into(),
            }
        }
        _ => "bad-op".into(),
    }
}

/// how the implementation showed a scalar: where it was read from
fn shown(v: &Value) -> (String, Option<u64>) {
    match v {
        Value::Scalar(s) => {
            let num = match s.value { Some(SupportedScalar::U64(x)) => Some(x), Some(SupportedScalar::Usize(x)) => Some(x as u64), _ => None };
            match (s.raw_address, num) {
                (Some(a), _) => (format!("addr {a:x}"), num),
                (None, Some(x)) => (format!("val {x:x}"), num),
                (None, None) => ("nodata".into(), None),
            }
        }
        _ => ("nonscalar".into(), None),
    }
}

struct Stop { pos: Option<usize>, regs: libc::user_regs_struct, frames: Vec<(u64, usize)> }

pub fn session(lines: &[String], c: Option<&Ctx>, emit: &mut dyn FnMut(String)) {
    let t0: Vec<&str> = lines[0].split(' ').collect();
    if t0.get(2) == Some(&"tables") {
        emit(format!("{}\tok", lines[0]));
        for l in &lines[1..] {
            let t: Vec<&str> = l.split(' ').collect();
            let ans = table_line(&t);
            // O: psABI figure 3.36 — every register number the ABI assigns (and dwarf_register produces) converts back
            if let [_, "dw2reg", n] = t.as_slice() && let Ok(n) = u64::from_str_radix(n, 16) {
                const ABI: [(u64, usize); 17] = [(0, 0), (1, 3), (2, 2), (3, 1), (4, 5), (5, 4), (6, 6), (7, 7), (8, 8), (9, 9), (10, 10), (11, 11), (12, 12), (13, 13), (14, 14), (15, 15), (16, 16)];
                if let Some((_, r)) = ABI.iter().find(|(d, _)| *d == n) && ans != format!("reg {r:x}") {
                    let key = if ans == "panic" { format!("register-from-dwarf-number-{n}-panics") } else { "register-from-dwarf-number-wrong".to_string() };
                    emit(format!("!oracle {}", json!({"key": key, "what": format!("Register::from(gimli::Register({n})) gives `{ans}`, the psABI assigns register index {r}"), "replay": {"line": l}})));
                }
            }
            if let [_, "dwmap", n] = t.as_slice() && let Ok(n) = u64::from_str_radix(n, 16) {
                const ABI: [(u64, u64); 17] = [(0, 0), (1, 3), (2, 2), (3, 1), (4, 5), (5, 4), (6, 6), (7, 7), (8, 8), (9, 9), (10, 10), (11, 11), (12, 12), (13, 13), (14, 14), (15, 15), (16, 16)];
                if let Some((_, f)) = ABI.iter().find(|(d, _)| *d == n) && ans != format!("some {:x}", 0x1000 + f) {
                    emit(format!("!oracle {}", json!({"key": "dwarf-register-map-reads-wrong-machine-register", "what": format!("DwarfRegisterMap::from(..).value({n}) gives `{ans}`, the psABI register is RegisterMap field {f}"), "replay": {"line": l}})));
                }
            }
            emit(format!("{l}\t{ans}"));
        }
        return;
    }
    let Some(c) = c else { emit(format!("{}\tno-program", lines[0])); return };
    let p = &c.p;
    let mut live = match Live::launch(p) { Ok(l) => l, Err(e) => { emit(format!("{}\tlaunch-failed {e}", lines[0])); return; } };
    emit(format!("{}\tok", lines[0]));
    for l in program_lines(&c.dies) { emit(format!("{l}\tok")); }
    let base = p.base;
    let ur = user_ranges(&c.dies);
    let die_by_off: BTreeMap<u64, &DieRec> = c.dies.iter().map(|d| (d.off, d)).collect();
    let user_file = format!("{}.rs", crate_of(&p.name));
    let line_of = |pc: u64| dwline::row_for_pc(&c.rows, pc).filter(|r| r.file.ends_with(&user_file)).map(|r| r.line);
    let mut bset: BTreeSet<u64> = BTreeSet::new();
    let mut started = false; let mut exited = false;
    let mut pos: Option<usize> = None;
    let mut shift: Option<i128> = None;
    let mut stop: Option<Stop> = None;
    let mut cur_k: usize = 0;           // selected frame (as the implementation has it)
    let mut cur_pc: Option<u64> = None; // its global pc
    let fail = |emit: &mut dyn FnMut(String), key: &str, what: String| {
        emit(format!("!oracle {}", json!({"key": key, "what": what, "replay": {"prog": p.name}})));
    };
    for line in &lines[1..] {
        let t: Vec<&str> = line.split(' ').collect();
        match t.as_slice() {
            [_, "die" | "loc" | "fb", ..] => { /* re-derived above */ }
            [_, "stops", list] => {
                let mut ok = true;
                for a in dec_list(list, |s| u64::from_str_radix(s, 16).unwrap_or(0)) {
                    if live.dbg.set_breakpoint_at_addr(RelocatedAddress::from((base + a) as usize)).is_ok() { bset.insert(a); } else { ok = false; }
                }
                emit(format!("{line}\t{}", if ok { "ok" } else { "err" }));
            }
            // symbolic stops for corpus files (addresses differ between builds): first statement row of a source line /
            // the (exclusive) end address of the idx-th location-list entry of the variable <name> declared on <line>
            [_, "stopsl", list] => {
                let mut addrs: Vec<u64> = vec![];
                for ln in dec_list(list, |s| s.parse::<u64>().unwrap_or(0)) {
                    if let Some(a) = c.rows.iter().filter(|r| r.line == ln && r.is_stmt && !r.end_sequence && r.file.ends_with(&user_file) && in_user(&ur, r.addr)).map(|r| r.addr).min() { addrs.push(a); }
                }
                let mut ok = !addrs.is_empty();
                for a in &addrs { if live.dbg.set_breakpoint_at_addr(RelocatedAddress::from((base + a) as usize)).is_ok() { bset.insert(*a); } else { ok = false; } }
                emit(format!("{ID} stops {}\t{}", enc_list(&addrs, |a| format!("{a:x}")), if ok { "ok" } else { "err" }));
            }
            [_, "stopend", name, decl, idx] => {
                let (n, decl, idx) = (dec_str(name), decl.parse::<u64>().unwrap_or(0), idx.parse::<usize>().unwrap_or(0));
                let a = c.dies.iter().find(|d| d.name.as_deref() == Some(&n) && d.decl_line == Some(decl))
                    .and_then(|d| match &d.loc { Some(LocAttr::List(es)) => es.get(idx).map(|e| e.1), _ => None });
                let ok = a.is_some_and(|a| { let r = live.dbg.set_breakpoint_at_addr(RelocatedAddress::from((base + a) as usize)).is_ok(); if r { bset.insert(a); } r });
                emit(format!("{ID} stops {}\t{}", a.map(|a| format!("{a:x}")).unwrap_or("-".into()), if ok { "ok" } else { "err" }));
            }
            [_, "run", ..] => {
                if exited { emit(format!("{ID} run exit\texit")); continue; }
                let r = if !started { live.dbg.start_debugee_with_reason() } else { live.dbg.continue_debugee_with_reason() };
                match r {
                    Ok(StopReason::Breakpoint(_, pc)) => {
                        let g = u64::from(pc).wrapping_sub(base);
                        let from = if started { pos.map(|x| x + 1) } else { Some(0) };
                        started = true;
                        pos = from.and_then(|f| (f..p.trace.len()).find(|j| bset.contains(&p.trace[*j].pc)));
                        let regs = raw_regs(live.pid()).unwrap_or(unsafe { std::mem::zeroed() });
                        if let Some(j) = pos {
                            let s = regs.rsp as i128 - p.trace[j].rsp as i128;
                            if shift.is_none() { shift = Some(s); }
                            if p.trace[j].pc != g || shift != Some(s) { pos = None; }
                        }
                        let frames = pos.map(|j| true_frames(p, &ur, j)).unwrap_or(vec![(g, 0)]);
                        // stack pointer of every outer frame = stack pointer at its call instruction in the reference run
                        let sps: Vec<u64> = frames.iter().skip(1).map(|(_, j)| (p.trace[*j].rsp as i128 + shift.unwrap_or(0)) as u64).collect();
                        emit(format!("{ID} run {g:x} {} {}\tstop {g:x}", enc_list(&map_order(&regs), |v| format!("{v:x}")), enc_list(&sps, |v| format!("{v:x}"))));
                        stop = Some(Stop { pos, regs, frames });
                        cur_k = 0; cur_pc = Some(g);
                    }
                    Ok(StopReason::DebugeeExit(_)) => { started = true; exited = true; pos = None; stop = None; emit(format!("{ID} run exit\texit")); }
                    Ok(other) => { pos = None; stop = None; emit(format!("{ID} run other\t{}", format!("other {other:?}").replace(' ', "_"))); }
                    Err(_) => { emit(format!("{ID} run err\terr")); }
                }
            }
            [_, "frame", k, ..] => {
                let Ok(k) = usize::from_str_radix(k, 16) else { emit(format!("{line}\tbad-op")); continue };
                match live.dbg.set_frame_into_focus(k as u32) {
                    Ok(_) => {
                        let g = u64::from(live.dbg.ecx().location().pc).wrapping_sub(base);
                        cur_k = k; cur_pc = Some(g);
                        let f = live.dbg.verif_find_function_by_pc(g).ok().flatten();
                        let ans = match f { Some((_, off)) if in_user(&ur, g) => format!("fn {off:x}"), _ => "nofn".to_string() };
                        // O: the pc of frame k is the k-th return address of the real call chain
                        if let Some(s) = &stop && s.pos.is_some() {
                            match s.frames.get(k) {
                                Some((want, _)) if *want != g => fail(emit, "selected-frame-has-wrong-pc", format!("frame {k}: pc {g:x}, the real call chain has {want:x}")),
                                _ => {}
                            }
                        }
                        emit(format!("{ID} frame {k:x} {g:x}\t{ans}"));
                    }
                    Err(_) => {
                        if let Some(s) = &stop && s.pos.is_some() && k < s.frames.len() {
                            fail(emit, "frame-of-the-real-call-chain-cannot-be-selected", format!("frame {k} of {} real user frames at pc {:x}: set_frame_into_focus failed (backtrace shorter than the call chain)", s.frames.len(), s.frames[0].0));
                        }
                        emit(format!("{ID} frame {k:x} noframe\tnoframe"));
                    }
                }
            }
            [_, c1 @ ("locals" | "args")] => {
                let on_args = *c1 == "args";
                let r = live.dbg.verif_selected_dies(None, on_args);
                let ans = match &r {
                    Ok(v) => enc_list(v, |(_, off)| format!("{off:x}")),
                    Err(_) => if cur_pc.is_some_and(|g| in_user(&ur, g)) { "err".into() } else { "nofn".into() },
                };
                // the public API must show the same DIEs (by name) as the selection the hook exposes
                if let Ok(v) = &r {
                    let want: Vec<String> = v.iter().filter_map(|(_, off)| die_by_off.get(&(*off as u64)).and_then(|d| d.name.clone())).collect();
                    let got = if on_args { live.dbg.read_argument_names(Dqe::Variable(Selector::Any)) } else { live.dbg.read_variable_names(Dqe::Variable(Selector::Any)) };
                    if let Ok(got) = got && got != want {
                        fail(emit, "public-api-names-differ-from-the-selected-dies", format!("{c1}: names {got:?}, selected DIEs are named {want:?}"));
                    }
                }
                // O: static scope model of the source text (opt-level 0 only: optimized code has no line-exact scopes)
                if let (Ok(v), Some(s), Some(g), false) = (&r, &stop, cur_pc, c.opt) && s.pos.is_some() && cur_k < s.frames.len() {
                    // location of the frame: its own pc for frame 0, the call instruction for outer frames
                    let loc_pc = if cur_k == 0 { g } else { p.trace[s.frames[cur_k].1].pc };
                    let past_prologue = c.dies.iter().find(|d| d.tag == "sub" && d.parent.is_none() && in_user(&d.ranges, loc_pc))
                        .and_then(|f| c.rows.iter().filter(|r| r.prologue_end && in_user(&f.ranges, r.addr)).map(|r| r.addr).min()).is_some_and(|pe| loc_pc >= pe);
                    if let Some(ln) = line_of(loc_pc) && past_prologue {
                        let names: Vec<String> = v.iter().filter_map(|(_, off)| die_by_off.get(&(*off as u64)).and_then(|d| d.name.clone())).collect();
                        let lines_listed: Vec<u64> = v.iter().filter_map(|(_, off)| die_by_off.get(&(*off as u64)).and_then(|d| d.decl_line)).collect();
                        if !on_args {
                            let (must, must_not) = c.src.scope_at(ln);
                            for b in must {
                                if !lines_listed.contains(&b.line) {
                                    let key = if cur_k > 0 && !lines_listed.contains(&b.line) && line_of(g) != Some(ln) { "outer-frame-scope-taken-at-the-return-address-misses-a-live-local" } else { "local-in-scope-is-not-listed" };
                                    fail(emit, key, format!("frame {cur_k} at pc {loc_pc:x} (line {ln}): `{}` declared on line {} is in scope but not listed; listed: {names:?}", b.name, b.line));
                                }
                            }
                            for b in must_not {
                                if lines_listed.contains(&b.line) {
                                    let key = if ln < b.line { "local-declared-later-is-listed" } else { "local-of-a-closed-or-sibling-block-is-listed" };
                                    fail(emit, key, format!("frame {cur_k} at pc {loc_pc:x} (line {ln}): `{}` of line {} (scope ends on line {}) is listed", b.name, b.line, b.end));
                                }
                            }
                        } else if let Some(fi) = c.src.fn_at(ln) {
                            let want: Vec<&String> = c.src.fns[fi].params.iter().collect();
                            let got: Vec<&String> = names.iter().filter(|n| !n.starts_with("{") && !n.starts_with("self")).collect();
                            if c.src.fns[fi].closure_of.is_none() && got != want {
                                fail(emit, "arguments-listed-differ-from-the-parameters-of-the-function", format!("frame {cur_k} at line {ln}: listed {got:?}, the function has {want:?}"));
                            }
                        }
                    }
                }
                emit(format!("{line}\t{ans}"));
            }
            [_, c1 @ ("lookup" | "arg"), name] => {
                let n = dec_str(name);
                let on_args = *c1 == "arg";
                let r = live.dbg.verif_selected_dies(Some(&n), on_args);
                let ans = match &r {
                    Ok(v) if on_args => enc_list(v, |(_, off)| format!("{off:x}")),
                    Ok(v) => v.first().map(|(_, off)| format!("{off:x}")).unwrap_or("none".into()),
                    Err(_) => if cur_pc.is_some_and(|g| in_user(&ur, g)) { "err".into() } else { "nofn".into() },
                };
                emit(format!("{line}\t{ans}"));
            }
            [_, c1 @ ("read" | "readarg"), name, ..] => {
                let n = dec_str(name);
                let on_args = *c1 == "readarg";
                let dqe = Dqe::Variable(Selector::by_name(&n, true));
                let r = if on_args { live.dbg.read_argument(dqe) } else { live.dbg.read_variable(dqe) };
                let (ans, num) = match &r {
                    Ok(v) if v.is_empty() => {
                        // a DIE that is selected but yields no query result has no readable data
                        let sel = live.dbg.verif_selected_dies(Some(&n), on_args).map(|v| !v.is_empty()).unwrap_or(false);
                        (if sel { "nodata".to_string() } else { "novar".to_string() }, None)
                    }
                    Ok(v) => match &v[0].value { Some(val) => shown(val), None => ("nodata".to_string(), None) },
                    Err(_) => (if cur_pc.is_some_and(|g| in_user(&ur, g)) { "err".to_string() } else { "nofn".to_string() }, None),
                };
                let which = live.dbg.verif_selected_dies(Some(&n), on_args).ok().and_then(|v| v.first().map(|x| x.1 as u64));
                // ---------------- O
                if let (Some(s), Some(g)) = (&stop, cur_pc) && s.pos.is_some() && cur_k < s.frames.len() {
                    let loc_pc = if cur_k == 0 { g } else { p.trace[s.frames[cur_k].1].pc };
                    let ln = line_of(loc_pc);
                    // activation index among the frames of the same function (recursion depth, outermost = 0)
                    let fn_of = |pc: u64| c.dies.iter().find(|d| d.tag == "sub" && d.parent.is_none() && in_user(&d.ranges, pc)).map(|d| d.off);
                    let me = fn_of(s.frames[cur_k].0);
                    let outer_same = s.frames.iter().skip(cur_k + 1).filter(|(pc, _)| fn_of(*pc) == me).count() as u64;
                    let past_prologue = me.and_then(|off| die_by_off.get(&off)).and_then(|f| c.rows.iter().filter(|r| r.prologue_end && in_user(&f.ranges, r.addr)).map(|r| r.addr).min()).is_some_and(|pe| loc_pc >= pe);
                    // rustc's -O0 locations are `DW_OP_fbreg` off a frame base `DW_OP_reg7 RSP` and are not adjusted for the epilogue:
                    // after the `add rsp, N` of the epilogue (pc past the first instruction of the epilogue_begin row) they point
                    // elsewhere.  That is the compiler's description, not the debugger's reading of it: no verdict on values there.
                    let sp_restored = cur_k == 0 && dwline::row_for_pc(&c.rows, g).is_some_and(|r| r.epilogue_begin && g > r.addr);
                    if sp_restored { emit("!count oracle.no-verdict.epilogue-after-sp-restore".to_string()); }
                    if !c.opt && !sp_restored && let (Some(ln), Some(x), true) = (ln, num, past_prologue) && let Some(fi) = c.src.fn_at(ln) {
                        let f = &c.src.fns[fi];
                        // per-activation argument values, from the calls written in `main` and the recursion scheme of the
                        // debuggees (`rec*(n, tag)` calls itself with (n - 1, tag + 1); `multi(n, w)` with n - 1)
                        let lit_arg = |fname: &str, i: usize| c.src.main_calls.get(fname).and_then(|a| a.get(i).copied().flatten());
                        let recursive = |fname: &str| fname.starts_with("rec") || fname == "multi";
                        let n_arg = |fname: &str| -> Option<u64> { if recursive(fname) { lit_arg(fname, 0).map(|k| k - outer_same.min(k)) } else { None } };
                        // is the caller of this frame `main` (so that the literals written there are this activation's arguments)?
                        let called_from_main = s.frames.get(cur_k + 1).and_then(|(pc, _)| line_of(*pc - 1)).and_then(|l| c.src.fn_at(l)).is_some_and(|i| c.src.fns[i].name == "main");
                        if on_args {
                            let pi = f.params.iter().position(|p| *p == n);
                            let want: Option<u64> = match (f.name.as_str(), pi) {
                                (fname, Some(0)) if recursive(fname) => n_arg(fname),
                                (fname, Some(1)) if fname.starts_with("rec") => lit_arg(fname, 1).map(|t| t + outer_same),
                                (fname, Some(i)) if !recursive(fname) && called_from_main && f.closure_of.is_none() => lit_arg(fname, i),
                                _ => None,
                            };
                            if let Some(w) = want && w != x {
                                fail(emit, "argument-value-is-not-that-of-the-selected-activation", format!("frame {cur_k} `{}` activation #{outer_same}: `{n}` shown as {x}, the activation was called with {w}", f.name));
                            }
                        } else {
                            let (must, _) = c.src.scope_at(ln);
                            let cands: Vec<&&Binding> = must.iter().filter(|b| b.name == n).collect();
                            if let Some(inner) = cands.iter().max_by_key(|b| b.line) && let Some(lit) = inner.lit {
                                let val_of = |b: &Binding| b.lit.map(|l| if b.plus_n { l + n_arg(&f.name).unwrap_or(0) } else { l });
                                let want = val_of(inner).unwrap_or(lit);
                                if x != want {
                                    let key = if cands.iter().any(|b| b.line != inner.line && val_of(b) == Some(x)) { "shadowed-name-resolves-to-an-outer-binding" }
                                        else if c.src.binds.iter().any(|b| b.func == fi && b.name == n && b.lit.is_some() && (0..=3).any(|d| b.lit.map(|l| l + if b.plus_n { d } else { 0 }) == Some(x)) && b.line != inner.line) { "name-resolves-to-a-binding-that-is-not-in-scope" }
                                        else if inner.plus_n && (0..=3).any(|d| lit + d == x) { "local-value-is-that-of-another-activation" }
                                        else { "local-value-differs-from-the-source" };
                                    fail(emit, key, format!("frame {cur_k} at pc {loc_pc:x} (line {ln}) `{}`: `{n}` shown as {x}; innermost live binding is line {} = {want}", f.name, inner.line));
                                }
                            }
                        }
                    }
                    // independent evaluation of the location (frame 0: raw registers; half-open location-list entries)
                    if cur_k == 0 && let Some(d) = which.and_then(|off| die_by_off.get(&off)) && let Some(loc) = &d.loc {
                        let e: Option<(String, Option<u64>)> = match loc {
                            LocAttr::Expr(e) => Some((e.clone(), None)),
                            LocAttr::List(es) => es.iter().find(|(a, b, _)| *a <= g && g < *b).map(|(_, b, e)| (e.clone(), Some(*b))),
                        };
                        let used_end = match loc { LocAttr::List(es) => es.iter().find(|(a, b, _)| *a <= g && g <= *b).filter(|(_, b, _)| *b == g).is_some(), _ => false };
                        let fbreg = me.and_then(|off| die_by_off.get(&off)).and_then(|f| f.frame_base.as_deref()).and_then(|fb| fb.strip_prefix("DW_OP_reg")).and_then(|r| r.split(' ').next()).and_then(|n| n.parse::<u64>().ok());
                        let split = |s: &str| -> Option<(u64, i64)> {
                            let i = s.find(['+', '-'])?;
                            let v = i64::from_str_radix(&s[i + 1..], 16).ok()?;
                            Some((u64::from_str_radix(&s[..i], 16).ok()?, if &s[i..i + 1] == "-" { -v } else { v }))
                        };
                        let expect: Option<String> = match &e {
                            None => Some("nodata".into()),
                            Some((tok, _)) => match tok.as_bytes()[0] {
                                b'r' => u64::from_str_radix(&tok[1..], 16).ok().and_then(|n| abi_reg(&s.regs, n)).map(|v| format!("val {v:x}")),
                                b'c' => u64::from_str_radix(&tok[1..], 16).ok().map(|v| format!("val {v:x}")),
                                b'v' => split(&tok[1..]).and_then(|(n, o)| abi_reg(&s.regs, n).map(|v| format!("val {:x}", v.wrapping_add(o as u64)))),
                                b'b' => split(&tok[1..]).and_then(|(n, o)| abi_reg(&s.regs, n).map(|v| format!("addr {:x}", v.wrapping_add(o as u64)))),
                                b'f' => split(&format!("0{}", &tok[1..])).and_then(|(_, o)| fbreg.and_then(|n| abi_reg(&s.regs, n)).map(|v| format!("addr {:x}", v.wrapping_add(o as u64)))),
                                _ => None,
                            },
                        };
                        if let Some(w) = expect && w != ans && ans != "nonscalar" && ans != "err" {
                            let key = if used_end { "location-list-entry-used-at-its-exclusive-end-address" } else { "value-not-read-from-the-location-dwarf-gives" };
                            fail(emit, key, format!("`{n}` (DIE {:x}) at pc {g:x}: shown `{ans}`, the location description gives `{w}`", d.off));
                        }
                    }
                }
                if let Some(d) = which.and_then(|off| die_by_off.get(&off)) {
                    // the pc of the location-list selection: the frame's pc, for outer frames an address inside the call instruction
                    let kind = match (&d.loc, cur_pc.map(|g| if cur_k > 0 { g.saturating_sub(1) } else { g })) {
                        (Some(LocAttr::Expr(e)), _) => e[..1].to_string(),
                        (Some(LocAttr::List(es)), Some(g)) => es.iter().find(|(a, b, _)| *a <= g && g < *b).map(|(_, _, e)| e[..1].to_string()).unwrap_or("none".into()),
                        _ => "noloc".into(),
                    };
                    let kind = match kind.as_str() { "f" => "fbreg", "r" => "register", "b" => "breg-memory", "v" => "breg-value", "c" => "constant", "u" => "other-expression(echoed)", k => k }.to_string();
                    emit(format!("!count read.frame{}.{kind}", cur_k.min(2)));
                }
                // what the implementation showed travels along as a hint; the model echoes it only where it does not decide
                let hint = ans.replace(' ', "_");
                emit(format!("{} {} {} {hint}\t{ans}", t[0], c1, name));
            }
            [_, "reg2dw" | "dw2reg" | "dwmap", _] => emit(format!("{line}\t{}", table_line(&t))),
            _ => emit(format!("{line}\tbad-op")),
        }
    }
    let _ = live.finish();
}

fn short(l: &str) -> String { if l.len() > 160 { format!("{}…", &l[..160]) } else { l.to_string() } }

pub fn exec(req: &[String], out: &mut Out, tmpdir: &Path) {
    let mut sessions: Vec<Vec<String>> = vec![];
    for l in req {
        if l.starts_with("C19 new ") || sessions.is_empty() { sessions.push(vec![]); }
        sessions.last_mut().unwrap().push(l.clone());
    }
    let mut ctxs: BTreeMap<String, Option<Ctx>> = BTreeMap::new();
    for s in &sessions {
        if let Some(name) = s[0].split(' ').nth(2) && name != "tables" && !ctxs.contains_key(name) {
            let ok = verif_root().join("progs").join(name).exists() && verif_root().join("progs").join(format!("{name}.trace")).exists();
            ctxs.insert(name.to_string(), if ok { load_ctx(name) } else { None });
        }
    }
    let par = par_default().min(4);
    let results = run_sessions(&sessions, tmpdir, "c19", par, session_timeout() * 3, |s, emit| {
        let name = s[0].split(' ').nth(2).unwrap_or("");
        session(s, ctxs.get(name).and_then(|c| c.as_ref()), emit)
    });
    for (i, (s, (lines, how))) in sessions.iter().zip(results).enumerate() {
        let mut pairs: Vec<(String, String)> = vec![];
        for l in lines {
            if let Some(k) = l.strip_prefix("!count ") { out.count(k, 1); continue; }
            if let Some(j) = l.strip_prefix("!oracle ") {
                let v: serde_json::Value = serde_json::from_str(j).unwrap();
                let cmds: Vec<String> = s.iter().filter(|l| !l.contains(" die ") && !l.contains(" loc ") && !l.contains(" fb ")).take(4).map(|l| short(l)).collect();
                out.oracle_fail(v["key"].as_str().unwrap(), v["what"].as_str().unwrap(), json!({"session_head": cmds, "after_pairs": pairs.len(), "detail": v["replay"]}));
                out.count(&format!("oracle.fail.{}", v["key"].as_str().unwrap()), 1);
            } else if let Some((r, a)) = l.split_once('\t') {
                let op = r.split(' ').nth(1).unwrap_or("");
                if matches!(op, "read" | "readarg") { out.count(&format!("answer.{op}.{}", a.split(' ').next().unwrap_or("")), 1); out.oracle_evals += 1; }
                if matches!(op, "locals" | "args" | "frame") { out.oracle_evals += 1; }

                pairs.push((r.to_string(), a.to_string()));
            }
        }
        if how != "ok" {
            out.oracle_fail("debugger-crashed-or-hung", &format!("worker ended with {how} after {} answers", pairs.len()),
                json!({"session_head": s.iter().take(3).map(|l| short(l)).collect::<Vec<_>>()}));
        }
        if i < 4 { out.sample(json!({"session": pairs.iter().filter(|(r, _)| !r.contains(" die ") && !r.contains(" loc ") && !r.contains(" fb ")).take(24).map(|(r, a)| format!("{} => {}", short(r), short(a))).collect::<Vec<_>>()})); }
        for (r, a) in pairs { out.pair(r, a); }
        if how != "ok" { out.pair(format!("{ID} worker-ended"), format!("worker-{how}")); }
    }
}

pub fn run(args: &[String]) {
    let a = parse_args(args);
    let mut out = Out::new(&a.out);
    let req = match &a.replay {
        Some(f) => read_lines(f),
        None => { let mut rng = Rng::new(a.seed); gen_requests(&mut rng, a.n, &mut out) }
    };
    exec(&req, &mut out, &a.out);
    out.finish();
}
