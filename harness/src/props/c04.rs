//! C04: address <-> source lookups against the Lean model (K) and against `llvm-dwarfdump` text (O).
//!
//! A session is one debuggee binary of `progs/`:
//!   `C04 new <prog> <oc>`, the parsed debug information as the implementation stores it
//!   (`unit` / `rows` / `fnr` / `fns` lines, obtained through the hook `Debugger::verif_debug_info_dump`;
//!   on execution every such line is checked against the live dump: `ok` / `stale`), then queries
//!   (`unitof` `pc` `xpc` `fnpc` `line` `lrange` `fnbp`).
//! The parent process decodes the binary with llvm-dwarfdump / objdump (independent of the debugger),
//! then forks one worker per session; only the worker hosts a `Debugger`.
use crate::util::*;
use bugstalker::debugger::address::GlobalAddress;
use bugstalker::debugger::process::Child;
use bugstalker::debugger::verif::{VerifPlace, VerifUnit};
use bugstalker::debugger::{Debugger, DebuggerBuilder, NopHook, rust};
use serde_json::{Value, json};
use std::collections::{BTreeMap, BTreeSet, HashMap};
use std::io::{BufRead, BufReader};
use std::panic::{AssertUnwindSafe, catch_unwind};
use std::path::{Path, PathBuf};
use std::process::Command;

const ROWS_PER_LINE: usize = 256;
/// quick-tier binaries (the thorough tier takes every `c04_*` binary of progs/)
/// (`c04_mu__*`: one source file spread over several compilation units — an rlib's generic/#[inline] code instantiated in the
/// binary crate, the binary crate split into 16 codegen units)
const QUICK_PROGS: &[&str] = &["c04_gen__1.89__o0", "c04_gen__stable__o1", "c04_inl__nightly__o1", "c04_c__gcc", "c04_mu__1.89__o0__d5", "c04_mu__stable__o1"];

// ------------------------------------------------------------------------------------------------
// independent decoder: llvm-dwarfdump / objdump text
// ------------------------------------------------------------------------------------------------
#[derive(Clone, Debug)]
struct ORow { addr: u64, line: u64, col: u64, file: usize, stmt: bool, pe: bool, eb: bool, es: bool }
#[derive(Default)]
struct OTable { off: u64, version: u32, dirs: BTreeMap<usize, String>, files: BTreeMap<usize, (String, usize)>, seqs: Vec<Vec<ORow>>, comp_dir: String, paths: BTreeMap<usize, PathBuf> }
#[derive(Clone, Debug)]
struct OSub { off: u64, name: Option<String>, origin: Option<u64>, ranges: Vec<(u64, u64)> }
struct Oracle {
    tables: Vec<OTable>,
    /// subprogram DIEs with at least one non-empty range
    subs: Vec<OSub>,
    sub_by_off: HashMap<u64, usize>,
    /// DW_AT_name / origin of every subprogram DIE (also declarations and abstract instances)
    die_name: HashMap<u64, (Option<String>, Option<u64>)>,
    insns: Vec<u64>,
    text_lo: u64,
    /// (start, end, table, seq) of every sequence whose start is at or above text_lo
    live_seqs: Vec<(u64, u64, usize, usize)>,
    /// root of the default toolchain (`rustup default` + `rustup which rustc`): where `/rustc/<hash>/` is remapped to
    std_root: Option<PathBuf>,
}
fn default_toolchain_root() -> Option<PathBuf> {
    let d = run_tool("rustup", &["default"])?;
    let name = d.split_whitespace().next()?.to_string();
    let w = run_tool("rustup", &["which", "--toolchain", &name, "rustc"])?;
    Some(PathBuf::from(w.trim()).parent()?.parent()?.to_path_buf())
}

fn tool(names: &[&str]) -> Option<String> {
    for n in names {
        if Command::new(n).arg("--version").output().map(|o| o.status.success()).unwrap_or(false) { return Some(n.to_string()); }
    }
    None
}
fn run_tool(cmd: &str, args: &[&str]) -> Option<String> {
    let o = Command::new(cmd).args(args).output().ok()?;
    if !o.status.success() { return None; }
    let err = String::from_utf8_lossy(&o.stderr);
    if err.contains("error:") { return None; }
    Some(String::from_utf8_lossy(&o.stdout).into_owned())
}
fn hex(s: &str) -> Option<u64> { u64::from_str_radix(s.trim_start_matches("0x"), 16).ok() }
fn quoted(v: &str) -> Option<String> { let a = v.find('"')?; let b = v.rfind('"')?; if b > a { Some(v[a + 1..b].replace("\\\"", "\"").replace("\\\\", "\\")) } else { None } }
fn bracket_idx(l: &str) -> Option<usize> { let a = l.find('[')?; let b = l.find(']')?; l[a + 1..b].trim().parse().ok() }

fn parse_debug_line(txt: &str) -> Vec<OTable> {
    let mut tables: Vec<OTable> = vec![];
    let mut cur_seq: Vec<ORow> = vec![];
    let mut cur_file: Option<usize> = None;
    for l in txt.lines() {
        if let Some(rest) = l.strip_prefix("debug_line[") {
            tables.push(OTable { off: hex(rest.trim_end_matches(']')).unwrap_or(u64::MAX), ..Default::default() });
            cur_seq.clear(); cur_file = None;
            continue;
        }
        let Some(t) = tables.last_mut() else { continue };
        let tl = l.trim_start();
        if let Some(v) = tl.strip_prefix("version:") { t.version = v.trim().parse().unwrap_or(0); }
        else if tl.starts_with("include_directories[") {
            if let (Some(i), Some(s)) = (bracket_idx(tl), quoted(tl)) { t.dirs.insert(i, s); }
        } else if tl.starts_with("file_names[") { cur_file = bracket_idx(tl); }
        else if let Some(v) = tl.strip_prefix("name:") {
            if let (Some(i), Some(s)) = (cur_file, quoted(v)) { t.files.insert(i, (s, 0)); }
        } else if let Some(v) = tl.strip_prefix("dir_index:") {
            if let Some(i) = cur_file { if let Some(f) = t.files.get_mut(&i) { f.1 = v.trim().parse().unwrap_or(0); } }
        } else if l.starts_with("0x") && l.len() > 18 && !l.contains(':') {
            let mut it = l.split_whitespace();
            let (Some(a), Some(li), Some(co), Some(fi)) = (it.next(), it.next(), it.next(), it.next()) else { continue };
            let (Some(addr), Ok(line), Ok(col), Ok(file)) = (hex(a), li.parse(), co.parse(), fi.parse()) else { continue };
            let flags: Vec<&str> = it.skip(2).collect();
            let row = ORow { addr, line, col, file, stmt: flags.contains(&"is_stmt"), pe: flags.contains(&"prologue_end"), eb: flags.contains(&"epilogue_begin"), es: flags.contains(&"end_sequence") };
            let es = row.es;
            cur_seq.push(row);
            if es { t.seqs.push(std::mem::take(&mut cur_seq)); }
        }
    }
    tables
}

struct RawDie { off: u64, tag: String, attrs: Vec<(String, String)>, ranges: Vec<(u64, u64)> }

fn parse_debug_info(txt: &str, mut f: impl FnMut(&RawDie)) {
    let mut cur: Option<RawDie> = None;
    let mut in_ranges = false;
    for l in txt.lines() {
        if l.starts_with("0x") && l.len() > 11 && l.as_bytes()[10] == b':' {
            if let Some(d) = cur.take() { f(&d); }
            in_ranges = false;
            let tag = l[11..].trim().to_string();
            if tag.starts_with("DW_TAG_") { cur = Some(RawDie { off: hex(&l[..10]).unwrap_or(u64::MAX), tag, attrs: vec![], ranges: vec![] }); }
            continue;
        }
        let Some(d) = cur.as_mut() else { continue };
        let tl = l.trim_start();
        if tl.starts_with("DW_AT_") {
            let (n, v) = tl.split_once('\t').unwrap_or((tl, ""));
            in_ranges = n == "DW_AT_ranges";
            d.attrs.push((n.to_string(), v.to_string()));
        } else if in_ranges && tl.starts_with("[0x") {
            let s = tl.trim_start_matches('[');
            if let Some((a, b)) = s.split_once(',') {
                let b = b.trim().trim_end_matches(')');
                if let (Some(a), Some(b)) = (hex(a.trim()), hex(b)) { d.ranges.push((a, b)); }
            }
        } else if tl.is_empty() { in_ranges = false; }
    }
    if let Some(d) = cur.take() { f(&d); }
}

impl Oracle {
    fn load(prog: &Path) -> Option<Oracle> {
        let dd = tool(&["llvm-dwarfdump-14", "llvm-dwarfdump"])?;
        let p = prog.to_str()?;
        let line_txt = run_tool(&dd, &["--debug-line", p])?;
        let info_txt = run_tool(&dd, &["--debug-info", p])?;
        let dis = run_tool("objdump", &["-d", "--no-show-raw-insn", p])?;
        let mut tables = parse_debug_line(&line_txt);
        let mut subs = vec![];
        let mut die_name = HashMap::new();
        let mut cu_dirs: HashMap<u64, String> = HashMap::new();
        parse_debug_info(&info_txt, |d| {
            let get = |n: &str| d.attrs.iter().find(|(k, _)| k == n).map(|(_, v)| v.as_str());
            let paren_hex = |v: &str| v.trim_start_matches('(').split(|c: char| c == ')' || c == ' ').next().and_then(hex);
            if d.tag == "DW_TAG_compile_unit" {
                if let Some(sl) = get("DW_AT_stmt_list").and_then(paren_hex) {
                    cu_dirs.insert(sl, get("DW_AT_comp_dir").and_then(quoted).unwrap_or_default());
                }
            } else if d.tag == "DW_TAG_subprogram" {
                let name = get("DW_AT_name").and_then(quoted);
                let origin = get("DW_AT_abstract_origin").or(get("DW_AT_specification")).and_then(paren_hex);
                die_name.insert(d.off, (name.clone(), origin));
                let mut ranges = d.ranges.clone();
                if let (Some(lo), Some(hi)) = (get("DW_AT_low_pc").and_then(paren_hex), get("DW_AT_high_pc").and_then(paren_hex)) { ranges.push((lo, hi)); }
                ranges.retain(|(a, b)| a < b);
                if !ranges.is_empty() { subs.push(OSub { off: d.off, name, origin, ranges }); }
            }
        });
        for t in tables.iter_mut() {
            t.comp_dir = cu_dirs.get(&t.off).cloned().unwrap_or_default();
            for (idx, (name, dir)) in &t.files {
                let mut p = PathBuf::from(if t.version >= 5 { t.dirs.get(&0).cloned().unwrap_or(t.comp_dir.clone()) } else { t.comp_dir.clone() });
                if *dir != 0 { if let Some(d) = t.dirs.get(dir) { p.push(d); } }
                p.push(name);
                t.paths.insert(*idx, p);
            }
        }
        let mut insns: Vec<u64> = dis.lines().filter_map(|l| { let (a, _) = l.split_once(":\t")?; hex(a.trim()) }).collect();
        insns.sort_unstable(); insns.dedup();
        if tables.iter().all(|t| t.seqs.is_empty()) || subs.is_empty() || insns.is_empty() { return None; }
        let text_lo = insns[0];
        let mut live_seqs = vec![];
        for (ti, t) in tables.iter().enumerate() {
            for (si, s) in t.seqs.iter().enumerate() {
                let (a, b) = (s[0].addr, s[s.len() - 1].addr);
                if a >= text_lo && a < b { live_seqs.push((a, b, ti, si)); }
            }
        }
        live_seqs.sort_unstable();
        let sub_by_off = subs.iter().enumerate().map(|(i, s)| (s.off, i)).collect();
        Some(Oracle { tables, subs, sub_by_off, die_name, insns, text_lo, live_seqs, std_root: default_toolchain_root() })
    }
    /// absolute path of file `idx` of a table, the DWARF way (comp_dir / dir / name)
    fn file_path(&self, ti: usize, idx: usize) -> PathBuf {
        self.tables[ti].paths.get(&idx).cloned().unwrap_or_else(|| PathBuf::from("<no-such-file>"))
    }
    /// does the path shown by the debugger denote the file the line table names? `/rustc/<hash>/..` paths are
    /// remapped by the debugger to the standard-library sources of the DEFAULT toolchain (`std_root`, asked from rustup
    /// here): `<root>/lib/rustlib/src/rust/<what follows the hash>`. Exact equality otherwise — a unit that names the
    /// same source through another toolchain's directory names, for the debugger's file index, ANOTHER file.
    fn paths_agree(&self, shown: &Path, want: &Path) -> bool {
        if want.starts_with("/rustc/") {
            let tail: PathBuf = want.iter().skip(3).collect();
            return match &self.std_root {
                Some(root) => shown == want || shown == root.join("lib/rustlib/src/rust").join(&tail),
                None => shown == want || shown.ends_with(&tail),
            };
        }
        shown == want
    }
    /// is `a` the end address of a live sequence (the address of an end_sequence row: not an instruction of the sequence)?
    fn is_seq_end(&self, a: u64) -> bool { self.live_seqs.iter().any(|s| s.1 == a) }
    /// the sequences containing pc
    fn seqs_of(&self, pc: u64) -> Vec<(usize, usize)> {
        let end = self.live_seqs.partition_point(|s| s.0 <= pc);
        self.live_seqs[..end].iter().filter(|s| pc < s.1).map(|s| (s.2, s.3)).collect()
    }
    /// the row for pc: last row of the containing sequence with address <= pc. Err = ambiguous.
    fn row_of(&self, pc: u64) -> Result<Option<(usize, usize, usize)>, ()> {
        let s = self.seqs_of(pc);
        match s.as_slice() {
            [] => Ok(None),
            [(ti, si)] => {
                let rows = &self.tables[*ti].seqs[*si];
                let n = rows.iter().take_while(|r| r.addr <= pc).count();
                Ok(if n == 0 { None } else { Some((*ti, *si, n - 1)) })
            }
            _ => Err(()),
        }
    }
    /// innermost live subprogram containing pc. Err = ambiguous
    fn sub_of(&self, pc: u64) -> Result<Option<usize>, ()> {
        let mut best: Option<(u64, usize)> = None;
        let mut tie = false;
        for (i, s) in self.subs.iter().enumerate() {
            for &(a, b) in &s.ranges {
                if a <= pc && pc < b {
                    match best {
                        Some((ba, bi)) if ba == a && bi != i => tie = true,
                        Some((ba, _)) if ba > a => {}
                        _ => { best = Some((a, i)); tie = false; }
                    }
                }
            }
        }
        if tie { Err(()) } else { Ok(best.map(|b| b.1)) }
    }
    fn name_of(&self, off: u64) -> Option<String> {
        let mut off = off;
        for _ in 0..4 {
            let (n, o) = self.die_name.get(&off)?;
            if let Some(n) = n { return Some(n.clone()); }
            off = (*o)?;
        }
        None
    }
    /// is_stmt rows (non end_sequence) of `path:line` in live sequences: (addr, col, pe)
    fn stmt_rows(&self, path: &Path, line: u64) -> Vec<(u64, u64, bool)> {
        self.line_rows(path, line).into_iter().filter(|(_, r, live)| *live && !r.es).map(|(_, r, _)| (r.addr, r.col, r.pe)).collect()
    }
    /// ALL is_stmt rows of `path:line`, whatever their sequence: (line table, row, the row's sequence is live code)
    fn line_rows(&self, path: &Path, line: u64) -> Vec<(usize, ORow, bool)> {
        let mut v = vec![];
        for (ti, t) in self.tables.iter().enumerate() {
            let fidx: Vec<usize> = t.paths.iter().filter(|(_, p)| self.paths_agree(path, p)).map(|(i, _)| *i).collect();
            if fidx.is_empty() { continue; }
            for s in &t.seqs {
                let live = s[0].addr >= self.text_lo;
                for r in s { if r.stmt && r.line == line && fidx.contains(&r.file) { v.push((ti, r.clone(), live)); } }
            }
        }
        v
    }
}

// ------------------------------------------------------------------------------------------------
// worker process
// ------------------------------------------------------------------------------------------------
#[derive(Default)]
struct WOut { pairs: Vec<(String, String)>, fails: Vec<(String, String, Value)>, counts: BTreeMap<String, u64>, samples: Vec<Value>, evals: u64, fail_count: BTreeMap<String, u64> }
impl WOut {
    fn count(&mut self, k: &str, by: u64) { *self.counts.entry(k.to_string()).or_default() += by; }
    fn fail(&mut self, key: &str, what: String, replay: Value) {
        let c = self.fail_count.entry(key.to_string()).or_default();
        *c += 1;
        if *c <= 5 { self.fails.push((key.to_string(), what, replay)); } else { self.count(&format!("oracle_failures_not_listed.{key}"), 1); }
    }
    fn to_json(&self) -> Value {
        json!({"pairs": self.pairs, "fails": self.fails.iter().map(|(k, w, r)| json!([k, w, r])).collect::<Vec<_>>(),
               "counts": self.counts, "samples": self.samples, "evals": self.evals})
    }
    fn merge_into(v: &Value, out: &mut Out) {
        for p in v["pairs"].as_array().unwrap() { out.pair(p[0].as_str().unwrap().into(), p[1].as_str().unwrap().into()); }
        for f in v["fails"].as_array().unwrap() { out.oracle_fail(f[0].as_str().unwrap(), f[1].as_str().unwrap(), f[2].clone()); }
        for (k, c) in v["counts"].as_object().unwrap() { out.count(k, c.as_u64().unwrap()); }
        for s in v["samples"].as_array().unwrap() { out.sample(s.clone()); }
        out.oracle_evals += v["evals"].as_u64().unwrap();
    }
}

/// fork a worker, run `job` there, bring its result back through a file. None = the worker died.
fn in_worker(tmp: &Path, job: impl FnOnce() -> Value) -> Option<Value> {
    let _ = std::fs::remove_file(tmp);
    let pid = unsafe { libc::fork() };
    if pid < 0 { return None; }
    if pid == 0 {
        unsafe { libc::alarm(600) };
        std::panic::set_hook(Box::new(|i| { if std::env::var_os("C04_SHOW_PANICS").is_some() { eprintln!("worker: {i}"); } }));
        let r = catch_unwind(AssertUnwindSafe(job));
        if let Ok(v) = r { let _ = std::fs::write(tmp, serde_json::to_vec(&v).unwrap()); }
        unsafe { libc::_exit(0) };
    }
    let mut st = 0;
    unsafe { libc::waitpid(pid, &mut st, 0) };
    let data = std::fs::read(tmp).ok()?;
    let _ = std::fs::remove_file(tmp);
    serde_json::from_slice(&data).ok()
}

fn build_debugger(prog: &Path) -> Result<Debugger, String> {
    let (reader, writer) = os_pipe::pipe().map_err(|e| e.to_string())?;
    std::thread::spawn(move || { let mut s = BufReader::new(reader); loop { let mut l = String::new(); if s.read_line(&mut l).unwrap_or(0) == 0 { return; } } });
    rust::Environment::init(None);
    let runner = Child::new(prog.to_str().unwrap(), Vec::<String>::new(), None::<&Path>, writer.try_clone().map_err(|e| e.to_string())?, writer);
    let installed = runner.install().map_err(|e| e.to_string())?;
    DebuggerBuilder::<NopHook>::new().build(installed).map_err(|e| e.to_string())
}

fn overflow_checks_on() -> bool {
    catch_unwind(|| { let z: usize = std::hint::black_box(0); std::hint::black_box(z - 1) }).is_err()
}

struct Ids { path: HashMap<PathBuf, usize>, paths: Vec<PathBuf>, name: HashMap<String, usize> }
fn ids_of(d: &[VerifUnit]) -> Ids {
    let mut ids = Ids { path: HashMap::new(), paths: vec![], name: HashMap::new() };
    for u in d {
        for f in &u.files { if !ids.path.contains_key(f) { ids.path.insert(f.clone(), ids.paths.len()); ids.paths.push(f.clone()); } }
        for f in &u.functions { if let Some(n) = &f.name { let k = ids.name.len(); ids.name.entry(n.clone()).or_insert(k); } }
    }
    ids
}
fn dump_lines(d: &[VerifUnit], ids: &Ids) -> Vec<String> {
    let mut v = vec![];
    for u in d {
        v.push(format!("C04 unit {} {} {}", u.idx, enc_list(&u.ranges, |r| format!("{}:{}", r.0, r.1)), enc_list(&u.files, |f| ids.path[f].to_string())));
        for c in u.rows.chunks(ROWS_PER_LINE) {
            v.push(format!("C04 rows {} {}", u.idx, enc_list(c, |r| format!("{}:{}:{}:{}:{}", r.address, r.file_index, r.line, r.column,
                r.is_stmt as u8 + 2 * r.prologue_end as u8 + 4 * r.epilogue_begin as u8 + 8 * r.end_sequence as u8))));
        }
        for c in u.fn_ranges.chunks(ROWS_PER_LINE) { v.push(format!("C04 fnr {} {}", u.idx, enc_list(c, |r| format!("{}:{}:{}", r.0, r.1, r.2)))); }
        for c in u.functions.chunks(ROWS_PER_LINE) {
            v.push(format!("C04 fns {} {}", u.idx, enc_list(c, |f| format!("{}:{}:{}", f.die_offset, f.name.as_ref().map(|n| ids.name[n] + 1).unwrap_or(0),
                f.ranges.iter().map(|r| format!("{};{}", r.0, r.1)).collect::<Vec<_>>().join(";")))));
        }
    }
    v
}
fn enc_place(p: &VerifPlace) -> String {
    format!("{}:{}:{}:{}:{}:{}:{}", p.unit_idx, p.pos_in_unit, p.address, p.file_idx, p.line, p.column,
        p.is_stmt as u8 + 2 * p.prologue_end as u8 + 4 * p.epilogue_begin as u8 + 8 * p.end_sequence as u8)
}
fn is_user_unit(u: &VerifUnit) -> bool { u.name.as_deref().map(|n| n.contains("c04_")).unwrap_or(false) }

// ------------------------------------------------------------------------------------------------
// generation (in a worker: it needs the implementation's dump)
// ------------------------------------------------------------------------------------------------
fn gen_session(prog_name: &str, prog: &Path, oracle: &Oracle, rng: &mut Rng, n: u64) -> Value {
    let mut w = WOut::default();
    let mut req: Vec<String> = vec![];
    let dbg = match build_debugger(prog) { Ok(d) => d, Err(e) => { w.count("gen.debugger_build_failed", 1); return json!({"req": [], "err": e, "w": w.to_json()}); } };
    let dump = dbg.verif_debug_info_dump().unwrap_or_default();
    let ids = ids_of(&dump);
    req.push(format!("C04 new {} {}", enc_str(prog_name), overflow_checks_on() as u8));
    req.extend(dump_lines(&dump, &ids));
    let push_pc = |req: &mut Vec<String>, pc: u64| { for op in ["unitof", "pc", "xpc", "fnpc"] { req.push(format!("C04 {op} {pc}")); } };
    // --- every instruction address of the user functions, the borders of their ranges, every row address of the user units
    let mut pcs: BTreeSet<u64> = BTreeSet::new();
    for u in dump.iter().filter(|u| is_user_unit(u)) {
        for f in &u.functions {
            for &(a, b) in &f.ranges {
                if a < oracle.text_lo { continue; }
                let i0 = oracle.insns.partition_point(|&x| x < a);
                for &x in oracle.insns[i0..].iter().take_while(|&&x| x < b) { pcs.insert(x); }
                pcs.extend([a.saturating_sub(1), a, b.saturating_sub(1), b, b + 1]);
            }
        }
        for r in &u.rows { if r.address >= oracle.text_lo { pcs.extend([r.address, r.address + 1]); } }
    }
    w.count("gen.user_pcs", pcs.len() as u64);
    for &pc in &pcs { push_pc(&mut req, pc); }
    // --- sampled addresses of the other units: row addresses (+-1), addresses shared by an end_sequence row and another row
    let others: Vec<&VerifUnit> = dump.iter().filter(|u| !is_user_unit(u) && !u.rows.is_empty()).collect();
    if !others.is_empty() {
        for _ in 0..n {
            let mut a = 0;
            for _ in 0..20 {
                let u = *rng.pick(&others);
                a = u.rows[rng.below(u.rows.len() as u64) as usize].address;
                if a >= oracle.text_lo { break; }
            }
            if a < oracle.text_lo { w.count("gen.sampled_row_in_discarded_code", 1); continue; }
            let pc = match rng.below(4) { 0 => a, 1 => a + 1, 2 => a.saturating_sub(1), _ => a + rng.below(16) };
            push_pc(&mut req, pc);
            w.count("gen.sampled_pcs", 1);
        }
        let mut shared: Vec<u64> = vec![];
        for u in &dump {
            for (i, r) in u.rows.iter().enumerate() {
                if r.end_sequence && r.address >= oracle.text_lo {
                    let tie = (i > 0 && u.rows[i - 1].address == r.address && !u.rows[i - 1].end_sequence) || (i + 1 < u.rows.len() && u.rows[i + 1].address == r.address && !u.rows[i + 1].end_sequence);
                    if tie { shared.push(r.address); }
                }
            }
        }
        w.count("gen.addresses_shared_by_end_sequence_and_other_row", shared.len() as u64);
        for _ in 0..(n / 2).min(shared.len() as u64) { let a = *rng.pick(&shared); push_pc(&mut req, a); w.count("gen.shared_end_sequence_pcs", 1); }
    }
    // --- every line of the user source files
    let mut user_files: BTreeMap<usize, u64> = BTreeMap::new();
    for u in dump.iter().filter(|u| is_user_unit(u)) {
        for r in &u.rows {
            let p = &u.files[r.file_index as usize];
            if p.to_string_lossy().contains("progs-src") { let e = user_files.entry(ids.path[p]).or_default(); *e = (*e).max(r.line); }
        }
    }
    for (&p, &maxl) in &user_files {
        for l in 0..=maxl + 2 { req.push(format!("C04 line {p} {l}")); w.count("gen.user_lines", 1); }
        let in_units = dump.iter().filter(|u| u.rows.iter().any(|r| u.files.get(r.file_index as usize).map(|f| ids.path[f]) == Some(p))).count();
        if in_units >= 2 { w.count("gen.multi_unit_line_queries.user", maxl + 3); }
        req.push(format!("C04 lrange {p} 0 {}", maxl + 1));
        for _ in 0..6 { let a = rng.below(maxl + 2); let b = rng.below(maxl + 2); req.push(format!("C04 lrange {p} {a} {b}")); }
    }
    // --- source files whose rows are spread over SEVERAL units (generic / #[inline] code of a library instantiated in
    // another crate, one crate split into several codegen units, std sources): the `line`/`line + 1` decision of a line
    // breakpoint must be taken over all of them. Per file: which unit has an is_stmt row of which line (live code only).
    let mut per_file: BTreeMap<usize, BTreeMap<usize, BTreeSet<u64>>> = BTreeMap::new();
    for u in &dump {
        for r in &u.rows {
            if !r.is_stmt || r.end_sequence || r.address < oracle.text_lo { continue; }
            let Some(p) = u.files.get(r.file_index as usize) else { continue };
            per_file.entry(ids.path[p]).or_default().entry(u.idx).or_default().insert(r.line);
        }
    }
    // classes of a line L of a multi-unit file (a line can be in several): its rows are in ONE unit / in SEVERAL units;
    // some unit lacks L but has L+1 (the successor's rows live elsewhere); L-1 has no code in any unit (query L-1: global fallback)
    let mut other_succ: Vec<(usize, u64)> = vec![];
    let mut other_rest: Vec<(usize, u64)> = vec![];
    for (&p, units) in per_file.iter().filter(|(_, m)| m.len() >= 2) {
        let user = user_files.contains_key(&p);
        let tag = if user { "user" } else { "other" };
        w.count(&format!("gen.multi_unit_files.{tag}"), 1);
        w.count(&format!("gen.multi_unit_files.{tag}.units_of_the_file.{}", match units.len() { 2 => "2", 3 => "3", 4..=7 => "4-7", _ => "8+" }), 1);
        let all: BTreeSet<u64> = units.values().flatten().copied().collect();
        for &l in &all {
            let k = units.values().filter(|s| s.contains(&l)).count();
            let succ_elsewhere = units.values().any(|s| !s.contains(&l) && s.contains(&(l + 1)));
            let pred_empty = l > 0 && !all.contains(&(l - 1));
            w.count(&format!("gen.multi_unit_lines.{tag}.{}", if k == 1 { "rows_in_one_unit" } else { "rows_in_several_units" }), 1);
            if succ_elsewhere { w.count(&format!("gen.multi_unit_lines.{tag}.a_unit_without_the_line_has_the_next_line"), 1); }
            if pred_empty { w.count(&format!("gen.multi_unit_lines.{tag}.previous_line_without_code"), 1); }
            if user { continue; }   // every line of the user files is queried above
            if succ_elsewhere { other_succ.push((p, l)); } else { other_rest.push((p, l)); }
            if pred_empty { other_rest.push((p, l - 1)); }
        }
    }
    let mut take = |v: &mut Vec<(usize, u64)>, cap: usize, rng: &mut Rng, what: &str, req: &mut Vec<String>, w: &mut WOut| {
        // all of them when they fit, a seeded sample otherwise
        if v.len() > cap { for i in 0..cap { let j = i + rng.below((v.len() - i) as u64) as usize; v.swap(i, j); } v.truncate(cap); w.count(&format!("gen.multi_unit_line_queries.{what}.sampled"), 1); }
        for (p, l) in v.iter() { req.push(format!("C04 line {p} {l}")); w.count(&format!("gen.multi_unit_line_queries.{what}"), 1); }
    };
    take(&mut other_succ, 2 * n as usize, rng, "other.a_unit_without_the_line_has_the_next_line", &mut req, &mut w);
    take(&mut other_rest, n as usize / 2, rng, "other.rest", &mut req, &mut w);
    // --- sampled (file, line) of the other units: a line with code, the line before it
    if !others.is_empty() {
        for _ in 0..n / 4 {
            let u = *rng.pick(&others);
            let r = &u.rows[rng.below(u.rows.len() as u64) as usize];
            let p = ids.path[&u.files[r.file_index as usize]];
            let l = if rng.chance(1, 3) { r.line.saturating_sub(1) } else { r.line };
            req.push(format!("C04 line {p} {l}"));
            if rng.chance(1, 4) { req.push(format!("C04 lrange {p} {l} {}", l + rng.below(3))); }
            w.count("gen.sampled_lines", 1);
        }
    }
    // --- every function of the user units, sampled functions of the others
    for u in dump.iter().filter(|u| is_user_unit(u)) { for f in &u.functions { req.push(format!("C04 fnbp {} {}", u.idx, f.die_offset)); w.count("gen.user_functions", 1); } }
    let with_fns: Vec<&VerifUnit> = others.iter().copied().filter(|u| !u.functions.is_empty()).collect();
    if !with_fns.is_empty() {
        for _ in 0..n / 4 {
            let u = *rng.pick(&with_fns);
            let f = &u.functions[rng.below(u.functions.len() as u64) as usize];
            req.push(format!("C04 fnbp {} {}", u.idx, f.die_offset));
            w.count("gen.sampled_functions", 1);
        }
    }
    let _ = guarded(move || drop(dbg));
    json!({"req": req, "w": w.to_json()})
}

// ------------------------------------------------------------------------------------------------
// execution of request lines on the real code (in a worker), with the oracle checks
// ------------------------------------------------------------------------------------------------
struct Sess<'a> {
    dbg: Debugger,
    prog: String,
    dump: Vec<VerifUnit>,
    ids: Ids,
    dump_set: std::collections::HashSet<String>,
    oracle: Option<&'a Oracle>,
    started: Option<bool>,
    w: WOut,
}

fn guarded<T>(f: impl FnOnce() -> T) -> Result<T, ()> { catch_unwind(AssertUnwindSafe(f)).map_err(|_| ()) }

impl<'a> Sess<'a> {
    fn ensure_started(&mut self) -> bool {
        if let Some(s) = self.started { return s; }
        let ok = guarded(|| { self.dbg.set_breakpoint_at_fn("main").is_ok() && self.dbg.start_debugee().is_ok() }).unwrap_or(false);
        if !ok { self.w.count("exec.debuggee_not_started", 1); }
        self.started = Some(ok);
        ok
    }
    /// O, once per session: what the debugger stores IS what the independent reader decodes
    /// (same multiset of line rows; same functions with the same ranges).
    fn check_dump_against_decoder(&mut self) {
        let Some(o) = self.oracle else { return };
        let mut mine: Vec<(u64, u64, u64, u8)> = self.dump.iter().flat_map(|u| u.rows.iter().map(|r| (r.address, r.line, r.column, r.is_stmt as u8 + 2 * r.prologue_end as u8 + 4 * r.epilogue_begin as u8 + 8 * r.end_sequence as u8))).collect();
        let mut theirs: Vec<(u64, u64, u64, u8)> = o.tables.iter().flat_map(|t| t.seqs.iter().flatten().map(|r| (r.addr, r.line, r.col, r.stmt as u8 + 2 * r.pe as u8 + 4 * r.eb as u8 + 8 * r.es as u8))).collect();
        mine.sort_unstable(); theirs.sort_unstable();
        self.w.evals += 1;
        self.w.count("oracle.stored_rows_compared", mine.len() as u64);
        if mine != theirs {
            let d = mine.iter().zip(theirs.iter()).find(|(a, b)| a != b);
            self.w.fail("stored-rows-differ-from-line-table", format!("{}: {} rows stored, llvm-dwarfdump decodes {}; first difference {:x?}", self.prog, mine.len(), theirs.len(), d), json!({"prog": self.prog}));
        }
        // the order the lookups rely on (Lean: RowsSorted, EndSeqFirstOnTies = what `storeRows` establishes): per unit the
        // stored rows ascend by (address, !end_sequence) — an end_sequence row comes before the other rows of its address
        self.w.evals += 1;
        for u in &self.dump {
            if let Some(w) = u.rows.windows(2).find(|w| (w[0].address, !w[0].end_sequence) > (w[1].address, !w[1].end_sequence)) {
                self.w.fail("stored-rows-not-sorted-by-address-with-end-sequence-first", format!("{}: unit {}: row {:#x} (end_sequence {}) is stored before row {:#x} (end_sequence {})", self.prog, u.idx, w[0].address, w[0].end_sequence, w[1].address, w[1].end_sequence), json!({"prog": self.prog}));
                break;
            }
        }
        let mut fm: BTreeMap<u64, Vec<(u64, u64)>> = BTreeMap::new();
        for u in &self.dump { for f in &u.functions { let mut r: Vec<(u64, u64)> = f.ranges.iter().copied().filter(|r| r.0 < r.1).collect(); r.sort_unstable(); if !r.is_empty() { fm.insert((u.offset.unwrap_or(0) + f.die_offset) as u64, r); } } }
        let mut ft: BTreeMap<u64, Vec<(u64, u64)>> = BTreeMap::new();
        for s in &o.subs { let mut r = s.ranges.clone(); r.sort_unstable(); ft.insert(s.off, r); }
        self.w.evals += 1;
        self.w.count("oracle.stored_functions_compared", fm.len() as u64);
        if fm != ft {
            let d: Vec<_> = fm.iter().filter(|(k, v)| ft.get(k) != Some(v)).take(3).collect();
            let e: Vec<_> = ft.iter().filter(|(k, v)| fm.get(k) != Some(v)).take(3).collect();
            self.w.fail("stored-function-ranges-differ-from-debug-info", format!("{}: {} functions stored, {} decoded; e.g. stored {:x?} / decoded {:x?}", self.prog, fm.len(), ft.len(), d, e), json!({"prog": self.prog}));
        }
    }
    fn replay(&self, line: &str) -> Value { json!({"prog": self.prog, "request": line}) }

    fn op_pc(&mut self, line: &str, pc: u64) -> String {
        let got = match guarded(|| self.dbg.verif_find_place_from_pc(pc)) { Ok(Ok(p)) => p, Ok(Err(_)) => return "err".into(), Err(_) => return "panic".into() };
        let ans = got.as_ref().map(enc_place).unwrap_or("none".into());
        let Some(o) = self.oracle else { return ans };
        // O: only for addresses inside a function (the property speaks about instructions of functions)
        let Ok(Some(si)) = o.sub_of(pc) else { self.w.count("oracle.pc.outside_functions_or_ambiguous", 1); return ans };
        let _ = si;
        match o.row_of(pc) {
            Err(()) => self.w.count("oracle.pc.ambiguous_sequences", 1),
            Ok(None) => self.w.count("oracle.pc.function_address_without_line_row", 1),
            Ok(Some((ti, s, ri))) => {
                self.w.evals += 1;
                let want = &o.tables[ti].seqs[s][ri];
                let want_path = o.file_path(ti, want.file);
                // the public accessor, when the debuggee runs; the raw lookup otherwise
                let mut shown: Option<(PathBuf, u64, u64)> = got.as_ref().map(|p| (p.file.clone(), p.line, p.address));
                if self.ensure_started() {
                    if let Ok(Ok(Some((_, Some(pl))))) = guarded(|| self.dbg.resolve_function_at_pc(GlobalAddress::from(pc))) {
                        shown = Some((pl.file.clone(), pl.line_number, u64::from(pl.address)));
                        self.w.count("oracle.pc.via_resolve_function_at_pc", 1);
                    }
                }
                let ok = matches!(&shown, Some((f, l, a)) if *l == want.line && *a == want.addr && o.paths_agree(f, &want_path));
                if !ok {
                    let es = got.as_ref().map(|p| p.end_sequence).unwrap_or(false);
                    let key = match &shown {
                        None => "pc-to-line-no-answer",
                        Some(_) if es => "pc-to-line-returns-end-sequence-row",
                        Some((_, _, a)) if *a == want.addr => "pc-to-line-picks-other-row-at-same-address",
                        Some((f, l, _)) if *l == want.line && !o.paths_agree(f, &want_path) => "pc-to-line-wrong-file-path",
                        _ => "pc-to-line-wrong-row",
                    };
                    self.w.fail(key, format!("{}: pc {pc:#x}: shown {:?}, line table says {}:{} (row at {:#x})", self.prog, shown, want_path.display(), want.line, want.addr), self.replay(line));
                }
            }
        }
        ans
    }

    fn op_xpc(&mut self, line: &str, pc: u64) -> String {
        let r = guarded(|| self.dbg.verif_find_exact_place_from_pc(pc));
        let ans = match &r { Ok(Ok(p)) => p.as_ref().map(enc_place).unwrap_or("none".into()), Ok(Err(_)) => "err".into(), Err(_) => "panic".into() };
        if let Some(o) = self.oracle {
            if let Ok(Some((ti, s, ri))) = o.row_of(pc) {
                self.w.evals += 1;
                let has_row = o.tables[ti].seqs[s][ri].addr == pc;
                match &r {
                    Err(_) => self.w.fail("exact-place-lookup-panics-at-first-row-of-unit", format!("{}: find_exact_place_from_pc({pc:#x}) panicked (usize underflow of the row index; only with overflow checks)", self.prog), self.replay(line)),
                    Ok(Ok(Some(p))) if has_row && p.address == pc => {}
                    Ok(Ok(None)) if !has_row => {}
                    other => self.w.fail("exact-place-wrong", format!("{}: exact place of {pc:#x}: {:?}, line table has a row there: {has_row}", self.prog, other.as_ref().map(|x| x.as_ref().map(|p| p.as_ref().map(|p| p.address)).map_err(|e| e.to_string()))), self.replay(line)),
                }
            }
        }
        ans
    }

    fn op_fnpc(&mut self, line: &str, pc: u64) -> String {
        let got = match guarded(|| self.dbg.verif_find_function_by_pc(pc)) { Ok(Ok(p)) => p, Ok(Err(_)) => return "err".into(), Err(_) => return "panic".into() };
        let ans = got.map(|(u, d)| format!("{u}:{d}")).unwrap_or("none".into());
        let Some(o) = self.oracle else { return ans };
        match o.sub_of(pc) {
            Err(()) => self.w.count("oracle.fnpc.ambiguous", 1),
            Ok(want) => {
                self.w.evals += 1;
                let got_off = got.and_then(|(u, d)| self.dump.get(u).and_then(|un| un.offset).map(|o| (o + d) as u64));
                let want_off = want.map(|i| o.subs[i].off);
                if got_off != want_off {
                    self.w.fail("pc-to-function-wrong-die", format!("{}: pc {pc:#x}: function DIE {:x?}, .debug_info says {:x?}", self.prog, got_off, want_off), self.replay(line));
                } else if let Some(i) = want {
                    if self.ensure_started() {
                        let shown = match guarded(|| self.dbg.resolve_function_at_pc(GlobalAddress::from(pc))) {
                            Ok(Ok(x)) => x.map(|x| x.0),
                            _ => { self.w.count("oracle.fnpc.resolve_function_at_pc_unavailable", 1); return ans; }
                        };
                        let want_name = o.name_of(o.subs[i].off);
                        let ok = match (&shown, &want_name) {
                            (Some(s), Some(n)) => s == n || s.ends_with(&format!("::{n}")),
                            (Some(s), None) => s == "<unknown>",
                            (None, _) => false,
                        };
                        self.w.count("oracle.fnpc.name_checked", 1);
                        if !ok {
                            let key = if shown.as_deref() == Some("<unknown>") && o.subs[i].name.is_none() && o.subs[i].origin.is_some() { "function-name-unknown-for-abstract-origin-die" } else { "pc-to-function-wrong-name" };
                            self.w.fail(key, format!("{}: pc {pc:#x}: function shown as {:?}, DIE {:#x} is {:?}", self.prog, shown, o.subs[i].off, want_name), self.replay(line));
                        }
                    }
                }
            }
        }
        ans
    }

    fn op_line(&mut self, line: &str, pid: usize, l: u64) -> String {
        let Some(path) = self.ids.paths.get(pid).cloned() else { return "bad-op".into() };
        let tpl = path.to_string_lossy().to_string();
        let got = match guarded(|| self.dbg.verif_find_closest_place(&tpl, l)) { Ok(Ok(p)) => p, Ok(Err(_)) => return "err".into(), Err(_) => return "panic".into() };
        let ans = enc_list(&got, enc_place);
        let Some(o) = self.oracle else { return ans };
        // the public accessor: breakpoint views
        let views: Result<Vec<u64>, ()> = guarded(|| {
            let r = self.dbg.set_breakpoint_at_line(&tpl, l).map(|v| v.iter().filter_map(|b| b.place.as_ref().map(|p| u64::from(p.address))).collect::<Vec<_>>());
            let _ = self.dbg.remove_breakpoint_at_line(&tpl, l);
            r.unwrap_or_default()
        });
        let Ok(mut addrs) = views else { self.w.fail("line-breakpoint-panics", format!("{}: set_breakpoint_at_line({tpl}, {l}) panicked", self.prog), self.replay(line)); return ans };
        self.w.evals += 1;
        let mut raw: Vec<u64> = got.iter().map(|p| p.address).collect();
        raw.sort_unstable(); addrs.sort_unstable();
        if raw != addrs { self.w.fail("line-breakpoint-views-differ-from-find-closest-place", format!("{}: {tpl}:{l}: views {addrs:x?}, find_closest_place {raw:x?}", self.prog), self.replay(line)); }
        let mut truth = o.stmt_rows(&path, l);
        let mut which = l;
        if truth.is_empty() { truth = o.stmt_rows(&path, l + 1); which = l + 1; self.w.count("oracle.line.next_line_fallback", 1); }
        if truth.is_empty() {
            self.w.count("oracle.line.no_code_on_line_and_next", 1);
            let live: Vec<u64> = addrs.iter().copied().filter(|a| *a >= o.text_lo).collect();
            if !live.is_empty() && live.iter().all(|a| o.is_seq_end(*a)) {
                self.w.fail("line-breakpoint-at-end-sequence-address", format!("{}: {tpl}:{l}: breakpoints {live:x?}: the address of an end_sequence row (first byte after the code of a sequence), no statement of the line or the next", self.prog), self.replay(line));
            } else if !live.is_empty() { self.w.fail("line-breakpoint-for-line-without-code", format!("{}: {tpl}:{l}: breakpoints {live:x?} but neither the line nor the next has a statement", self.prog), self.replay(line)); }
            return ans;
        }
        self.w.count("oracle.line.with_code", 1);
        let taddrs: BTreeSet<u64> = truth.iter().map(|t| t.0).collect();
        for a in &addrs {
            if !taddrs.contains(a) {
                let key = if *a < o.text_lo { "line-breakpoint-at-discarded-code-address" } else if o.is_seq_end(*a) { "line-breakpoint-at-end-sequence-address" } else { "line-breakpoint-not-a-statement-of-the-line" };
                self.w.fail(key, format!("{}: {tpl}:{l}: breakpoint at {a:#x}; statements of line {which}: {taddrs:x?}", self.prog), self.replay(line));
            }
        }
        // one breakpoint per function / instantiation containing the line
        let mut by_sub: BTreeMap<usize, Vec<(u64, u64, bool)>> = BTreeMap::new();
        for t in &truth { if let Ok(Some(s)) = o.sub_of(t.0) { by_sub.entry(s).or_default().push(*t); } }
        for (s, rows) in &by_sub {
            let n = addrs.iter().filter(|a| o.subs[*s].ranges.iter().any(|r| r.0 <= **a && **a < r.1) && o.sub_of(**a) == Ok(Some(*s))).count();
            if n == 0 {
                // the recorded finding is the class "the function's rows of the line differ in column / flags from another row of the
                // line in the SAME unit" (the sibling rule drops them); decided here on llvm-dwarfdump's rows only. A function none of
                // whose rows has such a differing sibling in its own line table must get a breakpoint: every unit contributes.
                let all_rows = o.line_rows(&path, which);
                let has_differing_sibling = |a: u64| all_rows.iter().filter(|(_, r, live)| *live && !r.es && r.addr == a).all(|(ti, r, _)|
                    all_rows.iter().any(|(tj, x, _)| tj == ti && (x.col, x.pe, x.eb, x.es) != (r.col, r.pe, r.eb, false)));
                // a third class: the requested line has rows ONLY in sequences of discarded functions (addresses below the first
                // instruction): the implementation takes those and never looks at the next line, whose functions get nothing
                let dead_only = which == l + 1 && o.line_rows(&path, l).iter().any(|(_, _, live)| !*live);
                // a fourth class: the function's row carries prologue_end and the NEXT row of the same file in its line table (by
                // address) is another is_stmt prologue_end row of the line: the look-ahead "prefer a prologue_end sibling" jumps to
                // that one although the row it starts from is a prologue_end row itself, and never comes back
                let pe_followed_by_pe = |a: u64| all_rows.iter().filter(|(_, r, live)| *live && !r.es && r.addr == a).all(|(ti, r, _)| r.pe && {
                    let next = o.tables[*ti].seqs.iter().flatten().filter(|x| x.file == r.file && x.addr > r.addr).min_by_key(|x| x.addr);
                    matches!(next, Some(x) if x.stmt && x.pe && !x.es && x.line == r.line) });
                let key = if dead_only { "line-breakpoint-not-moved-to-next-line-when-line-only-in-discarded-code" }
                    else if rows.iter().all(|r| has_differing_sibling(r.0)) { "line-breakpoint-misses-function-or-instantiation" }
                    else if rows.iter().all(|r| has_differing_sibling(r.0) || pe_followed_by_pe(r.0)) { "line-breakpoint-skips-prologue-end-row-followed-by-another" }
                    else { "line-breakpoint-misses-function-without-differing-row-in-its-unit" };
                self.w.fail(key, format!("{}: {tpl}:{l}: function {:?} (DIE {:#x}) has statements of line {which} at {:x?} but gets no breakpoint (breakpoints: {addrs:x?})",
                    self.prog, o.name_of(o.subs[*s].off), o.subs[*s].off, rows.iter().map(|r| r.0).collect::<Vec<_>>()), self.replay(line));
            } else if n > 1 {
                self.w.fail("line-breakpoint-twice-in-one-function", format!("{}: {tpl}:{l}: {n} breakpoints in function DIE {:#x}", self.prog, o.subs[*s].off), self.replay(line));
            }
        }
        if self.w.samples.len() < 3 { self.w.samples.push(json!({"prog": self.prog, "file": tpl, "line": l, "breakpoints": addrs, "statement_rows_of_line": taddrs, "functions_with_the_line": by_sub.len()})); }
        ans
    }

    fn op_lrange(&mut self, line: &str, pid: usize, a: u64, b: u64) -> String {
        let Some(path) = self.ids.paths.get(pid).cloned() else { return "bad-op".into() };
        let tpl = path.to_string_lossy().to_string();
        let got = match guarded(|| self.dbg.verif_find_places_in_line_range(&tpl, a, b)) { Ok(Ok(p)) => p, Ok(Err(_)) => return "err".into(), Err(_) => return "panic".into() };
        let ans = enc_list(&got, enc_place);
        let Some(o) = self.oracle else { return ans };
        if b.max(a) - a.min(b) > 40 { self.w.count("oracle.lrange.too_wide_not_checked", 1); return ans; }
        let Ok(Ok(pubs)) = guarded(|| self.dbg.breakpoint_places_for_file_range(&tpl, a, b)) else { self.w.fail("file-range-places-error", format!("{}: breakpoint_places_for_file_range({tpl},{a},{b}) failed", self.prog), self.replay(line)); return ans };
        self.w.evals += 1;
        let gotset: BTreeSet<(u64, u64, u64)> = pubs.iter().map(|p| (u64::from(p.address), p.line_number, p.column_number)).filter(|t| t.0 >= o.text_lo).collect();
        let mut want: BTreeSet<(u64, u64, u64)> = BTreeSet::new();
        for l in a.min(b)..=a.max(b) { for t in o.stmt_rows(&path, l) { want.insert((t.0, l, t.1)); } }
        if gotset != want {
            let miss: Vec<_> = want.difference(&gotset).take(4).collect(); let extra: Vec<_> = gotset.difference(&want).take(4).collect();
            let key = if miss.is_empty() && gotset.difference(&want).all(|t| o.is_seq_end(t.0)) { "file-range-places-include-end-sequence-address" } else { "file-range-places-mismatch" };
            self.w.fail(key, format!("{}: {tpl}:{a}-{b}: missing {miss:x?}, unexpected {extra:x?}", self.prog), self.replay(line));
        }
        ans
    }

    fn op_fnbp(&mut self, line: &str, u: usize, die: usize) -> String {
        if !self.dump.get(u).map(|un| un.functions.iter().any(|f| f.die_offset == die)).unwrap_or(false) { return "bad-op".into(); }
        let r = guarded(|| self.dbg.verif_prolog_end_place(u, die));
        let ans = match &r { Ok(Ok(p)) => enc_place(p), Ok(Err(_)) => "err".into(), Err(_) => "panic".into() };
        let Some(o) = self.oracle else { return ans };
        let off = self.dump[u].offset.map(|x| (x + die) as u64);
        let Some(&si) = off.and_then(|x| o.sub_by_off.get(&x)) else { self.w.count("oracle.fnbp.die_not_in_debug_info_text", 1); return ans };
        let sub = o.subs[si].clone();
        let lo = sub.ranges.iter().map(|r| r.0).min().unwrap();
        if lo < o.text_lo { self.w.count("oracle.fnbp.discarded_function", 1); return ans; }
        let Ok(Some((ti, s, ri))) = o.row_of(lo) else { self.w.count("oracle.fnbp.no_row_at_low_pc", 1); return ans };
        self.w.evals += 1;
        let inside = |a: u64| sub.ranges.iter().any(|r| r.0 <= a && a < r.1);
        let rows = &o.tables[ti].seqs[s];
        let first_pe = rows[ri..].iter().find(|r| !r.es && r.pe && r.addr >= lo && inside(r.addr)).map(|r| r.addr);
        let got = match &r { Ok(Ok(p)) => Some(p.address), _ => None };
        let name = o.name_of(sub.off);
        let ok = match (got, first_pe) { (Some(g), Some(w)) => g == w, (Some(g), None) => inside(g) && rows.iter().any(|r| r.addr == g && !r.es), (None, _) => false };
        if first_pe.is_some() { self.w.count("oracle.fnbp.function_with_prologue_end", 1); } else { self.w.count("oracle.fnbp.function_without_prologue_end", 1); }
        if !ok {
            let key = match (got, first_pe) {
                (None, _) => "fn-breakpoint-not-resolved",
                (Some(g), None) if !inside(g) => "fn-breakpoint-without-prologue-end-walks-out-of-function",
                (Some(_), None) => "fn-breakpoint-not-at-an-instruction-row",
                // a function breakpoint must lie inside the function's ranges. The recorded finding `fn-breakpoint-outside-function`
                // is the class "an end_sequence row of another sequence sits at the function's low_pc"; outside that class
                // (decided on llvm-dwarfdump's rows only) the same failure is a different, unrecorded one
                (Some(g), Some(_)) if !inside(g) && o.tables.iter().any(|t| t.seqs.iter().any(|q| q.last().map(|r| r.addr) == Some(lo))) => "fn-breakpoint-outside-function",
                (Some(g), Some(_)) if !inside(g) => "fn-breakpoint-outside-function-no-end-sequence-row-at-low-pc",
                (Some(_), Some(_)) => "fn-breakpoint-not-at-first-prologue-end",
            };
            self.w.fail(key, format!("{}: function {:?} (DIE {:#x}, ranges {:x?}): breakpoint address {:x?}, first prologue_end row inside the function: {:x?}", self.prog, name, sub.off, sub.ranges, got, first_pe), self.replay(line));
        }
        // the public accessor for plain names: every address it returns must be the place of a function of that name
        if let Some(n) = &name {
            if is_user_unit(&self.dump[u]) && n.chars().all(|c| c.is_alphanumeric() || c == '_') {
                if let Ok(Ok(addrs)) = guarded(|| {
                    let r = self.dbg.set_breakpoint_at_fn(n).map(|v| v.iter().filter_map(|b| b.place.as_ref().map(|p| u64::from(p.address))).collect::<Vec<_>>());
                    let _ = self.dbg.remove_breakpoint_at_fn(n);
                    r
                }) {
                    self.w.count("oracle.fnbp.via_set_breakpoint_at_fn", 1);
                    if let Some(g) = got { if !addrs.contains(&g) { self.w.fail("fn-breakpoint-view-differs-from-prolog-end-place", format!("{}: break {n}: views {addrs:x?} do not contain {g:#x}", self.prog), self.replay(line)); } }
                }
            }
        }
        ans
    }

    fn exec_line(&mut self, line: &str) -> String {
        let t: Vec<&str> = line.split(' ').collect();
        let num = |s: &str| s.parse::<u64>().ok();
        match t.as_slice() {
            ["C04", "unit" | "rows" | "fnr" | "fns", ..] => if self.dump_set.contains(line) { "ok".into() } else { "stale".into() },
            ["C04", "unitof", pc] => match num(pc) { Some(pc) => match guarded(|| self.dbg.verif_find_unit_by_pc(pc)) { Ok(Ok(Some(u))) => u.to_string(), Ok(Ok(None)) => "none".into(), Ok(Err(_)) => "err".into(), Err(_) => "panic".into() }, None => "bad-op".into() },
            ["C04", "pc", pc] => match num(pc) { Some(pc) => { self.w.count("exec.pc", 1); self.op_pc(line, pc) } None => "bad-op".into() },
            ["C04", "xpc", pc] => match num(pc) { Some(pc) => { self.w.count("exec.xpc", 1); self.op_xpc(line, pc) } None => "bad-op".into() },
            ["C04", "fnpc", pc] => match num(pc) { Some(pc) => { self.w.count("exec.fnpc", 1); self.op_fnpc(line, pc) } None => "bad-op".into() },
            ["C04", "line", p, l] => match (num(p), num(l)) { (Some(p), Some(l)) => { self.w.count("exec.line", 1); self.op_line(line, p as usize, l) } _ => "bad-op".into() },
            ["C04", "lrange", p, a, b] => match (num(p), num(a), num(b)) { (Some(p), Some(a), Some(b)) => { self.w.count("exec.lrange", 1); self.op_lrange(line, p as usize, a, b) } _ => "bad-op".into() },
            ["C04", "fnbp", u, d] => match (num(u), num(d)) { (Some(u), Some(d)) => { self.w.count("exec.fnbp", 1); self.op_fnbp(line, u as usize, d as usize) } _ => "bad-op".into() },
            _ => "bad-op".into(),
        }
    }
}

fn exec_session(prog_name: &str, prog: &Path, oracle: Option<&Oracle>, lines: &[String]) -> Value {
    let mut w = WOut::default();
    let dbg = match build_debugger(prog) { Ok(d) => d, Err(e) => { for l in lines { w.pairs.push((l.clone(), format!("no-debugger"))); } w.count("exec.debugger_build_failed", 1); let _ = e; return w.to_json(); } };
    let dump = dbg.verif_debug_info_dump().unwrap_or_default();
    let ids = ids_of(&dump);
    let dump_set = dump_lines(&dump, &ids).into_iter().collect();
    let mut s = Sess { dbg, prog: prog_name.to_string(), dump, ids, dump_set, oracle, started: None, w };
    s.check_dump_against_decoder();
    let oc = overflow_checks_on() as u8;
    // a session written by hand (corpus) carries no dump lines: the live dump is inserted after its `new` line, so that the
    // model gets the tables (generated sessions carry the dump of generation time, checked line by line: `ok` / `stale`)
    let bare = !lines.iter().any(|l| l.starts_with("C04 unit "));
    for l in lines {
        let t: Vec<&str> = l.split(' ').collect();
        let ans = match t.as_slice() {
            ["C04", "new", _, o] => if *o == oc.to_string() { "ok".to_string() } else { "stale".to_string() },
            _ => s.exec_line(l),
        };
        s.w.pairs.push((l.clone(), ans));
        if bare && l.starts_with("C04 new ") {
            for d in dump_lines(&s.dump, &s.ids) { s.w.pairs.push((d, "ok".into())); }
            s.w.count("exec.dump_inserted_into_bare_session", 1);
        }
    }
    let Sess { dbg, w, .. } = s;
    let _ = guarded(move || drop(dbg));   // the destructor may trip a debug assertion when the debuggee is already gone
    w.to_json()
}

// ------------------------------------------------------------------------------------------------
fn root() -> PathBuf { std::env::current_dir().unwrap() }
fn prog_path(name: &str) -> PathBuf { root().join("progs").join(name) }
fn ensure_progs() {
    let script = root().join("tools/build_progs.sh");
    if script.exists() { let _ = Command::new(script).status(); }
}
fn prog_list(thorough: bool) -> Vec<String> {
    if !thorough { return QUICK_PROGS.iter().map(|s| s.to_string()).collect(); }
    let mut v: Vec<String> = std::fs::read_dir(root().join("progs")).map(|d| d.filter_map(|e| e.ok()?.file_name().into_string().ok()).filter(|n| n.starts_with("c04_") && root().join("progs").join(n).is_file()).collect()).unwrap_or_default();
    v.sort();
    v
}

pub fn gen_requests(rng: &mut Rng, n: u64, out: &mut Out, thorough: bool) -> Vec<String> {
    ensure_progs();
    let mut req = vec![];
    for name in prog_list(thorough) {
        let p = prog_path(&name);
        if !p.exists() { out.count("gen.program_not_built", 1); continue; }
        let Some(oracle) = Oracle::load(&p) else { out.count("skipped.binary_not_decodable_by_llvm_dwarfdump", 1); continue };
        let mut r = rng.fork();
        let tmp = root().join("work").join(format!("c04-gen-{}-{name}.json", std::process::id()));
        std::fs::create_dir_all(tmp.parent().unwrap()).ok();
        match in_worker(&tmp, || gen_session(&name, &p, &oracle, &mut r, n)) {
            Some(v) => {
                for l in v["req"].as_array().unwrap() { req.push(l.as_str().unwrap().to_string()); }
                for (k, c) in v["w"]["counts"].as_object().unwrap() { out.count(k, c.as_u64().unwrap()); }
            }
            None => out.count("gen.worker_died", 1),
        }
    }
    req
}

pub fn exec(req: &[String], out: &mut Out) {
    // split into sessions at `C04 new`
    let mut sessions: Vec<Vec<String>> = vec![];
    for l in req {
        if l.starts_with("C04 new ") || sessions.is_empty() { sessions.push(vec![]); }
        sessions.last_mut().unwrap().push(l.clone());
    }
    for (i, lines) in sessions.iter().enumerate() {
        let t: Vec<&str> = lines[0].split(' ').collect();
        let name = match t.as_slice() { ["C04", "new", p, _] if p.starts_with('x') => dec_str(p), _ => { for l in lines { out.pair(l.clone(), "bad-op".into()); } continue } };
        let p = prog_path(&name);
        if !p.exists() { ensure_progs(); }
        if !p.exists() { for l in lines { out.pair(l.clone(), "no-such-program".into()); } continue; }
        let oracle = Oracle::load(&p);
        if oracle.is_none() { out.count("skipped.binary_not_decodable_by_llvm_dwarfdump", 1); } else { out.count("oracle.binaries_decoded", 1); }
        let tmp = root().join("work").join(format!("c04-exec-{}-{i}.json", std::process::id()));
        std::fs::create_dir_all(tmp.parent().unwrap()).ok();
        match in_worker(&tmp, || exec_session(&name, &p, oracle.as_ref(), lines)) {
            Some(v) => WOut::merge_into(&v, out),
            None => { for l in lines { out.pair(l.clone(), "worker-died".into()); } out.count("exec.worker_died", 1); }
        }
        out.count("sessions", 1);
    }
}

pub fn run(args: &[String]) {
    let a = parse_args(args);
    let mut out = Out::new(&a.out);
    let req = match &a.replay {
        Some(f) => read_lines(f),
        None => { let mut rng = Rng::new(a.seed); gen_requests(&mut rng, a.n, &mut out, a.rest.iter().any(|x| x == "--all-progs")) }
    };
    exec(&req, &mut out);
    out.finish();
}
