//! C09: all-stop and exactly-once reporting for every thread interleaving.
//!
//! K = TRACE VALIDATION.  A session runs the multi-thread debuggee `c09_threads` under the real debugger with user
//! breakpoints on `ready`, `site_a` (and `site_b`), `continue`-only.  The in-process interposer records every
//! `waitpid`/`ptrace` call of the library with its answer.  The projection of that stream on
//! {waitpid, CONT, INTERRUPT, SINGLESTEP, SETREGS, GETSIGINFO, GETEVENTMSG, POKE into text} is written as request
//! lines (`C09 e ...`, tids renamed by order of first appearance); the Lean model of the tracer
//! (Model/Tracer.lean) is an ACCEPTOR of such streams: it answers `ok` while the observed call is one the code —
//! as modelled — issues at this point given all earlier kernel answers (hash-map iteration orders are free), and at
//! every return to the prompt it prints the stop reason and the thread table (`C09 ret`), which are compared with
//! what the real debugger returned / `thread_state()` shows.
//!
//! Input lines (generator / corpus):  `C09 new <n> <iters> <seed> <pin> <delay_us> <mode>` and `C09 run <max>`;
//! `exec` expands `run` into the recorded lines, so request files replay on any tree (the recorded interleaving is
//! re-observed, not replayed).
//!
//! O (independent of the model), at every reported stop: every task of /proc/<pid>/task is in tracing stop
//! (dying tasks excepted) and the task list equals `thread_state()`; at exit: per-thread arrival counters printed by
//! the debuggee = number of stops reported for that thread and site; program output = native output.
use crate::live::*;
use crate::util::*;
use bugstalker::debugger::process::Child;
use bugstalker::debugger::{Debugger, DebuggerBuilder, NopHook, StopReason, rust};
use serde_json::json;
use object::{Object, ObjectSection, ObjectSymbol};
use std::collections::{BTreeMap, BTreeSet};
use std::io::Read;
use std::path::Path;
use std::sync::{Arc, Mutex};

const PROG: &str = "c09_threads-1.89";

pub fn gen_requests(rng: &mut Rng, n: u64, out: &mut Out) -> Vec<String> {
    let mut req = vec![];
    for i in 0..n {
        // thread counts: mostly 2..8, the thorough tier (n large) also draws up to 24
        let big = n > 40 && rng.chance(1, 6);
        let nt = if big { rng.range(9, 24) } else { *rng.pick(&[2u64, 2, 3, 4, 4, 6, 8]) };
        let iters = if nt > 8 { 1 } else if nt > 4 { rng.range(1, 2) } else if nt > 2 { rng.range(1, 3) } else { rng.range(2, 5) };
        let seed = rng.below(1000);
        let pin = if rng.chance(1, 4) { rng.below(4) as i64 } else { -1 };
        let delay = *rng.pick(&[0u64, 0, 200, 2000, 20000]);
        // mode `as`: breakpoint on site_a, and after every reported stop one `next` (step over a line) before the
        // `continue` — outside the continue-only histories the model covers: oracle only (no call stream is compared)
        let mode = if i % 7 == 5 { "as" } else if i % 3 == 2 { "a" } else { "ab" };
        req.push(format!("C09 new {nt} {iters} {seed} {pin} {delay} {mode}"));
        req.push("C09 run 400".to_string());
        out.count(&format!("threads.{}", if nt <= 2 { "2" } else if nt <= 4 { "3-4" } else if nt <= 8 { "5-8" } else { "9-24" }), 1);
        out.count(&format!("delay_us.{delay}"), 1);
        out.count(if pin >= 0 { "pinned.yes" } else { "pinned.no" }, 1);
        out.count(&format!("breakpoints.{mode}"), 1);
    }
    req
}

struct Sess { dbg: Debugger, output: Arc<Mutex<Vec<u8>>>, reader: Option<std::thread::JoinHandle<()>> }

fn launch(path: &Path, args: &[String]) -> anyhow::Result<Sess> {
    let (mut reader, writer) = os_pipe::pipe()?;
    let output = Arc::new(Mutex::new(Vec::new()));
    let o2 = output.clone();
    let handle = std::thread::spawn(move || {
        let mut buf = [0u8; 4096];
        loop { match reader.read(&mut buf) { Ok(0) | Err(_) => return, Ok(n) => o2.lock().unwrap().extend_from_slice(&buf[..n]) } }
    });
    rust::Environment::init(None);
    let runner = Child::new(path.to_str().unwrap(), args.to_vec(), None::<&Path>, writer.try_clone()?, writer);
    let process = runner.install()?;
    let dbg = DebuggerBuilder::<NopHook>::new().build(process)?;
    Ok(Sess { dbg, output, reader: Some(handle) })
}

/// tid renaming by order of first appearance
struct Names { m: BTreeMap<i32, usize> }
impl Names {
    fn get(&mut self, t: i32) -> usize { let n = self.m.len(); *self.m.entry(t).or_insert(n) }
}


/// projection of the recorded call stream on the model's alphabet; one token list per event
fn digest(evs: &[ipose::Ev], names: &mut Names, base: u64, text: &dyn Fn(u64) -> bool) -> Vec<String> {
    let mut out = vec![];
    let mut last_rip: BTreeMap<i32, u64> = BTreeMap::new();
    for (i, e) in evs.iter().enumerate() {
        match *e {
            ipose::Ev::Wait { arg, ret, status } => {
                let a = if arg == -1 { "any".to_string() } else { format!("{}", names.get(arg)) };
                if ret < 0 { out.push(format!("w {a} echild")); continue; }
                let t = names.get(ret);
                let s = if libc::WIFEXITED(status) { format!("exited {t} {}", libc::WEXITSTATUS(status)) }
                    else if libc::WIFSIGNALED(status) { format!("signaled {t} {}", libc::WTERMSIG(status)) }
                    else if libc::WIFSTOPPED(status) {
                        let sig = libc::WSTOPSIG(status);
                        match status >> 16 {
                            0 => format!("sig {t} {sig}"),
                            libc::PTRACE_EVENT_CLONE => format!("clone {t}"),
                            libc::PTRACE_EVENT_EXEC => format!("exec {t}"),
                            libc::PTRACE_EVENT_EXIT => format!("evexit {t}"),
                            libc::PTRACE_EVENT_STOP => format!("evstop {t} {sig}"),
                            other => format!("event {t} {other}"),
                        }
                    } else { format!("unknown {t}") };
                out.push(format!("w {a} {s}"));
            }
            ipose::Ev::Ptrace { req, pid, addr, data, ret, errno, rip } => {
                let ans = if ret >= 0 || (req == libc::PTRACE_PEEKDATA && errno == 0) { "ok" } else if errno == libc::ESRCH { "esrch" } else { "err" };
                match req {
                    libc::PTRACE_GETREGS => { if ret == 0 { last_rip.insert(pid, rip); } }
                    libc::PTRACE_SETREGS => {
                        let t = names.get(pid);
                        let old = last_rip.get(&pid).copied().unwrap_or(0);
                        out.push(format!("sp {t} {:x} {:x} {ans}", rip.wrapping_sub(base), old.wrapping_sub(base)));
                    }
                    libc::PTRACE_CONT => { let t = names.get(pid); out.push(format!("c {t} {data} {ans}")); }
                    libc::PTRACE_SINGLESTEP => { let t = names.get(pid); out.push(format!("s {t} {data} {ans}")); }
                    libc::PTRACE_INTERRUPT => { let t = names.get(pid); out.push(format!("i {t} {ans}")); }
                    libc::PTRACE_GETEVENTMSG => { let t = names.get(pid); let c = names.get(rip as i32); out.push(format!("em {t} {c} {ans}")); }
                    libc::PTRACE_GETSIGINFO => {
                        let t = names.get(pid);
                        // the pc read right after (before any other projected call), 0 when there is none
                        let mut pcn = 0u64;
                        for f in &evs[i + 1..] {
                            match *f {
                                ipose::Ev::Ptrace { req: libc::PTRACE_GETREGS, pid: p2, rip: r2, ret: 0, .. } if p2 == pid => { pcn = r2.wrapping_sub(base); break; }
                                ipose::Ev::Ptrace { req: r, .. } if r == libc::PTRACE_GETREGS || r == libc::PTRACE_PEEKUSER || r == libc::PTRACE_PEEKDATA => {}
                                _ => break,
                            }
                        }
                        out.push(format!("si {t} {} {:x} {ans}", rip, pcn));
                    }
                    libc::PTRACE_POKEDATA | libc::PTRACE_POKETEXT if ret == 0 && addr >= base && text(addr - base) => {
                        out.push(format!("p {:x} {:x}", addr - base, data & 0xff));
                    }
                    _ => {}
                }
            }
        }
    }
    out
}

/// (tid, state char) of every task of the process, from /proc (independent of ptrace)
fn proc_tasks(pid: i32) -> Vec<(i32, char)> {
    let mut v = vec![];
    if let Ok(rd) = std::fs::read_dir(format!("/proc/{pid}/task")) {
        for e in rd.flatten() {
            let Ok(t) = e.file_name().to_string_lossy().parse::<i32>() else { continue };
            if let Ok(s) = std::fs::read_to_string(format!("/proc/{pid}/task/{t}/stat")) {
                // "<pid> (<comm>) <state> ..." — comm may contain spaces/parens: take what follows the LAST ')'
                if let Some(p) = s.rfind(')') && let Some(c) = s[p + 1..].trim_start().chars().next() { v.push((t, c)); }
            }
        }
    }
    v.sort();
    v
}

fn strip_tids(out: &[u8]) -> String {
    String::from_utf8_lossy(out).lines().map(|l| l.split(' ').filter(|w| !w.starts_with("tid=")).collect::<Vec<_>>().join(" ")).collect::<Vec<_>>().join("\n")
}

/// (table text `tid:number:status,…` sorted by renamed tid, listed tids, tids marked running) from ONE `thread_state()` call
fn table_of(dbg: &Debugger, names: &mut Names) -> Result<(String, BTreeSet<i32>, Vec<i32>), String> {
    let ts = dbg.thread_state().map_err(|e| format!("{e}"))?;
    let mut rows: Vec<(usize, u32, String)> = ts.iter().map(|s| {
        let st = format!("{:?}", s.thread.status);
        let st = if st == "Running" { "run".to_string() } else if st.contains("Interrupt") { "stop".to_string() }
                 else { let n = st.trim_start_matches("Stopped(SignalStop(").trim_end_matches("))");
                        format!("sigstop:{}", <nix::sys::signal::Signal as std::str::FromStr>::from_str(n).map(|s| s as i32).unwrap_or(0)) };
        (names.get(s.thread.pid.as_raw()), s.thread.number, st)
    }).collect();
    rows.sort();
    let listed = ts.iter().map(|t| t.thread.pid.as_raw()).collect();
    let running = ts.iter().filter(|t| !t.thread.is_stopped()).map(|t| t.thread.pid.as_raw()).collect();
    Ok((enc_list(&rows, |r| format!("{}:{}:{}", r.0, r.1, r.2)), listed, running))
}

struct Params { n: u64, iters: u64, seed: u64, pin: i64, delay: u64, mode: String }
fn params(line: &str) -> Option<Params> {
    let t: Vec<&str> = line.split(' ').collect();
    if t.len() != 8 || t[0] != "C09" || t[1] != "new" { return None; }
    Some(Params { n: t[2].parse().ok()?, iters: t[3].parse().ok()?, seed: t[4].parse().ok()?, pin: t[5].parse().ok()?, delay: t[6].parse().ok()?, mode: t[7].to_string() })
}
fn prog_args(p: &Params) -> Vec<String> { vec![p.n.to_string(), p.iters.to_string(), p.seed.to_string(), p.pin.to_string()] }

/// ELF facts read independently of the debugger: executable sections and the three breakpoint-able functions
struct Elf { text: Vec<(u64, u64, u64)>, fns: Vec<(u64, u64, &'static str)>, file: Vec<u8> }
fn elf_facts(path: &Path) -> Elf {
    let file = std::fs::read(path).unwrap();
    let obj = object::File::parse(&*file).unwrap();
    let mut text = vec![];
    for s in obj.sections() { if s.kind() == object::SectionKind::Text && let Some((off, size)) = s.file_range() { text.push((s.address(), size, off)); } }
    let mut fns = vec![];
    for s in obj.symbols() {
        if s.kind() == object::SymbolKind::Text && s.size() > 0 && let Ok(n) = s.name() && n.contains("c09_threads") {
            for f in ["ready", "site_a", "site_b"] { if n.contains(&format!("{}{f}", f.len())) { fns.push((s.address(), s.size(), f)); } }
        }
    }
    drop(obj);
    Elf { text, fns, file }
}
impl Elf {
    fn in_text(&self, a: u64) -> bool { self.text.iter().any(|(s, n, _)| a >= *s && a < s + n) }
    /// original byte at a global text address, straight from the ELF file
    fn orig_byte(&self, a: u64) -> u8 { self.text.iter().find(|(s, n, _)| a >= *s && a < s + n).map(|(s, _, off)| self.file[(off + (a - s)) as usize]).unwrap_or(0) }
    fn fn_of(&self, a: u64) -> Option<&'static str> { self.fns.iter().find(|(s, n, _)| a >= *s && a < s + n).map(|x| x.2) }
}

fn stop_text(r: &Result<StopReason, bugstalker::debugger::Error>, names: &mut Names, base: u64) -> String {
    match r {
        Ok(StopReason::Breakpoint(p, pc)) => format!("bp {} {:x}", names.get(p.as_raw()), u64::from(*pc).wrapping_sub(base)),
        Ok(StopReason::DebugeeExit(c)) => format!("exit {c}"),
        Ok(StopReason::SignalStop(p, s)) => format!("sig {} {}", names.get(p.as_raw()), *s as i32),
        Ok(StopReason::NoSuchProcess(_)) => "nosuchprocess".into(),
        Ok(StopReason::DebugeeStart) => "start".into(),
        Ok(StopReason::Watchpoint(..)) => "watchpoint".into(),
        Err(_) => "err".into(),
    }
}

/// one session in a worker: emits `@pair <request>\t<answer>` lines and `!oracle <json>` lines
fn session(lines: &[String], native: &str, emit: &mut dyn FnMut(String)) {
    let pair = |emit: &mut dyn FnMut(String), r: String, a: String| emit(format!("@pair {r}\t{a}"));
    let Some(pr) = params(&lines[0]) else { pair(emit, lines[0].clone(), "bad-op".into()); return; };
    let max_stops: u64 = lines.iter().find_map(|l| l.strip_prefix("C09 run ")).and_then(|m| m.parse().ok()).unwrap_or(0);
    let path = verif_root().join("progs").join(PROG);
    let elf = elf_facts(&path);
    let oracle = |emit: &mut dyn FnMut(String), key: &str, what: String| {
        emit(format!("!oracle {}", json!({"key": key, "what": what, "replay": {"session": lines[0]}})));
    };
    let mut s = match launch(&path, &prog_args(&pr)) { Ok(s) => s, Err(e) => { pair(emit, lines[0].clone(), format!("launch-failed {e}").replace(' ', "_")); return; } };
    let fns: Vec<&str> = if pr.mode == "a" || pr.mode == "as" { vec!["ready", "site_a"] } else { vec!["ready", "site_a", "site_b"] };
    let stepping = pr.mode == "as";
    for f in &fns {
        if let Err(e) = s.dbg.set_breakpoint_at_fn(f) { pair(emit, lines[0].clone(), format!("break-failed {e}").replace(' ', "_")); return; }
    }
    pair(emit, lines[0].clone(), "ok".into());
    if max_stops == 0 { return; }
    ipose::enable();
    let r = s.dbg.start_debugee_with_reason();
    let pid = s.dbg.process().pid().as_raw();
    let exe = std::fs::canonicalize(&path).unwrap();
    let base = proc_maps(pid).iter().find(|m| Path::new(&m.3) == exe).map(|m| m.0).unwrap_or(0);
    let mut names = Names { m: BTreeMap::new() };
    names.get(pid);
    // the user breakpoints, read off the ptrace boundary: INT3 pokes inside the three functions (ELF symbols)
    let mut bps: BTreeSet<u64> = BTreeSet::new();
    for e in ipose::take() {
        if let ipose::Ev::Ptrace { req, addr, data, ret: 0, .. } = e
            && (req == libc::PTRACE_POKEDATA || req == libc::PTRACE_POKETEXT) && data & 0xff == 0xCC && addr >= base
            && elf.fn_of(addr - base).is_some() { bps.insert(addr - base); }
    }
    let first = stop_text(&r, &mut names, base);
    let tbl = match table_of(&s.dbg, &mut names) { Ok(t) => t.0, Err(e) => { pair(emit, "C09 init - 0 0 - 0".into(), format!("thread-state-failed {e}").replace(' ', "_")); return; } };
    let next_num = tbl.split(',').filter_map(|r| r.split(':').nth(1).and_then(|n| n.parse::<u64>().ok())).max().map(|m| m + 1).unwrap_or(0);
    let pc0 = first.split(' ').nth(2).unwrap_or("0").to_string();
    // `init`: the state after `start` returned (stop at `ready` in the only thread) — the model starts here
    pair(emit, format!("C09 init {} 0 {pc0} {tbl} {next_num}", enc_list(&bps.iter().collect::<Vec<_>>(), |a| format!("{:x}:{:x}", **a, elf.orig_byte(**a)))),
         if first.starts_with("bp 0 ") && bps.len() == fns.len() { "ok".into() } else { format!("unexpected-first-stop {first}").replace(' ', "_") });
    if !first.starts_with("bp 0 ") { return; }
    if pr.delay > 0 { ipose::set_delay(pr.seed * 7919 + pr.n, pr.delay); }
    let mut reported: BTreeMap<(i32, &'static str), u64> = BTreeMap::new();
    reported.insert((pid, "ready"), 1);
    let mut exited = None;
    let mut stops = 0u64;
    for _ in 0..max_stops {
        if !stepping { pair(emit, "C09 cmd continue".into(), "ok".into()); }
        let r = s.dbg.continue_debugee_with_reason();
        let evs = ipose::take();
        if !stepping { for d in digest(&evs, &mut names, base, &|a| elf.in_text(a)) { pair(emit, format!("C09 e {d}"), "ok".into()); } }
        let ans = stop_text(&r, &mut names, base);
        match &r {
            Ok(StopReason::DebugeeExit(c)) => { if !stepping { pair(emit, "C09 ret".into(), format!("{ans} -")); } exited = Some(*c); break; }
            Err(_) => { if !stepping { pair(emit, "C09 ret".into(), format!("{ans} -")); } break; }
            _ => {}
        }
        stops += 1;
        let (tbl, listed, marked_running) = table_of(&s.dbg, &mut names).unwrap_or_else(|e| (format!("thread-state-failed:{e}").replace(' ', "_"), BTreeSet::new(), vec![]));
        if !stepping { pair(emit, "C09 ret".into(), format!("{ans} {tbl}")); } else { emit(format!("@stop {ans}")); }
        if let Ok(StopReason::Breakpoint(p, pc)) = &r && let Some(f) = elf.fn_of(u64::from(*pc).wrapping_sub(base)) {
            *reported.entry((p.as_raw(), f)).or_insert(0) += 1;
        }
        // ---- oracle: every task of the process is in tracing stop; the thread list is the kernel's
        let t0 = std::time::Instant::now();
        let mut tasks = proc_tasks(pid);
        // a task that was let go from its exit stop needs a moment to die: wait (bounded) for transient states only
        while tasks.iter().any(|(_, c)| !matches!(c, 't' | 'Z' | 'X')) && t0.elapsed().as_millis() < 3000 {
            std::thread::sleep(std::time::Duration::from_millis(2));
            tasks = proc_tasks(pid);
        }
        let not_stopped: Vec<_> = tasks.iter().filter(|(_, c)| !matches!(c, 't' | 'Z' | 'X')).collect();
        if !not_stopped.is_empty() {
            oracle(emit, "thread-not-stopped-at-reported-stop", format!("stop #{stops} `{ans}`: tasks {not_stopped:?} of {tasks:?} are not in tracing stop 3 s after the stop was reported"));
        }
        let live: BTreeSet<i32> = tasks.iter().filter(|(_, c)| *c == 't').map(|(t, _)| *t).collect();
        if !marked_running.is_empty() {
            oracle(emit, "thread-marked-running-at-reported-stop", format!("stop #{stops} `{ans}`: thread list marks {marked_running:?} as running"));
        }
        if let Some(t) = live.difference(&listed).next() {
            oracle(emit, "live-thread-missing-from-thread-list", format!("stop #{stops} `{ans}`: task {t} is alive (tracing stop) but not in the thread list {listed:?}; kernel: {tasks:?}"));
        }
        if let Some(t) = listed.difference(&live).next() {
            oracle(emit, "thread-list-contains-dead-thread", format!("stop #{stops} `{ans}`: thread list has {t}, the kernel's live tasks are {tasks:?}"));
        }
        ipose::take();
        if stepping && stops % 2 == 1 {
            // all threads run during a `next`; a user-breakpoint hit of another thread in that window must still be reported
            let so = s.dbg.step_over();
            ipose::take();
            if let Err(bugstalker::debugger::Error::ProcessExit(c)) = so { exited = Some(c); break; }
        }
    }
    ipose::set_delay(0, 0);
    let Sess { dbg, output, reader } = s;
    if exited.is_none() {
        oracle(emit, "session-did-not-reach-exit", format!("after {stops} stops"));
        drop(dbg);
        return;
    }
    drop(dbg);
    if let Some(h) = reader { let _ = h.join(); }
    let got = output.lock().unwrap().clone();
    // ---- oracle: exactly once — the debuggee's own arrival counters against the stops reported per thread and site
    let text = String::from_utf8_lossy(&got).to_string();
    for l in text.lines() {
        let kv: BTreeMap<&str, u64> = l.split(' ').filter_map(|w| w.split_once('=')).filter_map(|(k, v)| Some((k, v.parse().ok()?))).collect();
        let (Some(tid), Some(a), Some(b)) = (kv.get("tid"), kv.get("a"), kv.get("b")) else { continue };
        for (f, want) in [("site_a", *a), ("site_b", *b)] {
            if !fns.contains(&f) { continue; }
            let have = reported.get(&(*tid as i32, f)).copied().unwrap_or(0);
            if stepping && have < want { oracle(emit, "arrival-during-step-of-another-thread-not-reported", format!("thread slot {} {f}: {want} arrivals counted by the debuggee, {have} stops reported; `next` was issued after every other stop", kv.get("slot").copied().unwrap_or(99))); continue; }
            if have > want { oracle(emit, "arrival-reported-more-than-once", format!("thread slot {} {f}: {want} arrivals counted by the debuggee, {have} stops reported", kv.get("slot").copied().unwrap_or(99))); }
            if have < want { oracle(emit, "arrival-not-reported", format!("thread slot {} {f}: {want} arrivals counted by the debuggee, {have} stops reported", kv.get("slot").copied().unwrap_or(99))); }
        }
    }
    if strip_tids(&got) != native {
        oracle(emit, "program-output-differs-from-native-run", format!("got {:?} want {:?}", strip_tids(&got), native));
    }
    if exited != Some(0) { oracle(emit, "exit-status-differs-from-native-run", format!("{exited:?}")); }
}

pub fn short(l: &str) -> String { if l.len() > 160 { format!("{}…", &l[..160]) } else { l.to_string() } }

pub fn exec(req: &[String], out: &mut Out, tmpdir: &std::path::Path) {
    let mut sessions: Vec<(Vec<String>, String)> = vec![];
    for l in req {
        if l.starts_with("C09 new ") || sessions.is_empty() { sessions.push((vec![], String::new())); }
        sessions.last_mut().unwrap().0.push(l.clone());
    }
    // native reference runs (in the parent: a process hosting a debugger must have no other children)
    let path = verif_root().join("progs").join(PROG);
    for (lines, native) in sessions.iter_mut() {
        if let Some(p) = params(&lines[0]) {
            let o = std::process::Command::new(&path).args(prog_args(&p)).output().expect("native run");
            *native = strip_tids(&o.stdout);
        }
    }
    let par = par_default().min(4);
    // the watchdog is wall-clock: stretch it with the machine's load; a session that still times out is run once more,
    // alone, with twice the limit (a hang is never dropped: a second timeout is reported)
    let load = std::fs::read_to_string("/proc/loadavg").ok().and_then(|s| s.split(' ').next().and_then(|v| v.parse::<f64>().ok())).unwrap_or(0.0);
    let cores = std::thread::available_parallelism().map(|n| n.get()).unwrap_or(1) as f64;
    let factor = ((load / cores).ceil() as u64).clamp(1, 6);
    let limit = std::env::var("VERIF_C09_LIMIT").ok().and_then(|v| v.parse().ok()).unwrap_or(session_timeout().max(40) * factor.min(3));
    let mut results = run_sessions(&sessions, tmpdir, "c09", par, limit, |s, emit| session(&s.0, &s.1, emit));
    for i in 0..sessions.len() {
        if results[i].1 == "timeout" && std::env::var("VERIF_NO_RETRY").is_err() && out.stats.get("session_retried_after_timeout").and_then(|v| v.as_u64()).unwrap_or(0) < 3 {
            out.count("session_retried_after_timeout", 1);
            let again = run_sessions(&sessions[i..i + 1], tmpdir, "c09r", 1, limit * 2, |s, emit| session(&s.0, &s.1, emit));
            results[i] = again.into_iter().next().unwrap();
        }
    }
    for (i, ((s, _), (lines, how))) in sessions.iter().zip(results).enumerate() {
        let mut npairs = 0; let mut nev = 0u64; let mut nstops = 0u64;
        let mut sample = vec![];
        for l in lines {
            if let Some(j) = l.strip_prefix("!oracle ") {
                let v: serde_json::Value = serde_json::from_str(j).unwrap();
                out.oracle_fail(v["key"].as_str().unwrap(), v["what"].as_str().unwrap(), json!({"session": s, "detail": v["replay"]}));
            } else if l.starts_with("@stop ") { nstops += 1; out.oracle_evals += 1; out.count("stop.in-step-session", 1);
            } else if let Some(p) = l.strip_prefix("@pair ") && let Some((r, a)) = p.split_once('\t') {
                if r.starts_with("C09 e ") { nev += 1; let k = r.split(' ').nth(2).unwrap_or("?"); let k2 = if k == "w" { format!("w.{}", r.split(' ').nth(4).unwrap_or("?")) } else { k.to_string() }; out.count(&format!("event.{k2}"), 1); }
                if r == "C09 ret" { nstops += 1; out.oracle_evals += 1; out.count(&format!("stop.{}", a.split(' ').next().unwrap_or("?")), 1); }
                if sample.len() < 40 { sample.push(format!("{} => {}", short(r), short(a))); }
                out.pair(r.to_string(), a.to_string());
                npairs += 1;
            }
        }
        out.count("events_total", nev);
        if how != "ok" {
            out.oracle_fail("debugger-crashed-or-hung", &format!("worker ended with {how} after {npairs} lines ({nstops} stops)"), json!({"session": s}));
            // keep the request file well-formed for the model: nothing to add (pairs emitted so far are complete lines)
        }
        if npairs == 0 { out.pair(s[0].clone(), format!("worker-{how}")); }
        if i < 2 { out.sample(json!({"session": s, "first_lines": sample})); }
    }
}

pub fn run(args: &[String]) {
    let a = parse_args(args);
    let mut out = Out::new(&a.out);
    let req = match &a.replay {
        Some(f) => read_lines(f),
        None => { let mut rng = Rng::new(a.seed); gen_requests(&mut rng, a.n, &mut out) }
    };
    exec(&req, &mut out, &a.out);
    out.finish();
}
