//! C06: values shown are the values the program holds.
//!
//! K: the REAL value decoder (`Debugger::read_local_variables` / `read_variable` / `read_argument`, `Value::deref`,
//!    `PointerValue::slice`) on a live generated debuggee vs the Lean model `BsVerif.Model.Value` fed with
//!    the type graph the debugger parsed (shipped as `C06 ty` lines) and the memory image read INDEPENDENTLY through
//!    /proc/<pid>/mem (`C06 mem` lines: the 256-byte blocks the decoder touched). One `C06 val` line per decoded value;
//!    answer = canonical rendering of the whole value tree (type names, field names, scalars, element order as scanned).
//! O: ground truth of the program generator (`c06/gen.rs`): every variable's logical value and Rust type name.
//!
//! Request lines
//!   C06 new <toolchain> <profile> <seed> <rustc-minor>        session = one generated program
//!   C06 ty <id> <kind> ...                                    type declaration as parsed by the debugger
//!   C06 mem <addr> <hex>                                      memory image (from /proc/<pid>/mem)
//!   C06 memreset                                              the debuggee ran: forget the image
//!   C06 val <v|d|s> <name> <type id> <addr> [<from> <to>]     decode: v variable/argument/static, d deref, s pointer slice
use crate::live::{ipose, proc_mem, run_sessions, session_timeout, verif_root};
use crate::util::*;
use bugstalker::debugger::process::Child;
use bugstalker::debugger::variable::dqe::{Dqe, Selector};
use bugstalker::debugger::variable::execute::QueryResult;
use bugstalker::debugger::variable::VerifParseContext as ParseContext;
use bugstalker::debugger::variable::value::{SpecializedValue, SupportedScalar, Value};
use bugstalker::debugger::verif::{MemberLocation, StructureMember, TypeId, TypeIdentity};
use bugstalker::debugger::{DebuggerBuilder, NopHook, StopReason, TypeDeclaration, rust};
use serde_json::json;
use std::collections::{BTreeSet, HashMap};
use std::io::Read;
use std::path::{Path, PathBuf};

#[path = "c06/gen.rs"]
pub mod cgen;
use cgen::{Defs, Program, T, Ty, Var};

const BLOCK: u64 = 256;

// ------------------------------------------------------------------------------------------------ canonical rendering (K)
fn tyname(t: &TypeIdentity) -> String { t.to_string() }

fn scalar_text(s: &SupportedScalar) -> String {
    match s {
        SupportedScalar::F32(f) => format!("f{}", f.to_bits()),
        SupportedScalar::F64(f) => format!("d{}", f.to_bits()),
        SupportedScalar::Char(c) => format!("c{}", *c as u32),
        SupportedScalar::Empty() => "()".into(),
        other => other.to_string(),
    }
}

pub fn render(v: &Value, o: &mut String) {
    match v {
        Value::Scalar(s) => { o.push_str("S<"); o.push_str(&tyname(&s.type_ident)); o.push('>');
            match &s.value { Some(x) => o.push_str(&scalar_text(x)), None => o.push('?') } }
        Value::Struct(s) => render_struct(s, o),
        Value::Array(a) => { o.push_str("A<"); o.push_str(&tyname(&a.type_ident)); o.push('>');
            match &a.items { None => o.push('?'), Some(items) => { o.push('[');
                for (i, it) in items.iter().enumerate() { if i > 0 { o.push(','); } o.push_str(&it.index.to_string()); o.push(':'); render(&it.value, o); }
                o.push(']'); } } }
        Value::CEnum(c) => { o.push_str("C<"); o.push_str(&tyname(&c.type_ident)); o.push('>'); o.push_str(c.value.as_deref().unwrap_or("?")); }
        Value::RustEnum(e) => { o.push_str("E<"); o.push_str(&tyname(&e.type_ident)); o.push('>');
            match &e.value { None => o.push('?'), Some(m) => { o.push('('); o.push_str(m.field_name.as_deref().unwrap_or("-")); o.push(':'); render(&m.value, o); o.push(')'); } } }
        Value::Pointer(p) => { o.push_str("P<"); o.push_str(&tyname(&p.type_ident)); o.push('>');
            match p.value { Some(x) => o.push_str(&(x as usize).to_string()), None => o.push('?') } }
        Value::Subroutine(_) => o.push('F'),
        Value::CModifiedVariable(m) => { o.push_str("M<"); o.push_str(&tyname(&m.type_ident)); o.push('>');
            match &m.value { Some(x) => render(x, o), None => o.push('?') } }
        Value::Specialized { value: None, original } => { o.push_str("X?"); render_struct(original, o); }
        Value::Specialized { value: Some(sp), original } => {
            let head = |k: &str, o: &mut String| { o.push('X'); o.push_str(k); o.push('<'); o.push_str(&tyname(&original.type_ident)); o.push('>'); };
            match sp {
                SpecializedValue::Vector(vv) | SpecializedValue::VecDeque(vv) => {
                    head(if matches!(sp, SpecializedValue::Vector(_)) { "vec" } else { "deq" }, o);
                    render_struct(&vv.structure, o);
                }
                SpecializedValue::HashMap(m) | SpecializedValue::BTreeMap(m) => {
                    head(if matches!(sp, SpecializedValue::HashMap(_)) { "hm" } else { "bm" }, o);
                    o.push('{');
                    for (i, (k, v)) in m.kv_items.iter().enumerate() { if i > 0 { o.push(','); } render(k, o); o.push_str("=>"); render(v, o); }
                    o.push('}');
                }
                SpecializedValue::HashSet(s) | SpecializedValue::BTreeSet(s) => {
                    head(if matches!(sp, SpecializedValue::HashSet(_)) { "hs" } else { "bs" }, o);
                    o.push('{');
                    for (i, k) in s.items.iter().enumerate() { if i > 0 { o.push(','); } render(k, o); }
                    o.push('}');
                }
                SpecializedValue::String(s) => { head("string", o); for b in s.value.bytes() { o.push_str(&format!("{b:02x}")); } }
                SpecializedValue::Str(s) => { head("str", o); for b in s.value.bytes() { o.push_str(&format!("{b:02x}")); } }
                SpecializedValue::Cell(c) => { head("cell", o); o.push('('); render(c, o); o.push(')'); }
                SpecializedValue::RefCell(c) => { head("refcell", o); o.push('('); render(c, o); o.push(')'); }
                SpecializedValue::Rc(p) | SpecializedValue::Arc(p) => {
                    head(if matches!(sp, SpecializedValue::Rc(_)) { "rc" } else { "arc" }, o);
                    o.push('('); render(&Value::Pointer(p.clone()), o); o.push(')');
                }
                SpecializedValue::Tls(_) => head("tls", o),
                _ => head("other", o),
            }
        }
    }
}
fn render_struct(s: &bugstalker::debugger::variable::value::StructValue, o: &mut String) {
    o.push_str("T<"); o.push_str(&tyname(&s.type_ident)); o.push_str(">{");
    for (i, m) in s.members.iter().enumerate() { if i > 0 { o.push(','); } o.push_str(m.field_name.as_deref().unwrap_or("-")); o.push(':'); render(&m.value, o); }
    o.push('}');
}

// ------------------------------------------------------------------------------------------------ type graph lines
fn opt_s(s: &Option<String>) -> String { match s { Some(s) => enc_str(s), None => "-".into() } }
fn opt_n<Tn: ToString>(s: Option<Tn>) -> String { match s { Some(s) => s.to_string(), None => "-".into() } }
fn int_tok(i: i64) -> String { if i < 0 { format!("m{}", i.unsigned_abs()) } else { i.to_string() } }

struct TypeTable { ids: HashMap<String, usize>, emitted: BTreeSet<usize> }
impl TypeTable {
    fn id(&mut self, t: TypeId) -> usize { let n = self.ids.len(); *self.ids.entry(format!("{t:?}")).or_insert(n) }
    fn opt(&mut self, t: Option<TypeId>) -> String { match t { Some(t) => self.id(t).to_string(), None => "-".into() } }
    fn member(&mut self, m: &StructureMember) -> String {
        let loc = match &m.in_struct_location { None => "-".to_string(), Some(MemberLocation::Offset(o)) => int_tok(*o), Some(MemberLocation::Expr(_)) => "e".to_string() };
        format!("{loc}:{}:{}", opt_s(&m.name), self.opt(m.type_ref))
    }
}

fn ns_tok(ns: &bugstalker::debugger::verif::NamespaceHierarchy) -> String { enc_list(&ns.as_parts(), |p| enc_str(p)) }

/// `C06 ty` lines for every type of the variable's graph not shipped yet
fn type_lines(qr: &QueryResult, tt: &mut TypeTable) -> Vec<String> {
    let g = qr.type_graph();
    let mut entries: Vec<(usize, TypeId)> = g.types.keys().map(|k| (tt.id(*k), *k)).collect();
    entries.sort_by_key(|e| e.0);
    let mut out = vec![];
    for (id, tid) in entries {
        if !tt.emitted.insert(id) { continue; }
        let size = qr.with_evcx(|evcx| g.type_size_in_bytes(evcx, tid));
        let line = match &g.types[&tid] {
            TypeDeclaration::Scalar(s) => format!("scalar {} {} {} {}", opt_s(&s.name), ns_tok(&s.namespaces), opt_n(s.byte_size), opt_n(s.encoding.map(|e| e.0))),
            TypeDeclaration::Structure { namespaces, name, byte_size, members, type_params } => {
                let ms: Vec<String> = members.iter().map(|m| tt.member(m)).collect();
                let tps: Vec<String> = type_params.iter().map(|(n, t)| format!("{}:{}", enc_str(n), tt.opt(*t))).collect();
                format!("struct {} {} {} {} {}", opt_s(name), ns_tok(namespaces), opt_n(*byte_size), enc_list(&ms, |s| s.clone()), enc_list(&tps, |s| s.clone()))
            }
            TypeDeclaration::Union { namespaces, name, byte_size, members } => {
                let ms: Vec<String> = members.iter().map(|m| tt.member(m)).collect();
                format!("union {} {} {} {}", opt_s(name), ns_tok(namespaces), opt_n(*byte_size), enc_list(&ms, |s| s.clone()))
            }
            TypeDeclaration::Array(a) => {
                let bounds = qr.with_evcx(|evcx| a.bounds(evcx));
                format!("array {} {} {} {} {}", ns_tok(&a.namespaces), tt.opt(a.element_type()),
                        bounds.map(|b| int_tok(b.0)).unwrap_or("-".into()), bounds.map(|b| int_tok(b.1)).unwrap_or("-".into()), opt_n(size))
            }
            TypeDeclaration::CStyleEnum { namespaces, name, byte_size, discr_type, enumerators } => {
                let mut es: Vec<(i64, String)> = enumerators.iter().map(|(k, v)| (*k, v.clone())).collect();
                es.sort();
                format!("cenum {} {} {} {} {}", opt_s(name), ns_tok(namespaces), opt_n(*byte_size), tt.opt(*discr_type),
                        enc_list(&es, |(k, v)| format!("{}:{}", int_tok(*k), enc_str(v))))
            }
            TypeDeclaration::RustEnum { namespaces, name, byte_size, discr_type, enumerators } => {
                let mut es: Vec<(Option<i64>, String)> = enumerators.iter().map(|(k, m)| (*k, tt.member(m))).collect();
                es.sort();
                format!("renum {} {} {} {} {}", opt_s(name), ns_tok(namespaces), opt_n(*byte_size),
                        discr_type.as_ref().map(|m| tt.member(m)).unwrap_or("-".into()),
                        enc_list(&es, |(k, m)| format!("{}:{m}", k.map(int_tok).unwrap_or("d".into()))))
            }
            TypeDeclaration::Pointer { namespaces, name, target_type } => format!("ptr {} {} {}", opt_s(name), ns_tok(namespaces), tt.opt(*target_type)),
            TypeDeclaration::Subroutine { namespaces, name, return_type } => format!("sub {} {} {}", opt_s(name), ns_tok(namespaces), tt.opt(*return_type)),
            TypeDeclaration::ModifiedType { modifier, namespaces, name, inner } => format!("mod {} {} {} {}", enc_str(&modifier.to_string()), opt_s(name), ns_tok(namespaces), tt.opt(*inner)),
        };
        out.push(format!("C06 ty {id} {line}"));
    }
    out
}

// ------------------------------------------------------------------------------------------------ oracle comparison
/// strip every `path::` prefix: `alloc::vec::Vec<alloc::string::String, alloc::alloc::Global>` -> `Vec<String, Global>`
pub fn strip_paths(s: &str) -> String {
    let cs: Vec<char> = s.chars().collect();
    let mut out = String::new();
    let mut i = 0;
    while i < cs.len() {
        if cs[i].is_alphanumeric() || cs[i] == '_' {
            let st = i;
            while i < cs.len() && (cs[i].is_alphanumeric() || cs[i] == '_') { i += 1; }
            if i + 1 < cs.len() && cs[i] == ':' && cs[i + 1] == ':' { i += 2; continue; }
            out.extend(&cs[st..i]);
        } else { out.push(cs[i]); i += 1; }
    }
    out
}

struct Ck<'a, 'b> {
    pcx: &'a ParseContext<'b>,
    defs: &'a Defs,
    fails: Vec<(String, String)>,   // (key, what)
    evals: u64,
    derefs: Vec<(&'static str, TypeId, Vec<usize>, Value)>, // K records of derefs: kind, target type, addr [from to], value
}

fn kind_of(v: &Value) -> &'static str {
    match v { Value::Scalar(_) => "scalar", Value::Struct(_) => "struct", Value::Array(_) => "array", Value::CEnum(_) => "cenum", Value::RustEnum(_) => "enum",
              Value::Pointer(_) => "pointer", Value::Subroutine(_) => "fn", Value::Specialized { value: None, .. } => "specialization-failed",
              Value::Specialized { .. } => "specialized", Value::CModifiedVariable(_) => "modified" }
}
fn value_tyname(v: &Value) -> String {
    match v { Value::Scalar(s) => tyname(&s.type_ident), Value::Struct(s) => tyname(&s.type_ident), Value::Array(a) => tyname(&a.type_ident),
              Value::CEnum(c) => tyname(&c.type_ident), Value::RustEnum(e) => tyname(&e.type_ident), Value::Pointer(p) => tyname(&p.type_ident),
              Value::Specialized { original, .. } => tyname(&original.type_ident), Value::CModifiedVariable(m) => tyname(&m.type_ident), Value::Subroutine(_) => "fn".into() }
}

impl Ck<'_, '_> {
    fn fail(&mut self, key: &str, what: String) { self.fails.push((key.to_string(), what)); }

    fn fields(&mut self, members: &[bugstalker::debugger::variable::value::Member], tys: &[(String, Ty)], ts: &[(String, T)], fam: &str, path: &str) {
        if members.len() != ts.len() {
            self.fail(&format!("{fam}-member-count"), format!("{path}: shown {} members ({:?}), the program has {}", members.len(), members.iter().map(|m| m.field_name.clone()).collect::<Vec<_>>(), ts.len()));
            return;
        }
        for ((n, t), (_, ty)) in ts.iter().zip(tys) {
            let found: Vec<_> = members.iter().filter(|m| m.field_name.as_deref() == Some(n)).collect();
            if found.len() != 1 { self.fail(&format!("{fam}-member-missing"), format!("{path}: member {n} shown {} times", found.len())); continue; }
            self.check(&found[0].value, ty, t, &format!("{path}.{n}"));
        }
    }

    fn seq(&mut self, items: Option<&Vec<bugstalker::debugger::variable::value::ArrayItem>>, ty: &Ty, ts: &[T], fam: &str, path: &str) {
        let Some(items) = items else { self.fail(&format!("{fam}-no-items"), format!("{path}: no items shown")); return };
        if items.len() != ts.len() {
            self.fail(&format!("{fam}-length"), format!("{path}: shown {} elements, the program holds {}", items.len(), ts.len()));
            return;
        }
        for (i, (it, t)) in items.iter().zip(ts).enumerate() {
            if it.index != i as i64 { self.fail(&format!("{fam}-index"), format!("{path}: element {i} carries index {}", it.index)); }
            let before = self.fails.len();
            self.check(&it.value, ty, t, &format!("{path}[{i}]"));
            if self.fails.len() > before + 3 { return; }
        }
    }

    /// does `v` show the truth `t`? (no failure recorded)
    fn matches(&mut self, v: &Value, ty: &Ty, t: &T) -> bool {
        let saved = std::mem::take(&mut self.fails);
        let (e, d) = (self.evals, self.derefs.len());
        self.check(v, ty, t, "");
        let ok = self.fails.is_empty();
        self.fails = saved; self.evals = e; self.derefs.truncate(d);
        ok
    }

    /// an expected key / item was not found among the shown ones: if one of the unused shown entries differs from it ONLY by
    /// failures of an already classified class (e.g. the entry is an enum that shows no variant), report that class
    fn diagnose_miss<'v>(&mut self, shown: impl Iterator<Item = &'v Value>, ty: &Ty, t: &T) -> Option<Vec<(String, String)>> {
        const CLASSIFIED: &[&str] = &["enum-with-128-bit-discriminant-shows-no-variant", "enum-unsigned-discriminant-with-top-bit-set-shows-no-variant",
            "enum-unsigned-discriminant-with-top-bit-set-shows-wrong-variant", "cenum-discriminant-above-i64-max-not-shown",
            "enum-single-variant-shows-no-variant", "btree-empty-never-filled-shown-as-raw-structure", "array-type-name-lacks-length"];
        let mut best: Option<Vec<(String, String)>> = None;
        for sk in shown {
            let saved = std::mem::take(&mut self.fails);
            let (e, d) = (self.evals, self.derefs.len());
            self.check(sk, ty, t, "<key>");
            let got = std::mem::replace(&mut self.fails, saved);
            self.evals = e; self.derefs.truncate(d);
            if !got.is_empty() && got.iter().all(|(k, _)| CLASSIFIED.contains(&k.as_str())) && best.as_ref().map(|b| got.len() < b.len()).unwrap_or(true) { best = Some(got); }
        }
        best
    }

    fn deref_ptr(&mut self, p: &bugstalker::debugger::variable::value::PointerValue, path: &str) -> Option<Value> {
        let r = p.deref(self.pcx);
        if let (Some(v), Some(addr), Some(tt)) = (&r, p.value, p.target_type) {
            let _ = path;
            self.derefs.push(("d", tt, vec![addr as usize], v.clone()));
        }
        r
    }

    pub fn check(&mut self, v: &Value, ty: &Ty, t: &T, path: &str) {
        self.evals += 1;
        let fam = Defs::family(ty);
        // type name
        let shown = strip_paths(&value_tyname(v)).replace(", Global", "");
        let want = self.defs.name(ty).replace(", Global", "");
        if shown != want {
            let want_nolen = { let mut o = String::new(); let cs: Vec<char> = want.chars().collect(); let mut i = 0;
                while i < cs.len() { if cs[i] == ';' && i + 1 < cs.len() && cs[i + 1] == ' ' { let mut j = i + 2; while j < cs.len() && cs[j].is_ascii_digit() { j += 1; } if j > i + 2 { i = j; continue; } } o.push(cs[i]); i += 1; } o };
            let key = if matches!(ty, Ty::Array(..)) && shown == want_nolen { "array-type-name-lacks-length".to_string() }
                      else { format!("type-name-{fam}") };
            self.fail(&key, format!("{path}: type shown as `{}` (paths stripped: `{shown}`), the Rust type is `{want}`", value_tyname(v)));
        }
        macro_rules! wrong_kind { () => {{
            let empty_btree = matches!((ty, t), (Ty::BMap(..), T::Map(m)) if m.is_empty()) || matches!((ty, t), (Ty::BSet(..), T::Set(m)) if m.is_empty());
            if empty_btree && kind_of(v) == "specialization-failed" { self.fail("btree-empty-never-filled-shown-as-raw-structure", format!("{path}: an empty {fam} (root = None) is not interpreted: the raw structure is shown")); }
            else { self.fail(&format!("{fam}-shown-as-{}", kind_of(v)), format!("{path}: a {fam} is shown as {}", kind_of(v))); }
            return; }} }
        match (ty, t) {
            (Ty::Int(name), T::Num(text)) => {
                let Value::Scalar(s) = v else { wrong_kind!() };
                let Some(x) = &s.value else { self.fail(&format!("{fam}-no-value"), format!("{path}: no value")); return };
                let variant = match x { SupportedScalar::I8(_) => "i8", SupportedScalar::I16(_) => "i16", SupportedScalar::I32(_) => "i32", SupportedScalar::I64(_) => "i64",
                    SupportedScalar::I128(_) => "i128", SupportedScalar::Isize(_) => "isize", SupportedScalar::U8(_) => "u8", SupportedScalar::U16(_) => "u16", SupportedScalar::U32(_) => "u32",
                    SupportedScalar::U64(_) => "u64", SupportedScalar::U128(_) => "u128", SupportedScalar::Usize(_) => "usize", _ => "other" };
                if variant != *name || x.to_string() != *text {
                    self.fail(&format!("int-{name}-value"), format!("{path}: shown {x} ({variant}), the program holds {text}{name}"));
                }
            }
            (Ty::F32, T::F32(bits)) => { let Value::Scalar(s) = v else { wrong_kind!() };
                if !matches!(&s.value, Some(SupportedScalar::F32(f)) if f.to_bits() == *bits) { self.fail("float-f32-value", format!("{path}: shown {:?}, the program holds bits {bits:#x}", s.value)); } }
            (Ty::F64, T::F64(bits)) => { let Value::Scalar(s) = v else { wrong_kind!() };
                if !matches!(&s.value, Some(SupportedScalar::F64(f)) if f.to_bits() == *bits) { self.fail("float-f64-value", format!("{path}: shown {:?}, the program holds bits {bits:#x}", s.value)); } }
            (Ty::Bool, T::Bool(b)) => { let Value::Scalar(s) = v else { wrong_kind!() };
                if s.value != Some(SupportedScalar::Bool(*b)) { self.fail("bool-value", format!("{path}: shown {:?}, the program holds {b}", s.value)); } }
            (Ty::Char, T::Char(c)) => { let Value::Scalar(s) = v else { wrong_kind!() };
                if !matches!(&s.value, Some(SupportedScalar::Char(x)) if *x as u32 == *c) { self.fail("char-value", format!("{path}: shown {:?}, the program holds U+{c:04X}", s.value)); } }
            (Ty::Unit, T::Unit) => { let Value::Scalar(s) = v else { wrong_kind!() };
                if s.value != Some(SupportedScalar::Empty()) { self.fail("unit-value", format!("{path}: shown {:?}", s.value)); } }
            (Ty::Tuple(tys), T::Fields(ts)) => { let Value::Struct(s) = v else { wrong_kind!() };
                let named: Vec<(String, Ty)> = tys.iter().enumerate().map(|(i, t)| (format!("__{i}"), t.clone())).collect();
                self.fields(&s.members, &named, ts, fam, path); }
            (Ty::Struct(i), T::Fields(ts)) => { let Value::Struct(s) = v else { wrong_kind!() };
                let def = self.defs.structs[*i].fields.clone();
                self.fields(&s.members, &def, ts, fam, path); }
            (Ty::NonZeroU32, T::Fields(ts)) => {
                // NonZero<u32> { __0: NonZeroU32Inner(u32) } — the number must be found at the bottom of the single-member chain
                let mut cur = v; let mut depth = 0;
                loop { match cur { Value::Struct(s) if s.members.len() == 1 && depth < 4 => { cur = &s.members[0].value; depth += 1; } _ => break } }
                match (cur, &ts[0].1) { (Value::Scalar(s), T::Num(text)) if s.value.as_ref().map(|x| x.to_string()).as_deref() == Some(text) => {}
                    _ => self.fail("nonzero-value", format!("{path}: shown as {}, the program holds {:?}", kind_of(cur), ts[0].1)) }
            }
            (Ty::CEnum(i), T::CVariant(name)) => {
                // a fieldless enum with a single variant is described by rustc as a (univariant) Rust enum
                if let Value::RustEnum(e) = v {
                    let shown = e.value.as_ref().and_then(|m| m.field_name.clone());
                    if shown.as_deref() != Some(name) {
                        let single = self.defs.cenums[*i].variants.len() == 1;
                        let key = if single && shown.is_none() { "enum-single-variant-shows-no-variant" } else { "cenum-variant" };
                        self.fail(key, format!("{path}: shown {shown:?}, the program holds {name}")); }
                    return;
                }
                let Value::CEnum(c) = v else { wrong_kind!() };
                if c.value.as_deref() != Some(name) {
                    let big = self.defs.cenums[*i].variants.iter().any(|x| x.0 == *name && x.1 > i64::MAX as i128);
                    let key = if big && c.value.is_none() { "cenum-discriminant-above-i64-max-not-shown" } else { "cenum-variant" };
                    self.fail(key, format!("{path}: shown {:?}, the program holds {name}", c.value)); } }
            (Ty::Enum(_) | Ty::Opt(_), T::Variant(name, ts)) => {
                let Value::RustEnum(e) = v else { wrong_kind!() };
                let Some(m) = &e.value else {
                    // the tag of Option<u128>/Option<i128> (and of enums whose largest payload is 128-bit aligned) is a 128-bit integer
                    let wide = e.type_id.and_then(|t| self.pcx.type_graph.types.get(&t)).map(|d| match d {
                        TypeDeclaration::RustEnum { discr_type: Some(m), .. } => m.type_ref.and_then(|t| self.pcx.type_graph.types.get(&t))
                            .map(|d| matches!(d, TypeDeclaration::Scalar(s) if s.byte_size == Some(16))).unwrap_or(false),
                        _ => false }).unwrap_or(false);
                    let topbit = match ty { Ty::Enum(i) => self.defs.enums[*i].variants.iter().any(|x| x.0 == *name && matches!(x.2, Some(d) if d >= 128)), _ => false };
                    let key = if wide { "enum-with-128-bit-discriminant-shows-no-variant".to_string() }
                              else if topbit { "enum-unsigned-discriminant-with-top-bit-set-shows-no-variant".to_string() } else { format!("{fam}-no-variant") };
                    self.fail(&key, format!("{path}: no variant shown, the program holds {name}")); return };
                if m.field_name.as_deref() != Some(name) {
                    // an unsigned tag whose variant keys were filed as NEGATIVE numbers (DW_AT_discr_value read signed): the niche / tag value is never found
                    let neg_keys = e.type_id.and_then(|t| self.pcx.type_graph.types.get(&t)).map(|d| match d {
                        TypeDeclaration::RustEnum { discr_type: Some(dm), enumerators, .. } =>
                            enumerators.keys().any(|k| matches!(k, Some(x) if *x < 0)) && dm.type_ref.and_then(|t| self.pcx.type_graph.types.get(&t))
                                .map(|d| matches!(d, TypeDeclaration::Scalar(s) if s.encoding.map(|e| e.0) == Some(7))).unwrap_or(false),
                        _ => false }).unwrap_or(false);
                    let key = if neg_keys { "enum-unsigned-discriminant-with-top-bit-set-shows-wrong-variant".to_string() } else { format!("{fam}-variant") };
                    self.fail(&key, format!("{path}: shown variant {:?}, the program holds {name}", m.field_name)); return; }
                let Value::Struct(s) = &m.value else { self.fail(&format!("{fam}-payload-kind"), format!("{path}: payload shown as {}", kind_of(&m.value))); return };
                let tys: Vec<(String, Ty)> = match ty {
                    Ty::Opt(inner) => if name == "Some" { vec![("__0".into(), (**inner).clone())] } else { vec![] },
                    Ty::Enum(i) => { let def = &self.defs.enums[*i]; let var = def.variants.iter().find(|x| x.0 == *name).unwrap();
                        match &var.1 { cgen::Payload::Unit => vec![], cgen::Payload::Tuple(ts) => ts.iter().enumerate().map(|(i, t)| (format!("__{i}"), t.clone())).collect(), cgen::Payload::Named(fs) => fs.clone() } }
                    _ => unreachable!() };
                // the variant's own type name
                let vname = strip_paths(&tyname(&s.type_ident));
                if vname != *name { self.fail(&format!("{fam}-variant-type-name"), format!("{path}: variant type shown as {vname}, expected {name}")); }
                self.fields(&s.members, &tys, ts, fam, &format!("{path}::{name}"));
            }
            (Ty::Array(el, _), T::Seq(ts)) => { let Value::Array(a) = v else { wrong_kind!() }; self.seq(a.items.as_ref(), el, ts, fam, path); }
            (Ty::Str | Ty::String, T::Str(text)) => {
                match v { Value::Specialized { value: Some(SpecializedValue::Str(s)), .. } if matches!(ty, Ty::Str) => if s.value != *text { self.fail("str-value", format!("{path}: shown {:?}, the program holds {text:?}", s.value)) },
                          Value::Specialized { value: Some(SpecializedValue::String(s)), .. } if matches!(ty, Ty::String) => if s.value != *text { self.fail("string-value", format!("{path}: shown {:?}, the program holds {text:?}", s.value)) },
                          _ => wrong_kind!() }
            }
            (Ty::Vec(el) | Ty::Deque(el), T::Seq(ts)) => {
                let vv = match v { Value::Specialized { value: Some(SpecializedValue::Vector(x)), .. } if matches!(ty, Ty::Vec(_)) => x,
                                   Value::Specialized { value: Some(SpecializedValue::VecDeque(x)), .. } if matches!(ty, Ty::Deque(_)) => x, _ => wrong_kind!() };
                match vv.structure.members.first().map(|m| &m.value) { Some(Value::Array(a)) => self.seq(a.items.as_ref(), el, ts, fam, path), _ => self.fail(&format!("{fam}-no-buf"), format!("{path}: no buf")) }
            }
            (Ty::HMap(kt, vt) | Ty::BMap(kt, vt), T::Map(ts)) => {
                let m = match v { Value::Specialized { value: Some(SpecializedValue::HashMap(x)), .. } if matches!(ty, Ty::HMap(..)) => x,
                                  Value::Specialized { value: Some(SpecializedValue::BTreeMap(x)), .. } if matches!(ty, Ty::BMap(..)) => x, _ => wrong_kind!() };
                if m.kv_items.len() != ts.len() { self.fail(&format!("{fam}-length"), format!("{path}: shown {} entries, the program holds {}", m.kv_items.len(), ts.len())); }
                let mut used = vec![false; m.kv_items.len()];
                for (k, val) in ts {
                    let mut hit = None;
                    for (i, (sk, _)) in m.kv_items.iter().enumerate() { if !used[i] && self.matches(sk, kt, k) { hit = Some(i); break; } }
                    match hit { None => {
                                    let cands: Vec<&Value> = m.kv_items.iter().enumerate().filter(|(i, _)| !used[*i]).map(|(_, kv)| &kv.0).collect();
                                    match self.diagnose_miss(cands.into_iter(), kt, k) {
                                        Some(fs) => { for (key, msg) in fs { self.fail(&key, format!("{path}: a key of the map: {msg}")); } return; }
                                        None => self.fail(&format!("{fam}-entry-missing"), format!("{path}: key {k:?} not shown")) }
                                    if self.fails.len() > 4 { return; } }
                                Some(i) => { used[i] = true; self.check(&m.kv_items[i].1, vt, val, &format!("{path}[{k:?}]")); } }
                }
                if used.iter().any(|u| !u) && m.kv_items.len() <= ts.len() { self.fail(&format!("{fam}-entry-invented-or-duplicated"), format!("{path}: {} shown entries match no entry of the program", used.iter().filter(|u| !**u).count())); }
            }
            (Ty::HSet(kt) | Ty::BSet(kt), T::Set(ts)) => {
                let m = match v { Value::Specialized { value: Some(SpecializedValue::HashSet(x)), .. } if matches!(ty, Ty::HSet(..)) => x,
                                  Value::Specialized { value: Some(SpecializedValue::BTreeSet(x)), .. } if matches!(ty, Ty::BSet(..)) => x, _ => wrong_kind!() };
                if m.items.len() != ts.len() { self.fail(&format!("{fam}-length"), format!("{path}: shown {} items, the program holds {}", m.items.len(), ts.len())); }
                let mut used = vec![false; m.items.len()];
                for k in ts {
                    let mut hit = None;
                    for (i, sk) in m.items.iter().enumerate() { if !used[i] && self.matches(sk, kt, k) { hit = Some(i); break; } }
                    match hit { None => {
                                    let cands: Vec<&Value> = m.items.iter().enumerate().filter(|(i, _)| !used[*i]).map(|(_, x)| x).collect();
                                    match self.diagnose_miss(cands.into_iter(), kt, k) {
                                        Some(fs) => { for (key, msg) in fs { self.fail(&key, format!("{path}: an item of the set: {msg}")); } return; }
                                        None => self.fail(&format!("{fam}-entry-missing"), format!("{path}: item {k:?} not shown")) }
                                    if self.fails.len() > 4 { return; } }
                                Some(i) => used[i] = true }
                }
                if used.iter().any(|u| !u) && m.items.len() <= ts.len() { self.fail(&format!("{fam}-entry-invented-or-duplicated"), format!("{path}: {} shown items match no item of the program", used.iter().filter(|u| !**u).count())); }
            }
            (Ty::Boxed(el) | Ty::Ref(el) | Ty::Raw(el), T::Ptr(t)) => {
                let Value::Pointer(p) = v else { wrong_kind!() };
                match self.deref_ptr(p, path) { Some(x) => self.check(&x, el, t, &format!("(*{path})")), None => self.fail(&format!("{fam}-deref-fails"), format!("{path}: cannot dereference")) }
            }
            (Ty::Rc(el) | Ty::Arc(el), T::Ptr(t)) => {
                let p = match v { Value::Specialized { value: Some(SpecializedValue::Rc(p)), .. } if matches!(ty, Ty::Rc(_)) => p,
                                  Value::Specialized { value: Some(SpecializedValue::Arc(p)), .. } if matches!(ty, Ty::Arc(_)) => p, _ => wrong_kind!() };
                let Some(inner) = self.deref_ptr(p, path) else { self.fail(&format!("{fam}-deref-fails"), format!("{path}: cannot dereference")); return };
                let field = if matches!(ty, Ty::Rc(_)) { "value" } else { "data" };
                match inner.field(field) { Some(x) => self.check(&x, el, t, &format!("(*{path}).{field}")), None => self.fail(&format!("{fam}-no-value-field"), format!("{path}: no `{field}` in the pointee")) }
            }
            (Ty::Cell(el), T::Inner(t)) => { let Value::Specialized { value: Some(SpecializedValue::Cell(c)), .. } = v else { wrong_kind!() }; self.check(c, el, t, &format!("{path}.get()")); }
            (Ty::RefCell(el), T::Inner(t)) => { let Value::Specialized { value: Some(SpecializedValue::RefCell(c)), .. } = v else { wrong_kind!() };
                match (**c).clone().field("value") { Some(x) => self.check(&x, el, t, &format!("{path}.borrow()")), None => self.fail("refcell-no-value", format!("{path}: no value member")) } }
            (Ty::Slice(el), T::Ptr(t)) => {
                let T::Seq(ts) = &**t else { unreachable!() };
                let Value::Struct(s) = v else { wrong_kind!() };
                let len = s.members.iter().find(|m| m.field_name.as_deref() == Some("length")).and_then(|m| match &m.value { Value::Scalar(x) => x.try_as_number(), _ => None });
                if len != Some(ts.len() as i64) { self.fail("slice-length", format!("{path}: length shown {len:?}, the program holds {}", ts.len())); return; }
                let Some(Value::Pointer(p)) = s.members.iter().find(|m| m.field_name.as_deref() == Some("data_ptr")).map(|m| &m.value) else { self.fail("slice-no-data-ptr", format!("{path}: no data_ptr")); return };
                if ts.is_empty() { return; }
                if p.target_type.and_then(|t| self.pcx.type_graph.type_size_in_bytes(self.pcx.evcx, t)) == Some(0) { return; } // C08 key ptr-slice-zero-sized-element-panics
                match p.slice(self.pcx, None, ts.len()) {
                    Some(Value::Array(a)) => {
                        if let (Some(addr), Some(tt)) = (p.value, p.target_type) { self.derefs.push(("s", tt, vec![addr as usize, 0, ts.len()], Value::Array(a.clone()))); }
                        self.seq(a.items.as_ref(), el, ts, fam, path) }
                    _ => self.fail("slice-elements", format!("{path}: data_ptr[..{}] cannot be read", ts.len())) }
            }
            _ => unreachable!("truth does not fit type: {ty:?} {t:?}"),
        }
    }
}

// ------------------------------------------------------------------------------------------------ program cache
fn toolchain_minor(tc: &str) -> u32 {
    let out = std::process::Command::new("rustup").args(["run", tc, "rustc", "--version"]).output().expect("rustup");
    let s = String::from_utf8_lossy(&out.stdout).to_string();
    s.split_whitespace().nth(1).and_then(|v| v.split('.').nth(1)).and_then(|m| m.parse().ok()).unwrap_or(0)
}

struct Session { tc: String, profile: String, seed: u64, minor: u32, prog: Program, bin: PathBuf, compile_error: Option<String>,
                 /// location-list ranges [begin, end) of the variables that have a location LIST (llvm-dwarfdump, independent of the debugger)
                 loclists: HashMap<String, Vec<(u64, u64)>> }

fn prepare(tc: &str, profile: &str, seed: u64, minors: &mut HashMap<String, u32>) -> (Session, Option<std::process::Child>) {
    let krate = format!("c06g_{profile}_{seed}");
    let prog = cgen::generate(profile, seed, &krate);
    let dir = verif_root().join("progs").join("c06gen");
    std::fs::create_dir_all(&dir).unwrap();
    let h = { use std::hash::{Hash, Hasher}; let mut s = std::collections::hash_map::DefaultHasher::new(); prog.source.hash(&mut s); s.finish() };
    let src = dir.join(format!("{krate}.rs"));
    let bin = dir.join(format!("{krate}-{tc}-{h:016x}"));
    let minor = *minors.entry(tc.to_string()).or_insert_with(|| toolchain_minor(tc));
    let mut child = None;
    if !bin.exists() {
        std::fs::write(&src, &prog.source).unwrap();
        child = Some(std::process::Command::new("rustup").args(["run", tc, "rustc", "-g", "-C", "opt-level=0", "--crate-name", &krate, "-o"]).arg(&bin).arg(&src)
            .stdout(std::process::Stdio::null()).stderr(std::process::Stdio::piped()).spawn().expect("rustc"));
    }
    (Session { tc: tc.to_string(), profile: profile.to_string(), seed, minor, prog, bin, compile_error: None, loclists: HashMap::new() }, child)
}

/// `[begin, end)` ranges of the location lists of the named variables / parameters, by llvm-dwarfdump
fn loclists(bin: &Path, names: &[String]) -> HashMap<String, Vec<(u64, u64)>> {
    let mut m = HashMap::new();
    let mut cmd = std::process::Command::new("llvm-dwarfdump-14");
    for n in names { cmd.arg(format!("--name={n}")); }
    let Ok(out) = cmd.arg(bin).output() else { return m };
    let text = String::from_utf8_lossy(&out.stdout).to_string();
    // DIE blocks are separated by blank lines; ranges precede DW_AT_name inside a block
    for block in text.split("\n\n") {
        let Some(name) = block.lines().find_map(|l| l.trim().strip_prefix("DW_AT_name").map(|r| r.trim().trim_start_matches("(\"").trim_end_matches("\")").to_string())) else { continue };
        let mut ranges = vec![];
        for l in block.lines() {
            let l = l.trim();
            if let Some(r) = l.strip_prefix("[0x") && let Some((a, rest)) = r.split_once(", 0x") && let Some((b, _)) = rest.split_once(')') {
                if let (Ok(a), Ok(b)) = (u64::from_str_radix(a, 16), u64::from_str_radix(b, 16)) { ranges.push((a, b)); }
            }
        }
        if !ranges.is_empty() { m.insert(name, ranges); }
    }
    m
}

// ------------------------------------------------------------------------------------------------ one live session (worker process)
struct Worker<'a> { emit: &'a mut dyn FnMut(String), tt: TypeTable, shipped: BTreeSet<u64>, pid: i32, touched: BTreeSet<u64>, pc: u64, loclists: &'a HashMap<String, Vec<(u64, u64)>> }

impl Worker<'_> {
    fn k(&mut self, req: String, ans: String) { (self.emit)(format!("K {req}\t{ans}")); }
    fn stat(&mut self, key: &str) { (self.emit)(format!("!count {key}")); }
    fn oracle(&mut self, key: &str, what: &str, var: &str) { (self.emit)(format!("!oracle {}", json!({"key": key, "what": what, "var": var}))); }
    fn absorb_peeks(&mut self) {
        for ev in ipose::take() {
            if let ipose::Ev::Ptrace { req, addr, .. } = ev && req == libc::PTRACE_PEEKDATA as u32 {
                self.touched.insert(addr / BLOCK * BLOCK);
                self.touched.insert((addr + 7) / BLOCK * BLOCK);
            }
        }
    }
    /// ship the blocks touched so far (content through /proc/<pid>/mem), contiguous blocks merged
    fn ship_memory(&mut self) {
        self.absorb_peeks();
        let new: Vec<u64> = self.touched.iter().copied().filter(|b| !self.shipped.contains(b)).collect();
        let mut i = 0;
        while i < new.len() {
            let mut j = i;
            while j + 1 < new.len() && new[j + 1] == new[j] + BLOCK && (j + 1 - i) < 64 { j += 1; }
            let (start, len) = (new[i], (new[j] - new[i] + BLOCK) as usize);
            let bytes = match proc_mem(self.pid, start, len) { Some(b) => Some(b), None => None };
            match bytes {
                Some(b) => { let hex: String = b.iter().map(|x| format!("{x:02x}")).collect(); self.k(format!("C06 mem {start} {hex}"), "ok".into()); for b in (i..=j).map(|x| new[x]) { self.shipped.insert(b); } }
                None => { // block by block: the run crosses the end of a mapping
                    for x in i..=j { if let Some(b) = proc_mem(self.pid, new[x], BLOCK as usize) { let hex: String = b.iter().map(|x| format!("{x:02x}")).collect(); self.k(format!("C06 mem {} {hex}", new[x]), "ok".into()); } self.shipped.insert(new[x]); }
                }
            }
            i = j + 1;
        }
    }

    fn at_range_end(&self, name: &str) -> bool {
        self.loclists.get(name).map(|rs| !rs.iter().any(|(a, b)| *a <= self.pc && self.pc < *b) && rs.iter().any(|(_, b)| *b == self.pc)).unwrap_or(false)
    }
    /// the variable is described by a location LIST and no range of it covers the stop pc: DWARF gives it no location here
    fn no_location(&self, name: &str) -> bool { self.no_location_here(name) }
    fn no_location_here(&self, name: &str) -> bool {
        self.loclists.get(name).map(|rs| !rs.iter().any(|(a, b)| *a <= self.pc && self.pc < *b)).unwrap_or(false)
    }
    fn handle(&mut self, qr: &QueryResult, var: &Var, defs: &Defs, what: &str) {
        self.stat(&format!("family:{}", var.family));
        if var.shape != "-" { self.stat(&format!("shape:{}:{}", var.family, var.shape)); }
        for l in type_lines(qr, &mut self.tt) { self.k(l, "ok".into()); }
        // K: the keys under which the type parser filed the variants of a repr(u8) enum with explicit discriminants
        if let Ty::Enum(i) = &var.ty {
            let def = &defs.enums[*i];
            if let Some(TypeDeclaration::RustEnum { enumerators, .. }) = qr.type_graph().types.get(&qr.type_graph().root()) {
                for (vname, _, d) in &def.variants {
                    if let Some(d) = d {
                        let key = enumerators.iter().find(|(_, m)| m.name.as_deref() == Some(vname)).map(|(k, _)| k.map(int_tok).unwrap_or("d".into())).unwrap_or("-".into());
                        self.k(format!("C06 discrkey 1 {d}"), key);
                    }
                }
            }
        }
        // K: the keys under which the type parser filed the enumerators of an unsigned C-like enum (DW_FORM_udata constants)
        if let Ty::CEnum(i) = &var.ty {
            let def = &defs.cenums[*i];
            if matches!(def.repr, Some("u8") | Some("u16") | Some("u64")) && let Some(TypeDeclaration::CStyleEnum { enumerators, .. }) = qr.type_graph().types.get(&qr.type_graph().root()) {
                for (vname, d) in &def.variants {
                    let key = enumerators.iter().find(|(_, n)| *n == vname).map(|(k, _)| int_tok(*k)).unwrap_or("-".into());
                    self.k(format!("C06 constkey {d}"), key);
                }
            }
        }
        let v = qr.value();
        // K: the root value
        let root = qr.type_graph().root();
        let rid = self.tt.id(root);
        match v.in_memory_location() {
            Some(addr) => {
                self.touched.insert(addr as u64 / BLOCK * BLOCK);
                let size = qr.with_evcx(|evcx| qr.type_graph().type_size_in_bytes(evcx, root)).unwrap_or(0);
                self.touched.insert((addr as u64 + size.max(1) - 1) / BLOCK * BLOCK);
                self.ship_memory();
                let mut r = String::new(); render(v, &mut r);
                self.k(format!("C06 val v {} {rid} {addr}", enc_str(&var.name)), r);
            }
            None => self.stat("k-skipped:no-address"),
        }
        // no location at this pc (a gap of the location list) and the debugger shows the variable WITHOUT data: nothing to compare
        if self.no_location(&var.name) && !self.at_range_end(&var.name) && v.in_memory_location().is_none() {
            self.stat("no-location-at-stop-pc:shown-without-value");
            return;
        }
        // O: ground truth (+ K lines for the dereferences made on the way)
        let mut fails = vec![]; let mut evals = 0; let mut derefs = vec![];
        let _ = qr.clone().modify_value(|pcx, val| {
            let mut ck = Ck { pcx, defs, fails: vec![], evals: 0, derefs: vec![] };
            let r = std::panic::catch_unwind(std::panic::AssertUnwindSafe(|| ck.check(&val, &var.ty, &var.truth, &var.name)));
            if r.is_err() { ck.fails.push(("decoder-panics".into(), format!("{}: panic while decoding / dereferencing", var.name))); }
            fails = std::mem::take(&mut ck.fails); evals = ck.evals; derefs = std::mem::take(&mut ck.derefs);
            Some(val)
        });
        (self.emit)(format!("!evals {evals}"));
        // the variable has a location LIST and the stop pc is the (exclusive) end of one of its ranges while no range covers it:
        // DWARF says "no location here"; whatever is shown comes from the stale entry
        let at_range_end = self.at_range_end(&var.name);
        if at_range_end { self.stat("stop-at-exclusive-end-of-location-range"); }
        if self.no_location_here(&var.name) {
            // no range of the variable's location list covers the stop pc (the compiler's description, e.g. a by-reference argument
            // between the overwrite of its register and its reload from the stack): nothing of the program's value can be shown
            // - no verdict on the value - and nothing may be read: bytes fetched here come from an entry that does not apply
            self.stat("no-verdict:no-location-at-stop-pc");
            if let Some(addr) = v.in_memory_location() {
                let key = if at_range_end { "location-list-range-end-treated-as-inclusive" } else { "value-read-where-dwarf-gives-no-location" };
                self.oracle(key, &format!("{what} {}: no location-list range of the variable covers the stop pc {:#x}{}, yet a value is read (at {addr:#x}, from an entry that does not apply){}", var.name, self.pc,
                    if at_range_end { " (it is the exclusive end of a range)" } else { "" }, fails.first().map(|f| format!(": {}", f.1)).unwrap_or_default()), &var.name);
            }
        } else if let (Some(h), false) = (var.hint, fails.is_empty()) {
            self.oracle(h, &format!("{what} {}", fails[0].1), &var.name);
        } else {
            for (key, msg) in fails.into_iter().take(3) { self.oracle(&key, &format!("{what} {msg}"), &var.name); }
        }
        for (kind, tid, nums, val) in derefs {
            let tid = self.tt.id(tid);
            self.ship_memory();
            let mut r = String::new(); render(&val, &mut r);
            self.k(format!("C06 val {kind} {} {tid} {}", enc_str(&var.name), nums.iter().map(|n| n.to_string()).collect::<Vec<_>>().join(" ")), r);
        }
    }
}

fn session(s: &Session, emit: &mut dyn FnMut(String)) {
    let first = format!("C06 new {} {} {} {}", s.tc, s.profile, s.seed, s.minor);
    emit(format!("K {first}\tok"));
    if s.compile_error.is_some() { emit("!count compile-error".into()); return; }
    let (mut reader, writer) = os_pipe::pipe().unwrap();
    std::thread::spawn(move || { let mut buf = [0u8; 4096]; while let Ok(n) = reader.read(&mut buf) { if n == 0 { break; } } });
    rust::Environment::init(None);
    let runner = Child::new(s.bin.to_str().unwrap(), Vec::<String>::new(), None::<&Path>, writer.try_clone().unwrap(), writer);
    let mut dbg = DebuggerBuilder::<NopHook>::new().build(runner.install().unwrap()).unwrap();
    let file = format!("{}.rs", s.prog.krate);
    let n1 = dbg.set_breakpoint_at_line(&file, s.prog.break_locals).map(|v| v.len()).unwrap_or(0);
    let n2 = if s.prog.args.is_empty() { 0 } else { dbg.set_breakpoint_at_line(&file, s.prog.break_args).map(|v| v.len()).unwrap_or(0) };
    if n1 == 0 { emit(format!("!oracle {}", json!({"key": "harness-breakpoint-not-set", "what": format!("no breakpoint at {file}:{}", s.prog.break_locals), "var": ""}))); return; }
    let reason = dbg.start_debugee_with_reason();
    if !matches!(reason, Ok(StopReason::Breakpoint(..))) { emit(format!("!oracle {}", json!({"key": "harness-breakpoint-not-hit", "what": "the locals breakpoint was not hit", "var": ""}))); return; }
    ipose::enable();
    let _ = ipose::take();
    let pid = dbg.process().pid().as_raw();
    let pc0 = u64::from(dbg.ecx().location().global_pc);
    let mut w = Worker { emit, tt: TypeTable { ids: HashMap::new(), emitted: BTreeSet::new() }, shipped: BTreeSet::new(), pid, touched: BTreeSet::new(), pc: pc0, loclists: &s.loclists };
    {
        let locals = match dbg.read_local_variables() { Ok(v) => v, Err(e) => { w.oracle("read-local-variables-fails", &e.to_string(), ""); vec![] } };
        for var in &s.prog.locals {
            let found: Vec<&QueryResult> = locals.iter().filter(|q| q.identity().name.as_deref() == Some(&var.name)).collect();
            if found.is_empty() && w.no_location(&var.name) { w.stat("no-location-at-stop-pc:not-shown"); continue; }
            if found.len() != 1 { w.oracle(&format!("variable-shown-{}-times", found.len().min(2)), &format!("local {} of type {} is shown {} times", var.name, s.prog.defs.src(&var.ty), found.len()), &var.name); continue; }
            w.handle(found[0], var, &s.prog.defs, "local");
        }
        for var in &s.prog.statics {
            match dbg.read_variable(Dqe::Variable(Selector::by_name(&var.name, false))) {
                Ok(v) if v.len() == 1 => w.handle(&v[0], var, &s.prog.defs, "static"),
                Ok(v) => w.oracle(&format!("static-shown-{}-times", v.len().min(2)), &format!("static {} is shown {} times", var.name, v.len()), &var.name),
                Err(e) => w.oracle("read-static-fails", &e.to_string(), &var.name),
            }
        }
    }
    if n2 > 0 {
        let reason = dbg.continue_debugee_with_reason();
        if !matches!(reason, Ok(StopReason::Breakpoint(..))) { w.oracle("harness-breakpoint-not-hit", "the arguments breakpoint was not hit", ""); return; }
        let _ = ipose::take();
        w.pc = u64::from(dbg.ecx().location().global_pc);
        w.touched.clear(); w.shipped.clear();
        w.k("C06 memreset".into(), "ok".into());
        let args = match dbg.read_argument(Dqe::Variable(Selector::Any)) { Ok(v) => v, Err(e) => { w.oracle("read-arguments-fails", &e.to_string(), ""); vec![] } };
        for var in &s.prog.args {
            let found: Vec<&QueryResult> = args.iter().filter(|q| q.identity().name.as_deref() == Some(&var.name)).collect();
            if found.is_empty() && w.no_location(&var.name) { w.stat("no-location-at-stop-pc:not-shown"); continue; }
            if found.len() != 1 { w.oracle(&format!("argument-shown-{}-times", found.len().min(2)), &format!("argument {} is shown {} times", var.name, found.len()), &var.name); continue; }
            w.handle(found[0], var, &s.prog.defs, "argument");
        }
    }
    drop(dbg);
}

// ------------------------------------------------------------------------------------------------ generation / execution
const PROFILES: &[&str] = &["colls", "hash", "btree", "mix", "scalars", "ptrs", "deque", "mix"];

pub fn gen_requests(rng: &mut Rng, n: u64, out: &mut Out) -> Vec<String> {
    let tcs: Vec<String> = std::env::var("C06_TOOLCHAINS").unwrap_or("1.89".into()).split(',').map(String::from).collect();
    let mut req = vec![];
    for i in 0..n {
        let profile = PROFILES[(i % PROFILES.len() as u64) as usize];
        let tc = &tcs[(i / PROFILES.len() as u64) as usize % tcs.len()];
        let seed = rng.below(1_000_000);
        out.count(&format!("profile:{profile}"), 1);
        out.count(&format!("toolchain:{tc}"), 1);
        req.push(format!("C06 new {tc} {profile} {seed} 0"));
    }
    req
}

pub fn exec(req: &[String], out: &mut Out, tmpdir: &Path) {
    let mut minors = HashMap::new();
    let mut sessions: Vec<Session> = vec![];
    let mut compiling: Vec<(usize, std::process::Child)> = vec![];
    let finish = |sessions: &mut Vec<Session>, (i, ch): (usize, std::process::Child)| {
        let out = ch.wait_with_output().expect("rustc");
        if !out.status.success() { sessions[i].compile_error = Some(String::from_utf8_lossy(&out.stderr).chars().take(2000).collect()); let _ = std::fs::remove_file(&sessions[i].bin); }
    };
    for l in req {
        let t: Vec<&str> = l.split(' ').collect();
        if t.len() >= 5 && t[0] == "C06" && t[1] == "new" {
            let (s, child) = prepare(t[2], t[3], t[4].parse().unwrap_or(0), &mut minors);
            sessions.push(s);
            if let Some(ch) = child { compiling.push((sessions.len() - 1, ch)); }
            if compiling.len() >= 4 { let c = compiling.remove(0); finish(&mut sessions, c); }
        }
    }
    for c in compiling { finish(&mut sessions, c); }
    for s in sessions.iter_mut() {
        if s.compile_error.is_none() {
            let names: Vec<String> = s.prog.locals.iter().chain(&s.prog.args).map(|v| v.name.clone()).collect();
            s.loclists = loclists(&s.bin, &names);
        }
    }
    let par = std::env::var("VERIF_PAR").ok().and_then(|v| v.parse().ok()).unwrap_or(4usize).min(4);
    let results = run_sessions(&sessions, tmpdir, "c06", par, session_timeout(), |s, emit| session(s, emit));
    for (s, (lines, how)) in sessions.iter().zip(results) {
        let id = format!("C06 new {} {} {} {}", s.tc, s.profile, s.seed, s.minor);
        if let Some(e) = &s.compile_error {
            out.oracle_fail("harness-generated-program-does-not-compile", e, json!({"session": id}));
        }
        let mut nk = 0;
        for l in lines {
            if let Some(j) = l.strip_prefix("!oracle ") {
                let v: serde_json::Value = serde_json::from_str(j).unwrap();
                out.oracle_fail(v["key"].as_str().unwrap(), v["what"].as_str().unwrap(), json!({"session": id, "var": v["var"], "source": format!("progs/c06gen/{}.rs", s.prog.krate)}));
            } else if let Some(k) = l.strip_prefix("!count ") { out.count(k, 1); }
            else if let Some(k) = l.strip_prefix("!evals ") { out.oracle_evals += k.parse::<u64>().unwrap_or(0); }
            else if let Some(k) = l.strip_prefix("K ") {
                let (r, a) = k.split_once('\t').unwrap();
                if r.starts_with("C06 val") { nk += 1; if out.samples.len() < 3 && nk == 3 { out.sample(json!({"request": short(r), "answer": short(a)})); } }
                out.pair(r.to_string(), a.to_string());
            }
        }
        out.count("values-decoded", nk);
        if how != "ok" {
            out.oracle_fail("debugger-crashed-or-hung", &format!("worker ended with {how}"), json!({"session": id, "source": format!("progs/c06gen/{}.rs", s.prog.krate)}));
        }
    }
}

pub fn short(l: &str) -> String { if l.len() > 300 { format!("{}…", l.chars().take(300).collect::<String>()) } else { l.to_string() } }

pub fn run(args: &[String]) {
    let a = parse_args(args);
    if a.rest.first().map(|s| s.as_str()) == Some("--source") {
        // print a generated program: bsv c06 --source <profile> <seed>
        let p = cgen::generate(&a.rest[1], a.rest[2].parse().unwrap(), "c06g_show");
        println!("{}", p.source);
        for v in p.locals.iter().chain(&p.args).chain(&p.statics) { println!("// {} : {} = {:?}", v.name, p.defs.src(&v.ty), v.truth); }
        return;
    }
    if let Some(i) = a.rest.iter().position(|x| x == "--toolchains") && let Some(v) = a.rest.get(i + 1) {
        unsafe { std::env::set_var("C06_TOOLCHAINS", v) };
    }
    let mut out = Out::new(&a.out);
    let req = match &a.replay {
        Some(f) => read_lines(f),
        None => { let mut rng = Rng::new(a.seed); gen_requests(&mut rng, a.n, &mut out) }
    };
    exec(&req, &mut out, &a.out);
    out.finish();
}
