//! C02: debugging never changes what the program computes or leaves patches behind.
//! Same sessions as C01 plus the step commands.  A step command's request line carries what the harness
//! observed at the ptrace boundary (which temporaries were installed, how many instruction steps started inside
//! the executable), so that the model — whose theorems hold for EVERY choice of temporaries — can be run on the
//! same history:
//!   C02 stepi | C02 step <k> | C02 next <temps> <k> | C02 finish <temps> <k>
//! `exec` rewrites these parameters from its own observation, so request files replay on any tree.
//! Context-only commands as in C01 (`frame <k>` rewritten to `frame <k> <ip|->`, `bt`, `locals`): they are interleaved after
//! stops and steps; the step commands must start from the thread's real pc whatever frame is selected.
//! Oracles (independent of the model): after every command the text of the live process differs from the ELF file
//! exactly at the user breakpoints + the entry point; the program's output and exit status equal the native run.
use super::c01::{ctx_command, new_line, short, user_pcs, PROGS};
use crate::live::*;
use crate::util::*;
use bugstalker::debugger::address::{Address, RelocatedAddress};
use bugstalker::debugger::StopReason;
use serde_json::json;
use std::collections::BTreeSet;

pub struct Obs { pub pokes: String, pub temps: Vec<u64>, pub k_tail: u64, pub k_all: u64 }

/// digest of the ptrace traffic of one command
pub fn observe(p: &Prog, base: u64) -> Obs {
    let evs = ipose::take();
    let mut pokes: Vec<(u64, u64)> = vec![];
    let mut temps = vec![];
    let mut resumed = false;           // a SINGLESTEP or CONT has been seen
    let mut last_rip = 0u64;
    let mut k_all = 0; let mut k_tail = 0;
    for e in evs {
        if let ipose::Ev::Ptrace { req, addr, data, ret, rip, .. } = e {
            if ret != 0 && req != libc::PTRACE_PEEKDATA && req != libc::PTRACE_PEEKTEXT { continue; }
            match req {
                libc::PTRACE_POKEDATA | libc::PTRACE_POKETEXT if addr >= base && p.in_text(addr - base) => {
                    pokes.push((addr - base, data & 0xff));
                    if !resumed && data & 0xff == 0xCC { temps.push(addr - base); }
                }
                libc::PTRACE_GETREGS | libc::PTRACE_SETREGS => last_rip = rip,
                libc::PTRACE_SINGLESTEP => {
                    resumed = true;
                    if last_rip >= base && p.in_text(last_rip - base) { k_all += 1; k_tail += 1; }
                }
                libc::PTRACE_CONT => { resumed = true; k_tail = 0; }
                _ => {}
            }
        }
    }
    pokes.sort_by_key(|x| x.0);
    Obs { pokes: enc_list(&pokes, |x| format!("{:x}:{:x}", x.0, x.1)), temps, k_tail, k_all }
}

pub fn gen_requests(rng: &mut Rng, n: u64, out: &mut Out, id: &str) -> Vec<String> {
    let mut req = vec![];
    for _ in 0..n {
        let name = *rng.pick(PROGS);
        let p = Prog::load(name);
        let cands = user_pcs(&p);
        req.push(new_line(id, &p));
        out.count(&format!("prog.{name}"), 1);
        let mut set: Vec<u64> = vec![];
        for _ in 0..rng.range(1, 3) { let a = *rng.pick(&cands); req.push(format!("{id} break {a:x}")); set.push(a); }
        req.push(format!("{id} start"));
        let fault_session = id == "C02" && rng.chance(1, 3);
        let steps = if fault_session { rng.range(1, 8) } else { rng.range(3, 25) };
        for _ in 0..steps {
            match rng.below(20) {
                0..=4 => { req.push(format!("{id} continue")); out.count("op.continue", 1); }
                5..=6 => { let a = *rng.pick(&cands); req.push(format!("{id} break {a:x}")); set.push(a); out.count("op.break", 1); }
                7 => { if let Some(a) = set.pop() { req.push(format!("{id} remove {a:x}")); out.count("op.remove", 1); } }
                8..=10 => { req.push(format!("{id} stepi")); out.count("op.stepi", 1); }
                11..=13 => { req.push(format!("{id} step 0")); out.count("op.step", 1); }
                14..=17 => { req.push(format!("{id} next - 0")); out.count("op.next", 1); }
                _ => { req.push(format!("{id} finish - 0")); out.count("op.finish", 1); }
            }
            // context-only commands between two commands that run the program: select a (near) caller frame, inspect
            if id == "C02" && rng.chance(1, 4) {
                match rng.below(6) {
                    0..=3 => { req.push(format!("{id} frame {}", rng.range(0, 3))); out.count("ctx.frame", 1); if rng.chance(1, 3) { req.push(format!("{id} locals")); out.count("ctx.locals", 1); } }
                    4 => { req.push(format!("{id} bt")); out.count("ctx.bt", 1); }
                    _ => { req.push(format!("{id} locals")); out.count("ctx.locals", 1); }
                }
            }
        }
        if fault_session {
            // make the n-th ptrace request of one kind fail (EIO) during ONE further command, then stop the session
            // (PTRACE_CONT / PTRACE_SINGLESTEP are not failed: the kernel never refuses them for a live stopped tracee, and a
            // debugger that goes on to wait for a tracee that was never resumed blocks forever — an artefact, not a finding)
            let kind = *rng.pick(&["POKE", "POKE", "POKE", "PEEK", "SETREGS"]);
            let n = rng.range(1, 12);
            req.push(format!("{id} fault {kind} {n}"));
            req.push(match rng.below(5) { 0 => format!("{id} continue"), 1 => format!("{id} stepi"), 2 => format!("{id} step 0"), 3 => format!("{id} finish - 0"), _ => format!("{id} next - 0") });
            out.count(&format!("fault.{kind}"), 1);
        }
    }
    req
}

/// one session inside a worker process. Emits `request<TAB>answer` lines and `!oracle <json>` lines.
pub fn session(id: &str, lines: &[String], emit: &mut dyn FnMut(String)) {
    let t: Vec<&str> = lines[0].split(' ').collect();
    let p = Prog::load(t[2]);
    if lines[0] != new_line(id, &p) { emit(format!("{}\tstale-program", lines[0])); return; }
    let mut live = match Live::launch(&p) { Ok(l) => l, Err(e) => { emit(format!("{}\tlaunch-failed {e}", lines[0])); return; } };
    emit(format!("{}\tok", lines[0]));
    ipose::enable();
    let base = p.base;
    let mut bset: BTreeSet<u64> = BTreeSet::new();
    let mut started = false;
    let mut exited = false;
    let oracle = |emit: &mut dyn FnMut(String), key: &str, what: String| {
        emit(format!("!oracle {}", json!({"key": key, "what": what, "replay": {"prog": p.name}})));
    };
    let mut armed = false;
    let mut after_fault = false;
    // the last step ended outside the executable: the pc of the (refreshed) exploration context is not compared
    let mut ecx_out = false;
    for line in &lines[1..] {
        let t: Vec<&str> = line.split(' ').collect();
        if after_fault { emit(format!("{line}\tafter-fault")); continue; }
        if let [_, "fault", kind, n] = t.as_slice() {
            let req = match *kind { "POKE" => libc::PTRACE_POKEDATA, "PEEK" => libc::PTRACE_PEEKDATA, "STEP" => libc::PTRACE_SINGLESTEP,
                                    "CONT" => libc::PTRACE_CONT, "SETREGS" => libc::PTRACE_SETREGS, _ => u32::MAX };
            if req != u32::MAX && started && !exited { ipose::arm_fault(req, n.parse().unwrap_or(1)); armed = true; }
            emit(format!("{line}\tok"));
            continue;
        }
        ipose::take();
        let gpc = |live: &Live| -> String {
            let pc = u64::from(live.dbg.ecx().location().pc);
            if pc >= base && p.in_text(pc - base) { format!("{:x}", pc - base) } else { "out".into() }
        };
        let (req, ans): (String, String) = match t.as_slice() {
            [_, "break", a] => {
                let a = u64::from_str_radix(a, 16).unwrap();
                let r = live.dbg.set_breakpoint_at_addr(RelocatedAddress::from(base + a)).map(|_| ());
                if r.is_ok() { bset.insert(a); }
                (line.clone(), if r.is_ok() { "ok".to_string() } else { "err".into() })
            }
            [_, "remove", a] => {
                let a = u64::from_str_radix(a, 16).unwrap();
                (line.clone(), match live.dbg.remove_breakpoint(Address::Relocated(RelocatedAddress::from(base + a))) {
                    Ok(Some(_)) => { bset.remove(&a); "ok".into() }
                    Ok(None) => "none".to_string(),
                    Err(_) => "err".into(),
                })
            }
            [_, c @ ("start" | "continue")] => {
                let r = if *c == "start" { live.dbg.start_debugee_with_reason() } else { live.dbg.continue_debugee_with_reason() };
                let ans = match &r {
                    Ok(StopReason::Breakpoint(_, pc)) => { started = true; format!("stop {:x}", u64::from(*pc).wrapping_sub(base)) }
                    Ok(StopReason::DebugeeExit(code)) => { started = true; exited = true; format!("exit {code}") }
                    Ok(other) => format!("other {other:?}").replace(' ', "_"),
                    Err(_) => "err".into(),
                };
                (line.clone(), ans)
            }
            [_, c @ ("stepi" | "step" | "next" | "finish"), ..] => {
                let r = match *c {
                    "stepi" => live.dbg.stepi(),
                    "step" => live.dbg.step_into(),
                    "next" => live.dbg.step_over(),
                    _ => live.dbg.step_out(),
                };
                let gone = !std::path::Path::new(&format!("/proc/{}/maps", live.pid())).exists()
                    || std::fs::read_to_string(format!("/proc/{}/stat", live.pid())).map(|s| s.contains(") Z ")).unwrap_or(true);
                let ans = match &r {
                    _ if exited => (if r.is_err() { "err" } else { "ok-after-exit" }).to_string(),
                    Ok(()) if !gone => format!("done {}", gpc(&live)),
                    Ok(()) => { exited = true; format!("exit {}", p.exit_code) }
                    Err(_) if gone && started => { exited = true; format!("exit {}", p.exit_code) }
                    Err(_) => "err".into(),
                };
                (format!("{} {c}", t[0]), ans)
            }
            [_, rest @ ..] if matches!(rest.first().copied(), Some("frame" | "bt" | "locals")) => {
                match ctx_command(id, rest, &mut live, base, None, emit) {
                    Some((r, mut ans, _)) => {
                        let set = rest[0] == "frame" && ans != "err";
                        if ecx_out && !set && ans.starts_with("ctx ") {
                            let f: Vec<&str> = ans.split(' ').collect();
                            ans = format!("ctx {} out", f[1]);
                        }
                        if set { ecx_out = false; }
                        (r, ans)
                    }
                    None => (line.clone(), "bad-op".into()),
                }
            }
            _ => (line.clone(), "bad-op".into()),
        };
        if matches!(t.get(1).copied(), Some("start" | "continue" | "stepi" | "step" | "next" | "finish")) { ecx_out = ans == "done out"; }
        let fired = armed && ipose::fault_fired();
        if armed { ipose::disarm_fault(); armed = false; }
        if fired {
            // The command ran with one failing ptrace request. The model has no failure points, so the line is
            // reported as `faulted` on both sides and the session ends; the ORACLE decides: whatever the command
            // answered, no patch other than the user's breakpoints (+ entry) may remain, and the program must still
            // compute what it computes natively.
            ipose::take();
            after_fault = true;
            if started && !exited {
                if let Some(d) = text_diff(&p, live.pid(), base) {
                    let mut want: BTreeSet<u64> = bset.clone();
                    want.insert(p.entry);
                    let got: BTreeSet<u64> = d.keys().copied().collect();
                    // C02 bounds the differences from above ("the only bytes that differ are the user's breakpoints + the documented
                    // internal ones"): a patch that is MISSING after a refused request (a breakpoint that could not be re-armed) is not a
                    // left-over byte; it is counted (`fault.breakpoint-not-rearmed`) but it is not a verdict of this property.
                    let extra: Vec<u64> = got.difference(&want).copied().collect();
                    let missing: Vec<u64> = want.difference(&got).copied().collect();
                    if !missing.is_empty() { emit(format!("!count fault.breakpoint-not-rearmed")); }
                    if !extra.is_empty() {
                        let cmd = t.get(1).copied().unwrap_or("?");
                        let key = format!("temporaries-left-behind-when-{cmd}-fails-midway");
                        oracle(emit, key.as_str(), format!("`{line}` with an injected ptrace failure answered `{ans}`: left-over INT3 at {:x?}, breakpoints no longer patched {:x?}", extra, missing));
                    }
                }
            }
            emit(format!("{} faulted {}\tfaulted", t[0], t[1..].join(" ")));
            continue;
        }
        let obs = observe(&p, base);
        // rewrite step requests with the observed parameters
        let req = match t.get(1).copied() {
            // `out`: the step ended outside the executable (libc / ld.so), which the trace machine does not describe
            Some("step") => format!("{req} {}{}", obs.k_all, if ans == "done out" { " out" } else { "" }),
            Some("stepi") => format!("{req}{}", if ans == "done out" { " out" } else { "" }),
            Some("next") | Some("finish") => format!("{req} {} {}", enc_list(&obs.temps, |a| format!("{a:x}")), obs.k_tail),
            _ => req,
        };
        // ---- oracle: text = ELF image + INT3 exactly at {user breakpoints, entry point}
        if started && !exited {
            if let Some(d) = text_diff(&p, live.pid(), base) {
                let mut want: BTreeSet<u64> = bset.clone();
                want.insert(p.entry);
                let got: BTreeSet<u64> = d.keys().copied().collect();
                let bad: Vec<_> = d.iter().filter(|(_, (_, l))| *l != 0xCC).collect();
                if got != want || !bad.is_empty() {
                    oracle(emit, "text-differs-from-elf-image-elsewhere-than-at-breakpoints",
                        format!("after `{req}`: patched {:x?}, expected {:x?} (user breakpoints + entry), non-INT3 differences {:x?}", got, want, bad));
                }
            }
        }
        emit(format!("{req}\t{ans} p={}", obs.pokes));
    }
    // after an injected ptrace failure only the text is judged (above): the kernel-level state of the debuggee is whatever the
    // refused request left (e.g. a pc that was not rewound), so "computes what it computes natively" is not owed any more
    if after_fault { unsafe { libc::_exit(0) } }
    // ---- oracle: run the program to its end with all user breakpoints removed: output and exit status must be the native ones
    if started && !exited {
        for a in bset.clone() { let _ = live.dbg.remove_breakpoint(Address::Relocated(RelocatedAddress::from(base + a))); }
        match live.dbg.continue_debugee_with_reason() {
            Ok(StopReason::DebugeeExit(code)) => {
                exited = true;
                if code != p.exit_code { oracle(emit, "exit-status-differs-from-native-run", format!("exit status {code}, native {}", p.exit_code)); }
            }
            other => oracle(emit, "program-did-not-run-to-completion-after-removing-all-breakpoints", format!("{:?}", other.map_err(|e| e.to_string()))),
        }
    }
    let got = live.finish();
    if exited && got != p.stdout {
        oracle(emit, "program-output-differs-from-native-run", format!("got {:?} want {:?}", String::from_utf8_lossy(&got), String::from_utf8_lossy(&p.stdout)));
    }
}

pub fn exec(id: &'static str, req: &[String], out: &mut Out, tmpdir: &std::path::Path) {
    let prefix = format!("{id} new ");
    let mut sessions: Vec<Vec<String>> = vec![];
    for l in req {
        if l.starts_with(&prefix) || sessions.is_empty() { sessions.push(vec![]); }
        sessions.last_mut().unwrap().push(l.clone());
    }
    let results = run_sessions(&sessions, tmpdir, id, par_default(), session_timeout(), |s, emit| session(id, s, emit));
    for (i, (s, (lines, how))) in sessions.iter().zip(results).enumerate() {
        let mut pairs: Vec<(String, String)> = vec![];
        for l in lines {
            if let Some(c) = l.strip_prefix("!count ") { out.count(c, 1); continue; }
            if let Some(j) = l.strip_prefix("!oracle ") {
                let v: serde_json::Value = serde_json::from_str(j).unwrap();
                out.oracle_fail(v["key"].as_str().unwrap(), v["what"].as_str().unwrap(), json!({"session": s.iter().map(|l| short(l)).collect::<Vec<_>>(), "detail": v["replay"]}));
            } else if let Some((r, a)) = l.split_once('\t') { pairs.push((r.to_string(), a.to_string())); }
        }
        out.oracle_evals += pairs.len() as u64;
        // a worker that blocks INSIDE the command that ran under the injected failure: not observable, counted, not a verdict
        let fault_at = s.iter().position(|l| l.split(' ').nth(1) == Some("fault"));
        let hung_in_fault = how == "timeout" && fault_at.map_or(false, |f| pairs.len() == f + 1);
        if hung_in_fault {
            out.count("fault.hung-inside-faulted-command", 1);
            let cmd: Vec<&str> = s[fault_at.unwrap() + 1].split(' ').collect();
            pairs.push((format!("{} faulted {}", cmd[0], cmd[1..].join(" ")), "faulted".into()));
        } else if how != "ok" {
            out.oracle_fail("debugger-crashed-or-hung", &format!("worker ended with {how} after {} of {} commands", pairs.len(), s.len()),
                json!({"session": s.iter().map(|l| short(l)).collect::<Vec<_>>()}));
        }
        if i < 3 { out.sample(json!({"session": pairs.iter().map(|(r, a)| format!("{} => {}", short(r), short(a))).collect::<Vec<_>>()})); }
        for (k, l) in s.iter().enumerate() {
            match pairs.get(k) {
                Some((r, a)) => out.pair(r.clone(), a.clone()),
                None => out.pair(l.clone(), format!("worker-{how}")),
            }
        }
    }
}

pub fn run(args: &[String]) {
    let a = parse_args(args);
    let mut out = Out::new(&a.out);
    let req = match &a.replay {
        Some(f) => read_lines(f),
        None => { let mut rng = Rng::new(a.seed); gen_requests(&mut rng, a.n, &mut out, "C02") }
    };
    exec("C02", &req, &mut out, &a.out);
    out.finish();
}
