//! C11: start, restart, exit, quit and detach leave the world in the promised state.
//! One session = one `Debugger` on progs/c11_life, either launched by it or attached to a process that an
//! independent supervisor (double-forked, not a child of the worker) started and whose real wait status it records.
//!   C11 new <launch|attach> <entry> <linker> <e37|a6> <sites addr:threads,..> <bytes addr:byte,..> <skip> <threads>
//!   C11 break|remove|watch|unwatch <gaddr> | start | continue | restart | detach | drop
//! Answer: `<outcome> b=<user breakpoints num:R|G:addr> p=<text pokes> x=<ptrace-boundary summary>` (see Driver/C11.lean).
//! Abstract program: the site sequence and thread counts the program reports about itself in a NATIVE run, ELF
//! symbols and bytes — nothing comes from the debugger under test.
use crate::live::*;
use crate::util::*;
use bugstalker::debugger::address::{Address, RelocatedAddress};
use bugstalker::debugger::process::Child;
use bugstalker::debugger::register::debug::{BreakCondition, BreakSize};
use bugstalker::debugger::variable::value::Value;
use bugstalker::debugger::{Debugger, DebuggerBuilder, EventHook, FunctionInfo, PlaceDescriptor, rust};
use nix::sys::signal::Signal;
use nix::unistd::Pid;
use object::{Object, ObjectSection, ObjectSymbol};
use serde_json::json;
use std::cell::RefCell;
use std::collections::{BTreeMap, BTreeSet};
use std::io::{Read, Write};
use std::path::{Path, PathBuf};
use std::rc::Rc;
use std::sync::{Arc, Mutex};

const PROG: &str = "c11_life-1.89";
/// load base of a PIE under ADDR_NO_RANDOMIZE (what the debugger sets for launched programs; the supervisor of
/// attached programs sets it too, so that relocation is the same constant everywhere; checked against /proc/maps)
const BASE: u64 = 0x5555_5555_4000;
const SITES: &[&str] = &["a", "b", "c", "d"];

pub struct LifeProg { pub prog: Prog, pub site: BTreeMap<String, u64>, pub quiet: u64 }

pub fn load_life() -> LifeProg {
    let path = verif_root().join("progs").join(PROG);
    let file = std::fs::read(&path).unwrap_or_else(|_| panic!("no {PROG}: run tools/build_progs.sh"));
    let obj = object::File::parse(&*file).unwrap();
    let entry = obj.entry();
    let mut text = vec![];
    for s in obj.sections() {
        if s.kind() == object::SectionKind::Text && let Some((off, size)) = s.file_range() { text.push((s.address(), size, off)); }
    }
    let mut site = BTreeMap::new();
    let mut quiet = 0;
    let mut symbols = vec![];
    for s in obj.symbols() {
        let Ok(n) = s.name() else { continue };
        if n == "C11_QUIET_WORD" { quiet = s.address(); }
        if s.kind() == object::SymbolKind::Text && s.size() > 0 {
            symbols.push((s.address(), s.size(), n.to_string()));
            for k in SITES { if n.contains(&format!("8c11_life6site_{k}")) { site.insert(k.to_string(), s.address()); } }
        }
    }
    assert!(site.len() == SITES.len() && quiet != 0, "c11_life symbols not found");
    symbols.sort();
    drop(obj);
    let prog = Prog { name: PROG.into(), path, base: BASE, entry, exit_code: 37, trace: vec![], stdout: vec![], file, text, symbols };
    LifeProg { prog, site, quiet }
}

/// what the program reports about itself in a native run (+ its real wait status)
pub struct Native { pub sites: Vec<(String, u64)>, pub before_gate1: usize, pub stdout: Vec<u8>, pub status: String }

pub fn native(lp: &LifeProg, n: u64, fin: &str) -> Native {
    let o = std::process::Command::new(&lp.prog.path).arg(n.to_string()).arg(fin)
        .stderr(std::process::Stdio::null()).output().expect("native run");
    let mut sites = vec![]; let mut before_gate1 = 0;
    for l in String::from_utf8_lossy(&o.stdout).lines() {
        let t: Vec<&str> = l.split(' ').collect();
        match t.as_slice() {
            ["site", k, th] => sites.push((k.to_string(), th.parse().unwrap())),
            ["gate", "1"] => before_gate1 = sites.len(),
            _ => {}
        }
    }
    use std::os::unix::process::ExitStatusExt;
    let status = match (o.status.code(), o.status.signal()) { (Some(c), _) => format!("exit {c}"), (_, Some(s)) => format!("signal {s}"), _ => "?".into() };
    Native { sites, before_gate1, stdout: o.stdout, status }
}

fn fin_token(fin: &str) -> &'static str { if fin == "a" { "a6" } else { "e37" } }

pub fn new_line(lp: &LifeProg, nat: &Native, attach: bool, fin: &str, gatepos: u64) -> String {
    let mut full: Vec<(u64, u64)> = vec![(lp.prog.entry, 1)];
    for (k, th) in &nat.sites { full.push((lp.site[k], *th)); }
    let addrs: BTreeSet<u64> = full.iter().map(|x| x.0).collect();
    let (skip, n0) = if !attach { (0, 1) } else if gatepos == 0 { (1, 1) } else { (1 + nat.before_gate1, nat.sites[nat.before_gate1].1) };
    format!("C11 new {} {:x} 0 {} {} {} {} {}", if attach { "attach" } else { "launch" }, lp.prog.entry, fin_token(fin),
        enc_list(&full, |x| format!("{:x}:{}", x.0, x.1)),
        enc_list(&addrs.iter().collect::<Vec<_>>(), |a| format!("{:x}:{:x}", a, lp.prog.orig_byte(**a).unwrap_or(0))),
        skip, n0)
}

pub fn gen_requests(rng: &mut Rng, n: u64, out: &mut Out) -> Vec<String> {
    let lp = load_life();
    let mut nats: BTreeMap<(u64, String), Native> = BTreeMap::new();
    let mut req = vec![];
    for _ in 0..n {
        let attach = rng.chance(2, 5);
        let th = rng.below(4);
        let fin = if rng.chance(1, 5) { "a" } else { "e" };
        let gatepos = if attach && th > 0 && rng.chance(1, 2) { 1 } else { 0 };
        let nat = nats.entry((th, fin.to_string())).or_insert_with(|| native(&lp, th, fin));
        req.push(new_line(&lp, nat, attach, fin, gatepos));
        out.count(&format!("session.{}.threads{}.{}", if attach { format!("attach-gate{gatepos}") } else { "launch".into() }, th, if fin == "a" { "abort" } else { "exit" }), 1);
        // every address is used for at most one `break` per session: two registrations of one address make the
        // survivor's NUMBER depend on hash-map iteration order in the implementation (see Props/C11: Distinct)
        let mut fresh: Vec<u64> = SITES.iter().map(|k| lp.site[*k]).collect();
        let mut set: Vec<u64> = vec![];
        let mut watched: Vec<u64> = vec![];
        let brk = |rng: &mut Rng, req: &mut Vec<String>, fresh: &mut Vec<u64>, set: &mut Vec<u64>| {
            if fresh.is_empty() { return; }
            let i = rng.below(fresh.len() as u64) as usize;
            let a = fresh.remove(i); set.push(a); req.push(format!("C11 break {a:x}"));
        };
        if !attach {
            for _ in 0..rng.below(4) {
                match rng.below(6) {
                    0 if !set.is_empty() => { let a = *rng.pick(&set); set.retain(|x| *x != a); req.push(format!("C11 remove {a:x}")); }
                    1 => req.push(format!("C11 watch {:x}", lp.quiet)),
                    2 => req.push("C11 continue".into()),
                    _ => brk(rng, &mut req, &mut fresh, &mut set),
                }
            }
            if rng.chance(1, 10) { req.push("C11 restart".into()); }
            else if rng.chance(5, 6) { req.push("C11 start".into()); }
        }
        if attach {
            // an attached session starts stopped at the gate: most of them get breakpoints / a watchpoint right away
            if rng.chance(5, 6) { for _ in 0..rng.range(1, 3) { brk(rng, &mut req, &mut fresh, &mut set); } }
            if rng.chance(1, 3) { let a = lp.quiet + 8 * rng.below(4); watched.push(a); req.push(format!("C11 watch {a:x}")); }
        }
        for _ in 0..rng.range(0, 7) {
            match rng.below(20) {
                0..=8 => req.push("C11 continue".into()),
                9..=12 => brk(rng, &mut req, &mut fresh, &mut set),
                13 if !set.is_empty() => { let a = *rng.pick(&set); set.retain(|x| *x != a); req.push(format!("C11 remove {a:x}")); }
                14 | 15 => { let a = lp.quiet + 8 * rng.below(4); if !watched.contains(&a) { watched.push(a); } req.push(format!("C11 watch {a:x}")); }
                16 if !watched.is_empty() => { let a = *rng.pick(&watched); watched.retain(|x| *x != a); req.push(format!("C11 unwatch {a:x}")); }
                17 | 18 => req.push("C11 restart".into()),
                _ => req.push("C11 start".into()),
            }
        }
        match rng.below(20) {
            0..=8 => {}
            9..=14 => req.push("C11 detach".into()),
            _ => { req.push("C11 restart".into()); if rng.chance(1, 2) { req.push("C11 continue".into()); } }
        }
        req.push("C11 drop".into());
    }
    for l in &req { out.count(&format!("op.{}", l.split(' ').nth(1).unwrap()), 1); }
    req
}

// ------------------------------------------------------------------------------------------------ worker side
struct Hook { ev: Rc<RefCell<Vec<String>>>, pids: Rc<RefCell<Vec<i32>>> }
impl EventHook for Hook {
    fn on_breakpoint(&self, pc: RelocatedAddress, num: u32, _: Option<PlaceDescriptor>, _: Option<&FunctionInfo>, _: Option<u32>) -> anyhow::Result<()> {
        self.ev.borrow_mut().push(format!("stop {:x} {num}", u64::from(pc).wrapping_sub(BASE))); Ok(())
    }
    fn on_watchpoint(&self, _: RelocatedAddress, num: u32, _: Option<PlaceDescriptor>, _: BreakCondition, _: Option<&str>, _: Option<&Value>, _: Option<&Value>, _: bool) -> anyhow::Result<()> {
        self.ev.borrow_mut().push(format!("wp {num}")); Ok(())
    }
    fn on_step(&self, _: RelocatedAddress, _: Option<PlaceDescriptor>, _: Option<&FunctionInfo>, _: Option<u32>) -> anyhow::Result<()> { Ok(()) }
    fn on_async_step(&self, _: RelocatedAddress, _: Option<PlaceDescriptor>, _: Option<&FunctionInfo>, _: u64, _: bool) -> anyhow::Result<()> { Ok(()) }
    fn on_signal(&self, s: Signal) { self.ev.borrow_mut().push(format!("sig {}", s as i32)); }
    fn on_exit(&self, code: i32) { self.ev.borrow_mut().push(format!("exit {code}")); }
    fn on_process_install(&self, pid: Pid, _: Option<&object::File>) { self.pids.borrow_mut().push(pid.as_raw()); }
}

fn proc_status(pid: i32, tid: i32) -> Option<(char, i32)> {
    let s = std::fs::read_to_string(format!("/proc/{pid}/task/{tid}/status")).ok()?;
    let mut st = '?'; let mut tr = -1;
    for l in s.lines() {
        if let Some(r) = l.strip_prefix("State:") { st = r.trim().chars().next().unwrap_or('?'); }
        if let Some(r) = l.strip_prefix("TracerPid:") { tr = r.trim().parse().unwrap_or(-1); }
    }
    Some((st, tr))
}
fn tasks(pid: i32) -> Vec<i32> {
    let mut v: Vec<i32> = std::fs::read_dir(format!("/proc/{pid}/task")).map(|d| d.filter_map(|e| e.ok()?.file_name().to_str()?.parse().ok()).collect()).unwrap_or_default();
    v.sort(); v
}
/// live (non-zombie) tasks
fn live_tasks(pid: i32) -> Vec<i32> { tasks(pid).into_iter().filter(|t| matches!(proc_status(pid, *t), Some((s, _)) if s != 'Z' && s != 'X')).collect() }

/// bytes of every executable file-backed mapping that differ from the file: (path, address, file byte, live byte)
fn exec_maps_diff(pid: i32) -> Option<Vec<(String, u64, u8, u8)>> {
    let mut d = vec![];
    let maps = std::fs::read_to_string(format!("/proc/{pid}/maps")).ok()?;
    for l in maps.lines() {
        let t: Vec<&str> = l.split_whitespace().collect();
        if t.len() < 6 || !t[1].contains('x') || !t[5].starts_with('/') { continue; }
        let (a, b) = t[0].split_once('-')?;
        let (a, b) = (u64::from_str_radix(a, 16).ok()?, u64::from_str_radix(b, 16).ok()?);
        let off = u64::from_str_radix(t[2], 16).ok()?;
        let Ok(file) = std::fs::read(t[5]) else { continue };
        let live = proc_mem(pid, a, (b - a) as usize)?;
        for i in 0..(b - a) {
            let Some(fb) = file.get((off + i) as usize) else { break };
            if *fb != live[i as usize] { d.push((t[5].to_string(), a + i, *fb, live[i as usize])); if d.len() > 16 { return Some(d); } }
        }
    }
    Some(d)
}

/// DR7 of every thread, read by the harness itself through its own ptrace attachment
fn peek_dr7_all(pid: i32) -> Vec<(i32, Result<u64, i32>)> {
    let off = std::mem::offset_of!(libc::user, u_debugreg) + 8 * 7;
    live_tasks(pid).into_iter().map(|tid| unsafe {
        if libc::ptrace(libc::PTRACE_SEIZE, tid, 0, 0) != 0 { return (tid, Err(*libc::__errno_location())); }
        libc::ptrace(libc::PTRACE_INTERRUPT, tid, 0, 0);
        let mut st = 0;
        libc::waitpid(tid, &mut st, libc::__WALL);
        *libc::__errno_location() = 0;
        let v = libc::ptrace(libc::PTRACE_PEEKUSER, tid, off, 0);
        let e = *libc::__errno_location();
        libc::ptrace(libc::PTRACE_DETACH, tid, 0, 0);
        (tid, if e == 0 { Ok(v as u64) } else { Err(e) })
    }).collect()
}

/// an independent supervisor (grandchild re-parented away from the worker) starts the program, reports its pid
/// and later its REAL wait status into `result`
fn spawn_external(path: &Path, args: &[String], out_file: &Path, result: &Path) -> i32 {
    let (mut r, mut w) = os_pipe::pipe().unwrap();
    let a = unsafe { libc::fork() };
    if a == 0 {
        if unsafe { libc::fork() } == 0 {
            drop(r);
            unsafe { libc::personality(libc::ADDR_NO_RANDOMIZE as u64) };
            let out = std::fs::File::create(out_file).unwrap();
            let mut child = std::process::Command::new(path).args(args).stdin(std::process::Stdio::null())
                .stdout(out).stderr(std::process::Stdio::null()).spawn().unwrap();
            writeln!(w, "{}", child.id()).unwrap(); drop(w);
            use std::os::unix::process::ExitStatusExt;
            let st = child.wait().unwrap();
            let s = match (st.code(), st.signal()) { (Some(c), _) => format!("exit {c}"), (_, Some(s)) => format!("signal {s}"), _ => "?".into() };
            let tmp = result.with_extension("tmp");
            std::fs::write(&tmp, s).unwrap(); std::fs::rename(&tmp, result).unwrap();
        }
        unsafe { libc::_exit(0) };
    }
    drop(w);
    let mut st = 0; unsafe { libc::waitpid(a, &mut st, 0) };
    let mut s = String::new(); r.read_to_string(&mut s).unwrap();
    s.trim().parse().unwrap()
}

fn wait_for(ms: u64, mut f: impl FnMut() -> bool) -> bool {
    let t = std::time::Instant::now();
    loop {
        if f() { return true; }
        if t.elapsed().as_millis() as u64 > ms { return false; }
        std::thread::sleep(std::time::Duration::from_millis(2));
    }
}

struct Sess<'a> {
    lp: &'a LifeProg, nat: &'a Native, attach: bool, fin: String,
    emit: &'a mut dyn FnMut(String), hist: Vec<String>,
}
impl Sess<'_> {
    fn fail(&mut self, key: &str, what: String) {
        (self.emit)(format!("!oracle {}", json!({"key": key, "what": what, "replay": {"history": self.hist}})));
    }
    fn stat(&mut self, k: String) { (self.emit)(format!("!stat {k}")); }
}

fn session(lines: &[String], tmpdir: &Path, emit: &mut dyn FnMut(String)) {
    let t: Vec<&str> = lines[0].split(' ').collect();
    if t.len() != 10 || t[1] != "new" { emit("bad-op".into()); return; }
    let attach = t[2] == "attach";
    let fin = if t[5].starts_with('a') { "a" } else { "e" };
    let lp = load_life();
    let th: u64 = dec_list(t[6], |x| x.split_once(':').unwrap().1.parse::<u64>().unwrap()).into_iter().max().unwrap_or(1) - 1;
    let nat = native(&lp, th, fin);
    let gatepos: u64 = if t[8] == "1" || t[8] == "0" { 0 } else { 1 };
    if lines[0] != new_line(&lp, &nat, attach, fin, gatepos) { emit("stale-program".into()); return; }
    unsafe { let rl = libc::rlimit { rlim_cur: 0, rlim_max: 0 }; libc::setrlimit(libc::RLIMIT_CORE, &rl); }
    let me = std::process::id();
    let gate = tmpdir.join(format!("c11-gate-{me}"));
    let pause = PathBuf::from(format!("{}.pause", gate.display()));
    let ext_out = tmpdir.join(format!("c11-ext-out-{me}"));
    let ext_res = tmpdir.join(format!("c11-ext-res-{me}"));
    for f in [&gate, &pause, &ext_out, &ext_res] { let _ = std::fs::remove_file(f); }
    // attached: the program is started (and waited for) by the supervisor BEFORE this process gets any thread
    let mut ext_pid = 0;
    if attach {
        let args = vec![th.to_string(), fin.to_string(), gatepos.to_string(), gate.display().to_string()];
        ext_pid = spawn_external(&lp.prog.path, &args, &ext_out, &ext_res);
        let want_threads = if gatepos == 0 { 1 } else { th as usize + 1 };
        let at_gate = wait_for(8000, || {
            std::fs::read_to_string(&ext_out).map(|s| s.lines().any(|l| l == format!("gate {gatepos}"))).unwrap_or(false) && live_tasks(ext_pid).len() == want_threads
        });
        if !at_gate { emit("attach-target-not-ready".into()); unsafe { libc::kill(ext_pid, libc::SIGKILL) }; return; }
    }
    let (mut reader, writer) = os_pipe::pipe().unwrap();
    let output = Arc::new(Mutex::new(Vec::new()));
    let o2 = output.clone();
    let rd = std::thread::spawn(move || { let mut buf = [0u8; 4096]; loop { match reader.read(&mut buf) { Ok(0) | Err(_) => return, Ok(n) => o2.lock().unwrap().extend_from_slice(&buf[..n]) } } });
    let t00 = std::time::Instant::now();
    rust::Environment::init(None);
    if std::env::var("VERIF_C11_TIMING").is_ok() { eprintln!("c11-timing env-init {} ms", t00.elapsed().as_millis()); }
    let ev = Rc::new(RefCell::new(vec![]));
    let pids = Rc::new(RefCell::new(vec![]));
    let hook = Hook { ev: ev.clone(), pids: pids.clone() };
    let built = std::panic::catch_unwind(std::panic::AssertUnwindSafe(|| -> anyhow::Result<Debugger> {
        if attach {
            Ok(DebuggerBuilder::new().with_hooks(hook).build_attached(Pid::from_raw(ext_pid), writer.try_clone()?, writer)?)
        } else {
            let runner = Child::new(lp.prog.path.to_str().unwrap(), vec![th.to_string(), fin.to_string()], None::<&Path>, writer.try_clone()?, writer);
            Ok(DebuggerBuilder::new().with_hooks(hook).build(runner.install()?)?)
        }
    }));
    let mut dbg: Option<Debugger> = match built {
        Ok(Ok(d)) => Some(d),
        Ok(Err(e)) => { emit(format!("build-failed {e}").replace(' ', "_")); if attach { unsafe { libc::kill(ext_pid, libc::SIGKILL) }; } return; }
        Err(_) => { emit("build-panicked".into()); if attach { unsafe { libc::kill(ext_pid, libc::SIGKILL) }; } return; }
    };
    if attach { std::fs::write(&gate, b"go").unwrap(); }
    if std::env::var("VERIF_C11_TIMING").is_ok() { eprintln!("c11-timing build {} ms", t00.elapsed().as_millis()); }
    emit("ok".into());
    ipose::enable();
    let mut s = Sess { lp: &lp, nat: &nat, attach, fin: fin.to_string(), emit, hist: vec![] };

    // ---- the specification's own view of the session (independent of the debugger's bookkeeping)
    let full: Vec<(u64, u64)> = std::iter::once((lp.prog.entry, 1)).chain(nat.sites.iter().map(|(k, th)| (lp.site[k], *th))).collect();
    let mut bset: BTreeSet<u64> = BTreeSet::new();       // user breakpoints
    let mut pos: usize = if !attach { 0 } else if gatepos == 0 { 0 } else { nat.before_gate1 }; // index in `full` of the last site passed
    #[derive(PartialEq, Clone, Copy, Debug)] enum Ph { NotStarted, Stopped, SigStop, Ended }
    let mut ph = if attach { Ph::Stopped } else { Ph::NotStarted };
    let mut cur_pid: i32 = dbg.as_ref().unwrap().process().pid().as_raw();
    let mut cur_external = attach;
    let mut generation = 0u32;
    let mut ext_killed_by_restart = false;
    let mut prev_gen_died_by_signal = false;
    let mut detached = false;
    let mut launched: Vec<i32> = if attach { vec![] } else { vec![cur_pid] };
    let mut reported_end: Option<String> = None;   // what the debugger said about the end of the CURRENT process
    let mut real_end: Option<String> = None;
    let mut dr_last: std::collections::HashMap<i32, u64> = Default::default();        // kernel wait status of the current process as seen at the boundary

    for line in &lines[1..] {
        let t: Vec<&str> = line.split(' ').collect();
        s.hist.push(line.clone());
        if dbg.is_none() { (s.emit)("gone b=- p=- x=q0;s0;d0;c0;r-;w-".into()); continue; }
        if detached && t[1] != "drop" { (s.emit)(format!("gone b={} p=- x=q0;s0;d0;c0;r-;w-", snapshot(dbg.as_ref().unwrap()))); continue; }
        ipose::take(); ev.borrow_mut().clear();
        let pre_pid = cur_pid;
        let t0 = std::time::Instant::now();
        let is_run = matches!(t[1], "start" | "continue" | "restart");
        let state_name = format!("{}{}", match ph { Ph::NotStarted => "not-started", Ph::Stopped => "stopped", Ph::SigStop => "signal-stop", Ph::Ended => "ended" },
            if ph == Ph::Stopped || ph == Ph::SigStop { format!("-threads{}", live_tasks(cur_pid).len().min(4)) } else { String::new() });
        if matches!(t[1], "restart" | "detach" | "drop") {
            s.stat(format!("final.{}.{}.{}", t[1], if cur_external { "attached" } else { "launched" }, state_name));
        }
        // attached process about to be released: park it at its next pace point so that it can be examined
        if matches!(t[1], "detach" | "drop") && cur_external && !detached { std::fs::write(&pause, b"p").unwrap(); }
        let d = dbg.as_mut().unwrap();
        let res: Result<String, ()> = std::panic::catch_unwind(std::panic::AssertUnwindSafe(|| match t.as_slice() {
            ["C11", "break", a] => { let a = u64::from_str_radix(a, 16).unwrap();
                match d.set_breakpoint_at_addr(RelocatedAddress::from(BASE + a)) { Ok(_) => "ok".into(), Err(_) => "err".into() } }
            ["C11", "remove", a] => { let a = u64::from_str_radix(a, 16).unwrap();
                match d.remove_breakpoint(Address::Relocated(RelocatedAddress::from(BASE + a))) { Ok(Some(_)) => "ok".into(), Ok(None) => "none".into(), Err(_) => "err".into() } }
            ["C11", "watch", a] => { let a = u64::from_str_radix(a, 16).unwrap();
                match d.set_watchpoint_on_memory(RelocatedAddress::from(BASE + a), BreakSize::Bytes8, BreakCondition::DataWrites, false) { Ok(_) => "ok".into(), Err(_) => "err".into() } }
            ["C11", "unwatch", a] => { let a = u64::from_str_radix(a, 16).unwrap();
                match d.remove_watchpoint_by_addr(RelocatedAddress::from(BASE + a)) { Ok(Some(_)) => "ok".into(), Ok(None) => "none".into(), Err(_) => "err".into() } }
            ["C11", "start"] => run_answer(d.start_debugee_with_reason().map(|_| ()), &ev),
            ["C11", "continue"] => run_answer(d.continue_debugee_with_reason().map(|_| ()), &ev),
            ["C11", "restart"] => run_answer(d.restart_debugee().map(|_| ()), &ev),
            ["C11", "detach"] => match d.detach() { Ok(()) => "ok".into(), Err(_) => "err".into() },
            ["C11", "drop"] => "drop".into(),
            _ => "bad-op".into(),
        })).map_err(|_| ());
        let mut ans = match res { Ok(a) => a, Err(()) => "panic".to_string() };
        if ans == "drop" {
            let dd = dbg.take().unwrap();
            ans = match std::panic::catch_unwind(std::panic::AssertUnwindSafe(move || drop(dd))) { Ok(()) => "ok".into(), Err(_) => "panic".into() };
        }
        if std::env::var("VERIF_C11_TIMING").is_ok() { eprintln!("c11-timing {} {} ms", t[1], t0.elapsed().as_millis()); }
        if t[1] == "detach" && ans == "ok" { detached = true; }
        if let Some(d) = dbg.as_ref() { cur_pid = d.process().pid().as_raw(); }
        let restarted = cur_pid != pre_pid;
        if restarted { launched.push(cur_pid); }
        let log = boundary(&lp.prog, &[pre_pid, cur_pid], &mut dr_last);
        let snap = dbg.as_ref().map(snapshot).unwrap_or("-".into());
        // real wait status of the processes, as the kernel reported it to the debugger
        let prev_end = real_end.clone();
        if restarted { real_end = None; }
        for w in &log.waits { if w.0 == cur_pid { real_end = Some(w.1.clone()); } }

        // ---------------------------------------------------------------- oracle: projection / exit status
        if matches!(t[1], "break") && ans == "ok" { bset.insert(u64::from_str_radix(t[2], 16).unwrap()); }
        if matches!(t[1], "remove") && ans == "ok" { bset.remove(&u64::from_str_radix(t[2], 16).unwrap()); }
        if is_run {
            let legal = match t[1] { "start" => ph == Ph::NotStarted, "continue" => ph == Ph::Stopped || ph == Ph::SigStop, _ => true };
            if t[1] == "restart" {
                prev_gen_died_by_signal = ph == Ph::Ended && prev_end.as_deref().map(|e| e.starts_with('S')).unwrap_or(false);
                if cur_external && ph != Ph::Ended { ext_killed_by_restart = true; }
                generation += 1; pos = 0; ph = Ph::NotStarted; cur_external = false; reported_end = None;
                if !restarted { s.fail("restart-did-not-create-a-process", format!("{line}: process id unchanged ({pre_pid})")); }
            }
            if legal {
                let from = if ph == Ph::NotStarted { 0 } else { pos + 1 };
                let want = if ph == Ph::SigStop { None } else { (from..full.len()).find(|j| bset.contains(&full[*j].0)) };
                let want_s = match want {
                    Some(j) => format!("stop {:x}", full[j].0),
                    None if s.fin == "e" => "exit 37".to_string(),
                    None if ph == Ph::SigStop => "killed-by-signal 6".to_string(),
                    None => "sig 6".to_string(),
                };
                let got = if ans.starts_with("stop ") { ans.rsplit_once(' ').unwrap().0.to_string() } else { ans.clone() };
                if got != want_s {
                    let key = if want_s == "killed-by-signal 6" { "death-by-signal-not-reported" }
                        else if generation > 0 && prev_gen_died_by_signal { "restart-after-death-by-signal-is-not-a-fresh-start" }
                        else if generation > 0 && want.is_some() && !ans.starts_with("stop") { "user-breakpoint-not-hit-after-restart" }
                        else { "stop-is-not-the-projection-of-the-execution" };
                    s.fail(key, format!("{line}: debugger reports `{ans}`; the program's own site sequence restricted to the user breakpoints {:x?} says `{want_s}` (from site {from}, generation {generation})", bset));
                }
                match want {
                    Some(j) => { pos = j; ph = Ph::Stopped; }
                    None if s.fin == "e" => { ph = Ph::Ended; reported_end = Some(ans.clone()); }
                    None if ph == Ph::SigStop => { ph = Ph::Ended; reported_end = Some(ans.clone()); }
                    None => { ph = Ph::SigStop; pos = full.len(); }
                }
                // exit code: reported == kernel wait status == native status
                if ph == Ph::Ended && s.fin == "e" {
                    let real = real_end.clone().unwrap_or("?".into());
                    if real != "E37" || s.nat.status != "exit 37" || ans != "exit 37" {
                        s.fail("reported-exit-code-differs-from-real-status", format!("{line}: reported `{ans}`, waitpid saw `{real}`, native run `{}`", s.nat.status));
                    }
                }
            } else if ans != "err" && t[1] != "restart" {
                s.fail("run-command-accepted-in-wrong-state", format!("{line} answered {ans} in phase {ph:?}"));
            }
        }
        // ---------------------------------------------------------------- oracle: text while stopped
        if dbg.is_some() && !detached && ph == Ph::Stopped && let Some(dmap) = text_diff(&lp.prog, cur_pid, BASE) {
            let mut want: BTreeSet<u64> = bset.clone();
            if generation > 0 || !attach { want.insert(lp.prog.entry); }
            let got: BTreeSet<u64> = dmap.keys().copied().collect();
            if got != want || dmap.values().any(|(_, l)| *l != 0xCC) {
                let key = if generation > 0 && prev_gen_died_by_signal { "restart-after-death-by-signal-is-not-a-fresh-start" } else { "text-differs-from-elf-image-elsewhere-than-at-breakpoints" };
                s.fail(key, format!("after `{line}`: patched {:x?}, expected {:x?}", got, want));
            }
        }
        if (matches!(t[1], "detach") && ans == "ok") || t[1] == "drop" {
            teardown_oracle(&mut s, &state_name, t[1], &ans, cur_pid, cur_external, ph == Ph::Ended, &launched, detached, &pause, &ext_out, &ext_res, ext_pid);
        }
        // a generation created on top of a registry left over by a death by signal: what its clean-up pokes depends on
        // hash-map iteration order (disable_all_breakpoints returns at the first address it cannot map): not compared
        if generation > 0 && prev_gen_died_by_signal { (s.emit)(format!("{ans} b=* p=* x=*")); }
        else { (s.emit)(format!("{ans} b={snap} {}", log.text)); }
    }
    // a history that does not end with `drop` (shrunk replays): drop now, same oracle, no model line
    if let Some(dd) = dbg.take() {
        if cur_external && !detached { std::fs::write(&pause, b"p").unwrap(); }
        let ans = match std::panic::catch_unwind(std::panic::AssertUnwindSafe(move || drop(dd))) { Ok(()) => "ok", Err(_) => "panic" };
        s.hist.push("(implicit drop)".into());
        teardown_oracle(&mut s, "implicit", "drop", ans, cur_pid, cur_external, ph == Ph::Ended, &launched, detached, &pause, &ext_out, &ext_res, ext_pid);
    }
    let _ = reported_end;
    // ---- end of session: the external program's real status, its output; clean up
    let _ = std::fs::remove_file(&pause);
    if attach {
        let done = wait_for(6000, || ext_res.exists());
        let real = std::fs::read_to_string(&ext_res).unwrap_or_default();
        let restarted_ext = ext_killed_by_restart;
        let want = if restarted_ext { "signal 9".to_string() } else { nat.status.clone() };
        if !done { s.fail("attached-process-does-not-finish-after-release", format!("no wait status from the supervisor of pid {ext_pid} within 6 s; tasks {:?}", tasks(ext_pid).iter().map(|t| proc_status(ext_pid, *t)).collect::<Vec<_>>())); unsafe { libc::kill(ext_pid, libc::SIGKILL) }; }
        else if real != want { s.fail("attached-process-real-exit-status-differs", format!("supervisor saw `{real}`, expected `{want}`")); }
        else if !restarted_ext {
            let out: Vec<u8> = std::fs::read(&ext_out).unwrap_or_default();
            let got: Vec<&[u8]> = out.split(|b| *b == b'\n').filter(|l| *l != b"paused").collect();
            let want: Vec<&[u8]> = nat.stdout.split(|b| *b == b'\n').collect();
            if got != want { s.fail("attached-process-output-differs-from-native-run", format!("got {:?}", String::from_utf8_lossy(&out))); }
        }
    }
    for p in &launched { unsafe { libc::kill(*p, libc::SIGKILL); let mut st = 0; libc::waitpid(*p, &mut st, libc::WNOHANG); } }
    for f in [&gate, &pause, &ext_out, &ext_res] { let _ = std::fs::remove_file(f); }
    drop(rd); let _ = output;
}

fn run_answer(r: Result<(), bugstalker::debugger::Error>, ev: &Rc<RefCell<Vec<String>>>) -> String {
    if r.is_err() { return "err".into(); }
    ev.borrow().iter().rev().find(|e| e.starts_with("stop ") || e.starts_with("exit ") || e.starts_with("sig ")).cloned().unwrap_or("other".into())
}

fn snapshot(d: &Debugger) -> String {
    let v: Vec<String> = d.breakpoints_snapshot().iter().map(|b| match b.addr {
        Address::Relocated(r) => format!("{}:R:{:x}", b.number, u64::from(r).wrapping_sub(BASE)),
        Address::Global(g) => format!("{}:G:{:x}", b.number, u64::from(g)),
    }).collect();
    enc_list(&v, |x| x.clone())
}

struct Boundary { text: String, waits: Vec<(i32, String)> }
/// canonical summary of what crossed the ptrace/waitpid boundary during the command
/// (`dr_last`: last DR7 value written per thread — only writes that change it are kept: every single step writes the image back)
fn boundary(p: &Prog, main_pids: &[i32], dr_last: &mut std::collections::HashMap<i32, u64>) -> Boundary {
    let dr7 = (std::mem::offset_of!(libc::user, u_debugreg) + 8 * 7) as u64;
    let (mut pokes, mut q, mut sz, mut d, mut c, mut r, mut w, mut waits) = (vec![], 0, 0, 0, 0, vec![], vec![], vec![]);
    for e in ipose::take() {
        match e {
            ipose::Ev::Ptrace { req, pid, addr, data, ret, .. } => {
                if (req == libc::PTRACE_POKEDATA || req == libc::PTRACE_POKETEXT) && ret == 0 {
                    if addr >= BASE && p.in_text(addr - BASE) { pokes.push((addr - BASE, data & 0xff)); } else { q += 1; }
                } else if req == libc::PTRACE_SEIZE && ret == 0 { sz += 1; }
                else if req == libc::PTRACE_DETACH && ret == 0 { d += 1; }
                else if req == libc::PTRACE_CONT && ret == 0 && data == libc::SIGSTOP as u64 { c += 1; }
                else if req == libc::PTRACE_POKEUSER && ret == 0 && addr == dr7 {
                    let last = dr_last.insert(pid, data & 0xff).unwrap_or(0);
                    if last != data & 0xff { r.push((data & 0xff).to_string()); }
                }
            }
            ipose::Ev::Wait { ret, status, .. } => {
                if ret > 0 && main_pids.contains(&ret) {
                    let tok = if libc::WIFSIGNALED(status) { let g = libc::WTERMSIG(status); if g == libc::SIGKILL { "K".to_string() } else { format!("S{g}") } }
                        else if libc::WIFEXITED(status) { format!("E{}", libc::WEXITSTATUS(status)) } else { continue };
                    w.push(tok.clone()); waits.push((ret, tok));
                }
            }
        }
    }
    pokes.sort_by_key(|x| x.0);
    let dots = |l: &Vec<String>| if l.is_empty() { "-".to_string() } else { l.join(".") };
    Boundary { text: format!("p={} x=q{q};s{sz};d{d};c{c};r{};w{}", enc_list(&pokes, |x| format!("{:x}:{:x}", x.0, x.1)), dots(&r), dots(&w)), waits }
}

/// the promised state of the world after `detach` / `drop`
#[allow(clippy::too_many_arguments)]
fn teardown_oracle(s: &mut Sess, pre_state: &str, cmd: &str, ans: &str, cur_pid: i32, cur_external: bool, ended: bool, launched: &[i32], detached_before: bool,
                   pause: &Path, ext_out: &Path, _ext_res: &Path, _ext_pid: i32) {
    if ans == "panic" { s.fail(&format!("{cmd}-panics"), format!("`{cmd}` panicked (process {cur_pid}, {})", if cur_external { "attached" } else { "launched" })); }
    let released_alive = cmd == "detach" || (cmd == "drop" && (cur_external || detached_before));
    // 1. launched programs: nothing may be left behind by a quit (unless the user detached from it on purpose)
    for p in launched {
        if *p == cur_pid && released_alive { continue; }
        // gone at once, or (the kernel needs the dying task to be scheduled) a moment later; a zombie counts as left behind
        let gone = wait_for(1500, || !Path::new(&format!("/proc/{p}")).exists() || proc_status(*p, *p).map(|x| x.0 == 'Z').unwrap_or(true))
            && !Path::new(&format!("/proc/{p}")).exists();
        if !gone {
            let st = proc_status(*p, *p).map(|x| x.0).unwrap_or('?');
            let why = if st == 'Z' { "killed but not collected (zombie)".to_string() } else { format!("state {st}") };
            let key = if pre_state == "not-started" { "launched-process-left-behind:not-started" } else { "launched-process-left-behind" };
            s.fail(key, format!("after `{cmd}` in state {pre_state}: launched process {p} still exists, {why}"));
        }
    }
    if cmd == "drop" && detached_before { return; } // examined at the detach
    if !released_alive || ended { return; }
    if !cur_external {
        // detach from a launched program: it must be free (untraced, original text) and run to its native end
        for t in tasks(cur_pid) { if let Some((_, tr)) = proc_status(cur_pid, t) && tr != 0 { s.fail("released-process-still-traced", format!("task {t} of launched {cur_pid} has TracerPid {tr} after `{cmd}`")); } }
        let mut st = 0;
        let fin = wait_for(12000, || unsafe { libc::waitpid(cur_pid, &mut st, libc::WNOHANG) } == cur_pid);
        if !fin { s.fail("released-process-does-not-run", format!("launched {cur_pid} did not finish within 12 s after `{cmd}`; state {:?}", proc_status(cur_pid, cur_pid))); return; }
        let real = if libc::WIFEXITED(st) { format!("exit {}", libc::WEXITSTATUS(st)) } else { format!("signal {}", libc::WTERMSIG(st)) };
        if real != s.nat.status { s.fail("released-process-real-exit-status-differs", format!("launched {cur_pid} ended with `{real}` after `{cmd}`, native `{}`", s.nat.status)); }
        return;
    }
    // an aborting program released in the signal stop of its SIGABRT dies by its own second raise: nothing to examine
    if s.fin == "a" && pre_state.starts_with("signal-stop") { let _ = std::fs::remove_file(pause); return; }
    // 2. attached program: alive, untraced, running (reaches its next pace point), original code, no hardware breakpoints
    if !Path::new(&format!("/proc/{cur_pid}")).exists() { s.fail("attached-process-killed", format!("after `{cmd}` the attached process {cur_pid} is gone")); return; }
    for t in tasks(cur_pid) { if let Some((_, tr)) = proc_status(cur_pid, t) && tr != 0 { s.fail("released-process-still-traced", format!("task {t} of {cur_pid} has TracerPid {tr} after `{cmd}`")); return; } }
    let parked = wait_for(5000, || std::fs::read_to_string(ext_out).map(|o| o.lines().any(|l| l == "paused")).unwrap_or(false) || !Path::new(&format!("/proc/{cur_pid}/task")).exists());
    let sts: Vec<_> = tasks(cur_pid).iter().map(|t| proc_status(cur_pid, *t)).collect();
    if !parked { s.fail("attached-process-not-running-after-release", format!("after `{cmd}` process {cur_pid} made no progress within 5 s; task states {sts:?}")); }
    if sts.iter().flatten().any(|(st, _)| *st == 't' || *st == 'T') { s.fail("attached-process-left-stopped", format!("after `{cmd}`: task states {sts:?}")); }
    if live_tasks(cur_pid).is_empty() { let _ = std::fs::remove_file(pause); return; } // died on its own way (abort)
    if let Some(d) = text_diff(&s.lp.prog, cur_pid, BASE) && !d.is_empty() { s.fail("patch-left-in-released-process", format!("after `{cmd}` the text of {cur_pid} differs from the ELF file at {:x?}", d)); }
    if let Some(d) = exec_maps_diff(cur_pid) && !d.is_empty() { s.fail("patch-left-in-released-process:library", format!("after `{cmd}`: {:x?}", d)); }
    for (tid, v) in peek_dr7_all(cur_pid) {
        match v {
            // enable bits L0..G3; the RW/LEN fields of a disabled slot are inert (C14 looks at them)
            Ok(v) if v & 0xff == 0 => {}
            Ok(v) => s.fail("hardware-breakpoint-left-in-released-process", format!("after `{cmd}`: thread {tid} of {cur_pid} has DR7 = {v:#x}")),
            Err(e) => s.fail("released-process-cannot-be-examined", format!("ptrace of thread {tid} failed, errno {e}")),
        }
    }
    s.stat(format!("released.examined.threads{}", live_tasks(cur_pid).len().min(4)));
    let _ = std::fs::remove_file(pause);
}

/// corpus files are written symbolically (independent of the addresses of this build of the debuggee):
/// `C11 new <launch|attach> @ <threads> <e|a> <gatepos>` and `@a @b @c @d` (sites), `@q0..@q3` (quiet words)
fn expand(req: &[String]) -> Vec<String> {
    if !req.iter().any(|l| l.contains('@')) { return req.to_vec(); }
    let lp = load_life();
    req.iter().map(|l| {
        let t: Vec<&str> = l.split(' ').collect();
        if t.len() == 7 && t[1] == "new" && t[3] == "@" {
            let nat = native(&lp, t[4].parse().unwrap_or(0), t[5]);
            return new_line(&lp, &nat, t[2] == "attach", t[5], t[6].parse().unwrap_or(0));
        }
        t.iter().map(|x| match x.strip_prefix('@') {
            Some(k) if lp.site.contains_key(k) => format!("{:x}", lp.site[k]),
            Some(k) if k.len() == 2 && k.starts_with('q') => format!("{:x}", lp.quiet + 8 * (k.as_bytes()[1] - b'0') as u64),
            _ => x.to_string(),
        }).collect::<Vec<_>>().join(" ")
    }).collect()
}

pub fn exec(req: &[String], out: &mut Out, tmpdir: &Path) {
    let req = &expand(req)[..];
    let mut sessions: Vec<Vec<String>> = vec![];
    for l in req {
        if l.starts_with("C11 new ") || sessions.is_empty() { sessions.push(vec![]); }
        sessions.last_mut().unwrap().push(l.clone());
    }
    let par = std::env::var("VERIF_PAR").ok().and_then(|v| v.parse().ok()).unwrap_or(4usize).min(4);
    let td = tmpdir.to_path_buf();
    let results = run_sessions(&sessions, tmpdir, "c11", par, session_timeout().max(240), |s, emit| session(s, &td, emit));
    for (i, (s, (lines, how))) in sessions.iter().zip(results).enumerate() {
        let mut answers: Vec<String> = vec![];
        for l in lines {
            if let Some(j) = l.strip_prefix("!oracle ") {
                let v: serde_json::Value = serde_json::from_str(j).unwrap();
                out.oracle_fail(v["key"].as_str().unwrap(), v["what"].as_str().unwrap(), json!({"session": s.iter().map(|l| short(l)).collect::<Vec<_>>(), "detail": v["replay"]}));
            } else if let Some(k) = l.strip_prefix("!stat ") { out.count(k, 1); }
            else { answers.push(l); }
        }
        out.oracle_evals += answers.len() as u64;
        if how != "ok" {
            out.oracle_fail("debugger-crashed-or-hung", &format!("worker ended with {how} after {} of {} commands", answers.len(), s.len()),
                json!({"session": s.iter().map(|l| short(l)).collect::<Vec<_>>()}));
        }
        if i < 4 { out.sample(json!({"session": s.iter().map(|l| short(l)).collect::<Vec<_>>(), "answers": answers})); }
        for (k, l) in s.iter().enumerate() {
            out.pair(l.clone(), answers.get(k).cloned().unwrap_or_else(|| format!("worker-{how}")));
        }
    }
}

pub fn short(l: &str) -> String { if l.len() > 160 { format!("{}…", &l[..160]) } else { l.to_string() } }

pub fn run(args: &[String]) {
    let a = parse_args(args);
    let mut out = Out::new(&a.out);
    let req = match &a.replay {
        Some(f) => read_lines(f),
        None => { let mut rng = Rng::new(a.seed); gen_requests(&mut rng, a.n, &mut out) }
    };
    exec(&req, &mut out, &a.out);
    out.finish();
}
