//! C17: `PathSearchIndex` against the Lean model (K) and against the suffix specification (O).
//! `gen` writes request lines, `exec` interprets request lines on the real index (also used for replay).
use crate::util::*;
use bugstalker::debugger::verif::PathSearchIndex;
use serde_json::json;

const COMPS: &[&str] = &["a", "b", "ab", "ns1", "ns2", "fn1", "fn2", "f", "main.rs", "src", "home", "", ":", "x:", "λ", "{impl#0}", "<T as U>"];

fn gen_path(rng: &mut Rng, delim: &str) -> Vec<String> {
    let n = match rng.below(10) { 0 => 0, 1..=3 => 1, 4..=6 => 2, 7..=8 => 3, _ => rng.range(4, 7) };
    let mut p: Vec<String> = (0..n).map(|_| rng.pick(COMPS).to_string()).collect();
    // file paths are inserted as absolute paths whose first component is the root "/"
    if delim == "/" && n > 0 && rng.chance(1, 2) { p.insert(0, "/".into()); }
    p
}

/// independent statement of the property: the needle's components are a suffix of the path's
fn spec_get(log: &[(Vec<String>, u64)], delim: &str, needle: &str) -> Vec<u64> {
    let comps: Vec<String> = if needle.starts_with(delim) {
        std::iter::once(delim.to_string()).chain(needle.split(delim).skip(1).map(String::from)).collect()
    } else { needle.split(delim).map(String::from).collect() };
    log.iter().filter(|(p, _)| !p.is_empty() && p.len() >= comps.len() && p[p.len() - comps.len()..] == comps[..])
        .map(|(_, v)| *v).collect()
}

pub fn gen_requests(rng: &mut Rng, n: u64, out: &mut Out) -> Vec<String> {
    let mut req = vec![];
    let mut done = 0u64;
    while done < n {
        let delim = if rng.chance(1, 2) { "::" } else { "/" };
        let mut log: Vec<Vec<String>> = vec![];
        req.push(format!("C17 new {}", enc_str(delim)));
        for _ in 0..rng.range(1, 30) {
            done += 1;
            if log.is_empty() || rng.chance(3, 5) {
                let p = gen_path(rng, delim);
                let v = log.len() as u64 + 1;
                if rng.chance(1, 2) || p.is_empty() {
                    req.push(format!("C17 insert {} {v}", enc_list(&p, |s| enc_str(s))));
                    out.count("insert", 1);
                } else {
                    req.push(format!("C17 insertwh {} {} {v}", enc_list(&p[..p.len() - 1], |s| enc_str(s)), enc_str(&p[p.len() - 1])));
                    out.count("insert_w_head", 1);
                }
                log.push(p);
            } else {
                let base = rng.pick(&log).clone();
                let needle: String = match rng.below(10) {
                    0..=4 if !base.is_empty() => {
                        let k = rng.range(1, base.len() as u64) as usize;
                        out.count("get.suffix", 1);
                        base[base.len() - k..].join(delim)
                    }
                    5 if !base.is_empty() => {
                        out.count("get.partial_component", 1);
                        let s = base.join(delim);
                        let mut c = rng.below(s.len() as u64 + 1) as usize;
                        while !s.is_char_boundary(c) { c += 1; }
                        s[c..].to_string()
                    }
                    6 if base.len() > 1 => { out.count("get.prefix", 1); base[..base.len() - 1].join(delim) }
                    7 => { out.count("get.leading_delim", 1); format!("{delim}{}", base.join(delim)) }
                    8 => { out.count("get.extra_head", 1); format!("{}{delim}{}", rng.pick(COMPS), base.join(delim)) }
                    _ => { out.count("get.random", 1); gen_path(rng, delim).join(delim) }
                };
                req.push(format!("C17 get {}", enc_str(&needle)));
            }
        }
    }
    req
}

pub fn exec(req: &[String], out: &mut Out) {
    let mut delim = "::".to_string();
    let mut ix: PathSearchIndex<u64> = PathSearchIndex::new("::");
    let mut log: Vec<(Vec<String>, u64)> = vec![];
    for line in req {
        let t: Vec<&str> = line.split(' ').collect();
        let ans = match t.as_slice() {
            ["C17", "new", d] => { delim = dec_str(d); ix = PathSearchIndex::new(delim.clone()); log.clear(); "ok".to_string() }
            ["C17", "insert", p, v] => {
                let p = dec_list(p, dec_str); let v: u64 = v.parse().unwrap();
                ix.insert(p.iter(), v); log.push((p, v)); "ok".into()
            }
            ["C17", "insertwh", t, h, v] => {
                let mut p = dec_list(t, dec_str); let h = dec_str(h); let v: u64 = v.parse().unwrap();
                ix.insert_w_head(p.iter(), &h, v); p.push(h); log.push((p, v)); "ok".into()
            }
            ["C17", "get", n] => {
                let needle = dec_str(n);
                let got: Vec<u64> = ix.get(&needle).into_iter().copied().collect();
                out.oracle_evals += 1;
                let want = spec_get(&log, &delim, &needle);
                if !got.is_empty() { out.count("get.nonempty_result", 1); }
                if got != want {
                    out.oracle_fail("index-suffix-mismatch",
                        &format!("get({needle:?}) = {got:?}, the suffix specification says {want:?}"),
                        json!({"delim": delim, "inserts": log, "needle": needle, "got": got, "want": want}));
                }
                out.sample(json!({"delim": delim, "inserts": log.len(), "needle": needle, "got": got}));
                enc_list(&got, |v| v.to_string())
            }
            _ => "bad-op".into(),
        };
        out.pair(line.clone(), ans);
    }
}

pub fn run(args: &[String]) {
    let a = parse_args(args);
    let mut out = Out::new(&a.out);
    let req = match &a.replay {
        Some(f) => read_lines(f),
        None => { let mut rng = Rng::new(a.seed); gen_requests(&mut rng, a.n, &mut out) }
    };
    exec(&req, &mut out);
    out.finish();
}
