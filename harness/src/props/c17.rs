//! C17: `PathSearchIndex` against the Lean model (K) and against the suffix specification (O).
//! `gen` writes request lines, `exec` interprets request lines on the real index (also used for replay).
use crate::util::*;
use bugstalker::debugger::verif::PathSearchIndex;
use serde_json::json;
#[path = "c17/sym.rs"]
pub mod sym;

const COMPS: &[&str] = &["a", "b", "ab", "ns1", "ns2", "fn1", "fn2", "f", "main.rs", "src", "home", "", ":", "x:", "λ", "{impl#0}", "<T as U>"];

fn gen_path(rng: &mut Rng, delim: &str) -> Vec<String> {
    let n = match rng.below(10) { 0 => 0, 1..=3 => 1, 4..=6 => 2, 7..=8 => 3, _ => rng.range(4, 7) };
    let mut p: Vec<String> = (0..n).map(|_| rng.pick(COMPS).to_string()).collect();
    // file paths are inserted as absolute paths whose first component is the root "/"
    if delim == "/" && n > 0 && rng.chance(1, 2) { p.insert(0, "/".into()); }
    p
}

/// independent statement of the property: the needle's components are a suffix of the path's
fn spec_get(log: &[(Vec<String>, u64)], delim: &str, needle: &str) -> Vec<u64> {
    let comps: Vec<String> = if needle.starts_with(delim) {
        std::iter::once(delim.to_string()).chain(needle.split(delim).skip(1).map(String::from)).collect()
    } else { needle.split(delim).map(String::from).collect() };
    log.iter().filter(|(p, _)| !p.is_empty() && p.len() >= comps.len() && p[p.len() - comps.len()..] == comps[..])
        .map(|(_, v)| *v).collect()
}

pub fn gen_requests(rng: &mut Rng, n: u64, out: &mut Out) -> Vec<String> {
    let mut req = vec![];
    let mut done = 0u64;
    while done < n {
        let delim = if rng.chance(1, 2) { "::" } else { "/" };
        let mut log: Vec<Vec<String>> = vec![];
        req.push(format!("C17 new {}", enc_str(delim)));
        for _ in 0..rng.range(1, 30) {
            done += 1;
            if log.is_empty() || rng.chance(3, 5) {
                let p = gen_path(rng, delim);
                let v = log.len() as u64 + 1;
                if rng.chance(1, 2) || p.is_empty() {
                    req.push(format!("C17 insert {} {v}", enc_list(&p, |s| enc_str(s))));
                    out.count("insert", 1);
                } else {
                    req.push(format!("C17 insertwh {} {} {v}", enc_list(&p[..p.len() - 1], |s| enc_str(s)), enc_str(&p[p.len() - 1])));
                    out.count("insert_w_head", 1);
                }
                log.push(p);
            } else {
                let base = rng.pick(&log).clone();
                let needle: String = match rng.below(10) {
                    0..=4 if !base.is_empty() => {
                        let k = rng.range(1, base.len() as u64) as usize;
                        out.count("get.suffix", 1);
                        base[base.len() - k..].join(delim)
                    }
                    5 if !base.is_empty() => {
                        out.count("get.partial_component", 1);
                        let s = base.join(delim);
                        let mut c = rng.below(s.len() as u64 + 1) as usize;
                        while !s.is_char_boundary(c) { c += 1; }
                        s[c..].to_string()
                    }
                    6 if base.len() > 1 => { out.count("get.prefix", 1); base[..base.len() - 1].join(delim) }
                    7 => { out.count("get.leading_delim", 1); format!("{delim}{}", base.join(delim)) }
                    8 => { out.count("get.extra_head", 1); format!("{}{delim}{}", rng.pick(COMPS), base.join(delim)) }
                    _ => { out.count("get.random", 1); gen_path(rng, delim).join(delim) }
                };
                req.push(format!("C17 get {}", enc_str(&needle)));
            }
        }
    }
    req
}

// ---------------------------------------------------------------------------------------------------------
// end-to-end leg: the same model (an index over "::"-paths) against `set_breakpoint_at_fn` on real binaries.
//   C17 newbin <prog>        model: a fresh "::" index;  implementation: a debugger on progs/<prog> (not started)
//   C17 insertfn <name> <i>  the i-th function of the program, `name` = its demangled name as `nm -C` prints it (independent
//                            of the debugger); the model cuts it into components with its `split_path`
//   C17 break <template>     implementation: indices of the functions in which `break <template>` put a breakpoint;
//                            model: `search_functions` (template cut by `split_path`, looked up by components)
//   C17 fnpath <text>        (pure leg) `NamespaceHierarchy::from_mangled(text)` on a text that is not a mangled name, so
//                            the demangler hands it through: namespace parts + subroutine name vs the model's `split_path`
pub const BIN_PROGS: &[&str] = &["c17_names", "c17_names_v0"];

/// cut `s` at the occurrences of `delim` that are outside angle brackets (`->` is not a closing bracket)
fn cut_outside_brackets(s: &str, delim: &str) -> Vec<String> {
    let ch: Vec<char> = s.chars().collect();
    let dl: Vec<char> = delim.chars().collect();
    let mut out = vec![]; let mut cur = String::new(); let mut depth = 0i64; let mut i = 0;
    while i < ch.len() {
        let arrow = ch[i] == '>' && i > 0 && ch[i - 1] == '-';
        if ch[i] == '<' { depth += 1; } else if ch[i] == '>' && !arrow && depth > 0 { depth -= 1; }
        else if depth == 0 && ch[i] != '>' && ch[i..].starts_with(&dl) { out.push(std::mem::take(&mut cur)); i += dl.len(); continue; }
        cur.push(ch[i]); i += 1;
    }
    out.push(cur);
    out
}

/// the path components a demangled Rust name (or a `break` template) denotes, written from the statement of the
/// property, not from the debugger's code: cut at top-level `::`; generic arguments (`::<..>`) are not components;
/// a leading `<Type>` (inherent impl, v0 style) stands for the path of the type; `<T as Trait>` and legacy `<impl T>`
/// are components of their own; a legacy hash component is dropped
pub fn path_comps(name: &str) -> Vec<String> {
    let mut out = vec![];
    for (i, c) in cut_outside_brackets(name, "::").into_iter().enumerate() {
        let bracketed = c.len() >= 2 && c.starts_with('<') && c.ends_with('>');
        if bracketed && i == 0 && cut_outside_brackets(&c[1..c.len() - 1], " as ").len() == 1 {
            out.extend(cut_outside_brackets(&c[1..c.len() - 1], "::"));
        } else if bracketed && i > 0 && !c.starts_with("<impl ") { /* generic arguments */ }
        else if c.len() == 17 && c.starts_with('h') && c[1..].chars().all(|x| x.is_ascii_hexdigit()) { /* legacy hash */ }
        else { out.push(c); }
    }
    out
}

/// (address, size, components) of the program's own functions, by address
pub fn user_functions(prog: &str) -> Vec<(u64, u64, Vec<String>, String)> {
    let path = crate::live::verif_root().join("progs").join(prog);
    let o = std::process::Command::new("nm").args(["-C", "-S", "--defined-only"]).arg(&path).output().expect("nm");
    let mut v = vec![];
    for l in String::from_utf8_lossy(&o.stdout).lines() {
        let mut it = l.splitn(4, ' ');
        let (Some(a), Some(sz), Some(ty), Some(name)) = (it.next(), it.next(), it.next(), it.next()) else { continue };
        if !matches!(ty, "t" | "T") || !name.contains("zq_") { continue; }
        let (Ok(a), Ok(sz)) = (u64::from_str_radix(a, 16), u64::from_str_radix(sz, 16)) else { continue };
        v.push((a, sz, path_comps(name), name.to_string()));
    }
    v.sort();
    v
}

pub fn gen_bin_requests(rng: &mut Rng, out: &mut Out) -> Vec<String> {
    let mut req = vec![];
    for prog in BIN_PROGS {
        let fns = user_functions(prog);
        req.push(format!("C17 newbin {prog}"));
        // the model is fed the demangled NAME (as `nm -C` prints it) and cuts it with its own `split_path`; the oracle uses
        // the components of `path_comps`
        for (i, (_, _, _, raw)) in fns.iter().enumerate() {
            req.push(format!("C17 insertfn {} {}", enc_str(raw), i + 1));
        }
        let mut tpls: Vec<String> = vec![];
        let mut misses: Vec<String> = vec![];
        for (_, _, comps, raw) in &fns {
            // every suffix of the path, and the name as printed (generic arguments, `<Type>::m`, `<T as Trait>::m`)
            for k in 1..=comps.len() { tpls.push(comps[comps.len() - k..].join("::")); }
            tpls.push(raw.clone());
            // near misses: partial component, prefix, wrong module
            let full = comps.join("::");
            if full.len() > 3 { let c = rng.range(1, full.len() as u64 - 1) as usize; if full.is_char_boundary(c) { misses.push(full[c..].to_string()); } }
            if comps.len() > 1 { misses.push(comps[..comps.len() - 1].join("::")); misses.push(format!("nosuch::{}", comps[comps.len() - 1])); }
            misses.push(format!("{}::<u8>", comps[comps.len() - 1]));
        }
        tpls.sort(); tpls.dedup();
        misses.sort(); misses.dedup();
        // every suffix template is kept; near misses are sampled (each query costs a DWARF-wide search)
        while misses.len() > 8 { let k = rng.below(misses.len() as u64) as usize; misses.remove(k); }
        tpls.extend(misses);
        for t in tpls { req.push(format!("C17 break {}", enc_str(&t))); out.count("bin.break", 1); }
        out.count(&format!("bin.{prog}"), 1);
    }
    req
}

/// the suffix specification over components
fn spec_comps(log: &[(Vec<String>, u64)], comps: &[String]) -> Vec<u64> {
    log.iter().filter(|(p, _)| !p.is_empty() && p.len() >= comps.len() && p[p.len() - comps.len()..] == comps[..]).map(|(_, v)| *v).collect()
}

fn bin_session(lines: &[String], emit: &mut dyn FnMut(String)) {
    use bugstalker::debugger::address::Address;
    let prog = lines[0].split(' ').nth(2).unwrap_or("");
    let fns = user_functions(prog);
    let p = crate::live::verif_root().join("progs").join(prog);
    let (_r, w) = os_pipe::pipe().unwrap();
    bugstalker::debugger::rust::Environment::init(None);
    let runner = bugstalker::debugger::process::Child::new(p.to_str().unwrap(), Vec::<String>::new(), None::<&std::path::Path>, w.try_clone().unwrap(), w);
    let mut dbg = match runner.install().map_err(|e| e.to_string()).and_then(|pr| bugstalker::debugger::DebuggerBuilder::<bugstalker::debugger::NopHook>::new().build(pr).map_err(|e| e.to_string())) {
        Ok(d) => d, Err(e) => { emit(format!("launch-failed {e}")); return; }
    };
    emit("ok".into());
    let mut log: Vec<(Vec<String>, u64)> = vec![];
    for line in &lines[1..] {
        let t: Vec<&str> = line.split(' ').collect();
        match t.as_slice() {
            ["C17", "insertfn", _p, v] => {
                // oracle side: the components of the v-th function (from `nm -C`) by `path_comps`, not the request's
                let v: u64 = v.parse().unwrap();
                if let Some(f) = fns.get(v as usize - 1) { log.push((f.2.clone(), v)); }
                emit("ok".into());
            }
            ["C17", "break", n] => {
                let tpl = dec_str(n);
                let mut got: Vec<u64> = vec![];
                let mut stray = 0;
                if let Ok(views) = dbg.set_breakpoint_at_fn(&tpl) {
                    for v in &views {
                        let a = match v.addr { Address::Global(g) => u64::from(g), Address::Relocated(r) => u64::from(r).wrapping_sub(0x555555554000) };
                        match fns.iter().position(|(s, n, _, _)| a >= *s && a < s + n) { Some(i) => got.push(i as u64 + 1), None => stray += 1 }
                    }
                }
                let _ = dbg.remove_breakpoint_at_fn(&tpl);
                got.sort();
                let want = spec_comps(&log, &path_comps(&tpl));
                if got != want || stray > 0 {
                    // functions the two sides disagree on
                    let differ: Vec<u64> = want.iter().filter(|i| !got.contains(i)).chain(got.iter().filter(|i| !want.contains(i))).copied().collect();
                    // v0 demangled names carry generic arguments / `<Type>` segments (repaired defect: `from_mangled` used to
                    // split them on every `::`; the key stays so that a regression is reported under it)
                    let v0_brackets = prog.ends_with("_v0") && stray == 0 && !differ.is_empty()
                        && differ.iter().all(|i| fns[*i as usize - 1].3.contains('<') && !got.contains(i));
                    let key = if v0_brackets { "v0-mangled-function-path-split-inside-angle-brackets" } else { "function-template-selects-wrong-set" };
                    emit(format!("!oracle {}", json!({"key": key, "what": format!("{prog}: `break {tpl}` placed breakpoints in functions {:?} (+{stray} outside the program's functions), the path-suffix specification says {:?}",
                        got.iter().map(|i| fns[*i as usize - 1].2.join("::")).collect::<Vec<_>>(), want.iter().map(|i| fns[*i as usize - 1].2.join("::")).collect::<Vec<_>>()),
                        "replay": {"prog": prog, "template": tpl}})));
                }
                emit(enc_list(&got, |v| v.to_string()));
            }
            _ => emit("bad-op".into()),
        }
    }
}


// ---------------------------------------------------------------------------------------------------------
// function-path leg: texts shaped like demangled names (both schemes) and broken ones
const IDENTS: &[&str] = &["a", "b", "krate", "alpha", "f", "zq_x", "Type", "m", "{closure#0}", "{{closure}}", "{impl#1}", "λ", "x-y", ""];

fn gen_type(rng: &mut Rng, depth: u32) -> String {
    let path = |rng: &mut Rng| (0..rng.range(1, 3)).map(|_| rng.pick(IDENTS).to_string()).collect::<Vec<_>>().join("::");
    if depth == 0 { return path(rng); }
    match rng.below(9) {
        0 | 1 => path(rng),
        2 => format!("{}<{}>", path(rng), gen_type(rng, depth - 1)),
        3 => format!("{}<{}, {}>", path(rng), gen_type(rng, depth - 1), gen_type(rng, depth - 1)),
        4 => format!("fn({}) -> {}", gen_type(rng, depth - 1), gen_type(rng, depth - 1)),
        5 => format!("<{} as {}>::{}", gen_type(rng, depth - 1), path(rng), rng.pick(IDENTS)),
        6 => format!("&mut [{}; 3]", gen_type(rng, depth - 1)),
        7 => format!("dyn {}<Assoc = {}> + 'a", path(rng), gen_type(rng, depth - 1)),
        _ => format!("({}, {})", gen_type(rng, depth - 1), gen_type(rng, depth - 1)),
    }
}

pub fn gen_fn_text(rng: &mut Rng, out: &mut Out) -> String {
    let mut segs: Vec<String> = vec![];
    let form = rng.below(10);
    match form {
        0..=3 => {}
        4 | 5 => { out.count("fnpath.inherent_impl", 1); segs.push(format!("<{}>", gen_type(rng, 2))); }
        6 | 7 => { out.count("fnpath.trait_impl", 1); segs.push(format!("<{} as {}>", gen_type(rng, 2), gen_type(rng, 1))); }
        8 => { out.count("fnpath.legacy_impl_segment", 1); segs.push(rng.pick(IDENTS).to_string()); segs.push(format!("<impl {}>", gen_type(rng, 1))); }
        _ => {}
    }
    for _ in 0..rng.range(if segs.is_empty() { 1 } else { 0 }, 4) {
        segs.push(rng.pick(IDENTS).to_string());
        if rng.chance(1, 3) { out.count("fnpath.generic_args", 1); segs.push(format!("<{}>", (0..rng.range(1, 2)).map(|_| gen_type(rng, 2)).collect::<Vec<_>>().join(", "))); }
    }
    let mut t = segs.join("::");
    if form == 9 {
        // broken texts: unbalanced brackets, stray arrows, delimiters at the ends
        out.count("fnpath.broken", 1);
        for _ in 0..rng.range(1, 3) {
            let ins = *rng.pick(&["<", ">", "->", "::", " as ", "-", ":", "<impl ", ">>"]);
            let mut c = rng.below(t.len() as u64 + 1) as usize;
            while !t.is_char_boundary(c) { c += 1; }
            t.insert_str(c, ins);
        }
    }
    // never a text the demangler would take for a mangled name
    if t.starts_with("_ZN") || t.starts_with("ZN") || t.starts_with("_R") || t.starts_with("R") || t.starts_with("__") || t.contains(".llvm.") { t.insert(0, 'q'); }
    t
}

pub fn gen_fnpath_requests(rng: &mut Rng, n: u64, out: &mut Out) -> Vec<String> {
    let mut req = vec!["C17 new x3a3a".to_string()];
    for _ in 0..n { let t = gen_fn_text(rng, out); req.push(format!("C17 fnpath {}", enc_str(&t))); out.count("fnpath", 1); }
    req
}

pub fn exec(req: &[String], out: &mut Out) {
    // binary sessions run in worker processes; index sessions in-process
    let mut i = 0;
    let mut plain: Vec<String> = vec![];
    let mut bins: Vec<Vec<String>> = vec![];
    let mut order: Vec<(bool, usize, usize)> = vec![]; // (is_bin, index, len)
    while i < req.len() {
        let is_bin = req[i].starts_with("C17 newbin ") || req[i].starts_with("C17 new sym ");
        let mut j = i + 1;
        while j < req.len() && !(req[j].starts_with("C17 new ") || req[j].starts_with("C17 newbin ")) { j += 1; }
        if is_bin { order.push((true, bins.len(), j - i)); bins.push(req[i..j].to_vec()); }
        else { order.push((false, plain.len(), j - i)); plain.extend_from_slice(&req[i..j]); }
        i = j;
    }
    let tmp = std::env::temp_dir().join(format!("bsv-c17-{}", std::process::id()));
    std::fs::create_dir_all(&tmp).unwrap();
    let results = crate::live::run_sessions(&bins, &tmp, "c17", crate::live::par_default(), 60, |s, emit| if s[0].starts_with("C17 new sym ") { sym::sym_session(s, emit) } else { bin_session(s, emit) });
    let _ = std::fs::remove_dir_all(&tmp);
    let mut plain_out = Out::new(&tmp.join("plain"));
    exec_index(&plain, &mut plain_out);
    let _ = std::fs::remove_dir_all(&tmp);
    out.oracle_evals += plain_out.oracle_evals;
    out.oracle_failures.extend(plain_out.oracle_failures);
    for (k, v) in plain_out.stats { out.count(&k, v.as_u64().unwrap_or(0)); }
    for s in plain_out.samples { out.sample(s); }
    let mut pi = 0;
    for (is_bin, idx, len) in order {
        if is_bin {
            let (lines, how) = &results[idx];
            let mut answers = vec![];
            let mut rewritten: std::collections::BTreeMap<usize, String> = Default::default();
            for l in lines {
                if let Some(r) = l.strip_prefix("!req ") { rewritten.insert(answers.len(), r.to_string()); continue; }
                if let Some(j) = l.strip_prefix("!oracle ") {
                    let v: serde_json::Value = serde_json::from_str(j).unwrap();
                    out.oracle_fail(v["key"].as_str().unwrap(), v["what"].as_str().unwrap(), v["replay"].clone());
                } else { answers.push(l.clone()); }
            }
            out.oracle_evals += answers.len() as u64;
            if how != "ok" { out.oracle_fail("debugger-crashed-or-hung", &format!("worker ended with {how}"), json!({"session": bins[idx][0]})); }
            for (k, l) in bins[idx].iter().enumerate() { out.pair(rewritten.get(&k).unwrap_or(l).clone(), answers.get(k).cloned().unwrap_or_else(|| format!("worker-{how}"))); }
        } else {
            for k in 0..len { out.pair(plain_out.req[pi + k].clone(), plain_out.imp[pi + k].clone()); }
            pi += len;
        }
    }
}

fn exec_index(req: &[String], out: &mut Out) {
    let mut delim = "::".to_string();
    let mut ix: PathSearchIndex<u64> = PathSearchIndex::new("::");
    let mut log: Vec<(Vec<String>, u64)> = vec![];
    for line in req {
        let t: Vec<&str> = line.split(' ').collect();
        let ans = match t.as_slice() {
            ["C17", "new", d] => { delim = dec_str(d); ix = PathSearchIndex::new(delim.clone()); log.clear(); "ok".to_string() }
            ["C17", "insert", p, v] => {
                let p = dec_list(p, dec_str); let v: u64 = v.parse().unwrap();
                ix.insert(p.iter(), v); log.push((p, v)); "ok".into()
            }
            ["C17", "insertwh", t, h, v] => {
                let mut p = dec_list(t, dec_str); let h = dec_str(h); let v: u64 = v.parse().unwrap();
                ix.insert_w_head(p.iter(), &h, v); p.push(h); log.push((p, v)); "ok".into()
            }
            ["C17", "get", n] => {
                let needle = dec_str(n);
                let got: Vec<u64> = ix.get(&needle).into_iter().copied().collect();
                out.oracle_evals += 1;
                let want = spec_get(&log, &delim, &needle);
                if !got.is_empty() { out.count("get.nonempty_result", 1); }
                if got != want {
                    out.oracle_fail("index-suffix-mismatch",
                        &format!("get({needle:?}) = {got:?}, the suffix specification says {want:?}"),
                        json!({"delim": delim, "inserts": log, "needle": needle, "got": got, "want": want}));
                }
                out.sample(json!({"delim": delim, "inserts": log.len(), "needle": needle, "got": got}));
                enc_list(&got, |v| v.to_string())
            }
            ["C17", "fnpath", t] => {
                let text = dec_str(t);
                let (ns, name) = bugstalker::debugger::verif::NamespaceHierarchy::from_mangled(&text);
                let mut got = ns.as_parts(); got.push(name);
                out.oracle_evals += 1;
                let want = path_comps(&text);
                if got != want {
                    let v0 = text.contains('<');
                    out.oracle_fail(if v0 { "v0-mangled-function-path-split-inside-angle-brackets" } else { "function-path-components-wrong" },
                        &format!("from_mangled({text:?}) = {got:?}, the path denotes the components {want:?}"),
                        json!({"text": text, "got": got, "want": want}));
                }
                enc_list(&got, |c| enc_str(c))
            }
            _ => "bad-op".into(),
        };
        out.pair(line.clone(), ans);
    }
}

pub fn run(args: &[String]) {
    let a = parse_args(args);
    let mut out = Out::new(&a.out);
    let req = match &a.replay {
        Some(f) => read_lines(f),
        None => {
            let mut rng = Rng::new(a.seed);
            let mut r = gen_requests(&mut rng, a.n, &mut out);
            r.extend(gen_fnpath_requests(&mut rng, (a.n / 10).max(50), &mut out));
            r.extend(gen_bin_requests(&mut rng, &mut out));
            r.extend(sym::gen_sym_requests(&mut rng, a.n, &mut out));
            r
        }
    };
    exec(&req, &mut out);
    out.finish();
}
