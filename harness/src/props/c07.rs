//! C07: data query expressions mean what the documentation says.
//!
//! Leg (i)  parser: strings through the REAL `expression::parser()` (hook `verif_parse_dqe`), AST as canonical text,
//!          vs the Lean recursive-descent mirror of the grammar (`lean/BsVerif/Model/Dqe.lean`).
//!          O: `Literal::to_string()` (the repo's own canonical text of a literal) must parse back to the literal.
//! Leg (ii) operators: expressions through `Debugger::read_variable` on the live debuggee `progs/c07_vals`, result values
//!          rendered canonically, vs the Lean model of `Value::{field,index,slice,deref,address,canonic,match_literal}`
//!          evaluated over the ground-truth value trees (`TRUTH`, written by hand from the program text).
//!          O: an independent evaluator of the DOCUMENTED semantics (`spec`) over the same truth.
//!
//! Request lines
//!   C07 new parse
//!   C07 parse <xhex text>                     answer: ok <ast> | err | panic | bigfloat
//!   C07 disp <ast of a literal>               answer: <xhex Literal::to_string()>   (model: display of the literal, as found)
//!   C07 new eval
//!   C07 var <name> <value tree>               ground truth of a variable
//!   C07 eval <xhex text>                      answer: val <rendering> | none | perr | panic:<cls> | ...
use crate::util::*;
use bugstalker::debugger::variable::dqe::{Dqe, Literal, LiteralOrWildcard, Selector};
use bugstalker::debugger::variable::value::{SpecializedValue, SupportedScalar, Value};
use bugstalker::ui::command::parser::expression::verif_parse_dqe;
use serde_json::json;
use std::sync::Mutex;

// ------------------------------------------------------------------------------------------------ panics
static LAST_PANIC: Mutex<Option<String>> = Mutex::new(None);
fn install_silent_hook() {
    std::panic::set_hook(Box::new(|info| {
        let msg = if let Some(s) = info.payload().downcast_ref::<&str>() { s.to_string() }
                  else if let Some(s) = info.payload().downcast_ref::<String>() { s.clone() } else { "?".into() };
        *LAST_PANIC.lock().unwrap_or_else(|e| e.into_inner()) = Some(msg);
    }));
}
fn take_panic() -> String { LAST_PANIC.lock().unwrap_or_else(|e| e.into_inner()).take().unwrap_or("?".into()) }
fn panic_class(msg: &str) -> &'static str {
    if msg.contains("attempt to subtract with overflow") { "sub" }
    else if msg.contains("range end index") || msg.contains("out of range for slice") { "drain-left" }
    else if msg.contains("chunk size must be non-zero") { "chunk0" }
    else if msg.contains("PosOverflow") || msg.contains("negate with overflow") { "num" }
    else { "other" }
}

// ------------------------------------------------------------------------------------------------ canonical text of ASTs
fn hexs(s: &str) -> String { s.bytes().map(|b| format!("{b:02x}")).collect() }

/// floats are compared as normalised token text: Rust's `{}` of an f64 with at most 15 significant digits is the
/// token with trailing fraction zeros (and an empty fraction) removed
fn float_text(f: f64) -> String { format!("{f}") }

fn lit_text(l: &Literal) -> String {
    match l {
        Literal::String(s) => format!("s{}", hexs(s)),
        Literal::Int(i) => format!("i{i}"),
        Literal::Float(f) => format!("f{}", float_text(*f)),
        Literal::Address(a) => format!("a{a}"),
        Literal::Bool(b) => format!("b{}", *b as u8),
        Literal::EnumVariant(n, None) => format!("e{}", hexs(n)),
        Literal::EnumVariant(n, Some(l)) => format!("e{}({})", hexs(n), lit_text(l)),
        Literal::Array(items) => format!("[{}]", items.iter().map(low_text).collect::<Vec<_>>().join(",")),
        Literal::AssocArray(m) => {
            let mut kv: Vec<(String, String)> = m.iter().map(|(k, v)| (k.clone(), low_text(v))).collect();
            kv.sort();
            format!("{{{}}}", kv.iter().map(|(k, v)| format!("{}:{}", hexs(k), v)).collect::<Vec<_>>().join(","))
        }
    }
}
fn low_text(l: &LiteralOrWildcard) -> String {
    match l { LiteralOrWildcard::Wildcard => "*".into(), LiteralOrWildcard::Literal(l) => lit_text(l) }
}
fn dqe_text(d: &Dqe) -> String {
    match d {
        Dqe::Variable(Selector::Name { var_name, .. }) => format!("v{}", hexs(var_name)),
        Dqe::Variable(Selector::Any) => "vany".into(),
        Dqe::PtrCast(pc) => format!("pc({},{})", hexs(&pc.ty), pc.ptr),
        Dqe::Field(e, f) => format!("fld({},{})", dqe_text(e), hexs(f)),
        Dqe::Index(e, l) => format!("idx({},{})", dqe_text(e), lit_text(l)),
        Dqe::Slice(e, l, r) => format!("slc({},{},{})", dqe_text(e), l.map(|v| v.to_string()).unwrap_or("-".into()), r.map(|v| v.to_string()).unwrap_or("-".into())),
        Dqe::Deref(e) => format!("der({})", dqe_text(e)),
        Dqe::Address(e) => format!("adr({})", dqe_text(e)),
        Dqe::Canonic(e) => format!("can({})", dqe_text(e)),
        Dqe::DataCast(_) => "datacast".into(),
    }
}

/// a float-looking token (digits '.' digits) with more than 15 digits in total: the decimal -> f64 -> shortest decimal
/// round trip is not the identity there, so such inputs are answered `bigfloat` by both sides
fn has_big_float(s: &str) -> bool {
    let b = s.as_bytes();
    let mut i = 0;
    while i < b.len() {
        if b[i].is_ascii_digit() {
            let st = i;
            while i < b.len() && b[i].is_ascii_digit() { i += 1; }
            let n1 = i - st;
            if i + 1 < b.len() && b[i] == b'.' && b[i + 1].is_ascii_digit() {
                let st2 = i + 1;
                let mut j = st2;
                while j < b.len() && b[j].is_ascii_digit() { j += 1; }
                if n1 + (j - st2) > 15 { return true; }
                i = j;
            }
        } else { i += 1; }
    }
    false
}

fn parse_answer(text: &str) -> (String, Option<Dqe>) {
    if has_big_float(text) { return ("bigfloat".into(), None); }
    let t = text.to_string();
    match std::panic::catch_unwind(move || verif_parse_dqe(&t)) {
        Ok(Some(d)) => (format!("ok {}", dqe_text(&d)), Some(d)),
        Ok(None) => ("err".into(), None),
        Err(_) => { let _ = take_panic(); ("panic".into(), None) }
    }
}

// ------------------------------------------------------------------------------------------------ rendering of values
fn is_std_type(name: &str) -> bool {
    // structures of the standard library: layout is the environment's business, rendered as `O`
    const STD: &[&str] = &["Vec<", "VecDeque<", "RawVec", "HashMap<", "HashSet<", "BTreeMap<", "BTreeSet<", "String", "&str", "Rc<", "Arc<", "RcBox<", "RcInner<",
        "ArcInner<", "RefCell<", "Cell<", "UnsafeCell<", "NonNull<", "Unique<", "Box<", "RawTable", "RawTableInner", "PhantomData", "Global", "BuildHasherDefault", "NodeRef", "Option<alloc", "Option<core"];
    STD.iter().any(|p| name.starts_with(p))
}

fn render(v: &Value) -> String {
    match v {
        Value::Scalar(s) => match &s.value {
            None => "n".into(),
            Some(sc) => match sc {
                SupportedScalar::F32(f) => format!("f{f}"),
                SupportedScalar::F64(f) => format!("f{f}"),
                SupportedScalar::Bool(b) => if s.raw_address.is_none() && s.type_id.is_none() { format!("Y{}", *b as u8) } else { format!("b{}", *b as u8) },
                SupportedScalar::Char(c) => format!("c{}", hexs(&c.to_string())),
                SupportedScalar::Empty() => "u".into(),
                other => format!("i{other}"),
            },
        },
        Value::Struct(st) => {
            if is_std_type(st.type_ident.name_fmt()) { return "O".into(); }
            format!("S({})", st.members.iter().map(|m| format!("{}={}", m.field_name.as_deref().unwrap_or("_"), render(&m.value))).collect::<Vec<_>>().join(";"))
        }
        Value::Array(a) => match &a.items {
            None => "A?".into(),
            Some(items) => format!("A[{}]", items.iter().map(|it| render(&it.value)).collect::<Vec<_>>().join(",")),
        },
        Value::CEnum(e) => match &e.value { Some(v) => format!("E{v}"), None => "E?".into() },
        Value::RustEnum(e) => match &e.value {
            Some(m) => format!("R{}({})", m.field_name.as_deref().unwrap_or("_"), render(&m.value)),
            None => "R?".into(),
        },
        Value::Pointer(_) => "P".into(),
        Value::Subroutine(_) => "F".into(),
        Value::Specialized { value: None, .. } => "X?".into(),
        Value::Specialized { value: Some(sp), .. } => match sp {
            SpecializedValue::Vector(vv) => format!("V({})", vv.structure.members.first().map(|m| render(&m.value)).unwrap_or("?".into())),
            SpecializedValue::VecDeque(vv) => format!("D({})", vv.structure.members.first().map(|m| render(&m.value)).unwrap_or("?".into())),
            SpecializedValue::BTreeMap(m) => format!("M({})", m.kv_items.iter().map(|(k, v)| format!("{}>{}", render(k), render(v))).collect::<Vec<_>>().join(";")),
            SpecializedValue::HashMap(m) => {
                let mut kv: Vec<String> = m.kv_items.iter().map(|(k, v)| format!("{}>{}", render(k), render(v))).collect();
                kv.sort();
                format!("H({})", kv.join(";"))
            }
            SpecializedValue::BTreeSet(s) => format!("T({})", s.items.iter().map(render).collect::<Vec<_>>().join(";")),
            SpecializedValue::HashSet(s) => { let mut it: Vec<String> = s.items.iter().map(render).collect(); it.sort(); format!("U({})", it.join(";")) }
            SpecializedValue::String(s) => format!("G{}", hexs(&s.value)),
            SpecializedValue::Str(s) => format!("G{}", hexs(&s.value)),
            SpecializedValue::Rc(_) => "RC".into(),
            SpecializedValue::Arc(_) => "RC".into(),
            SpecializedValue::Cell(c) | SpecializedValue::RefCell(c) => format!("C({})", render(c)),
            _ => "X".into(),
        },
        Value::CModifiedVariable(_) => "X".into(),
    }
}

// ------------------------------------------------------------------------------------------------ ground truth (independent of the debugger)
/// Value trees in the ship syntax of `lean/Driver/C07.lean` (`decVal`), written by hand from progs-src/c07_vals.rs.
#[derive(Clone, Debug, PartialEq)]
enum Tv {
    Int(i128), Float(String), Bool(bool), Chr(String), Unit, Synth(bool),
    Struct(bool, Vec<(Option<String>, Tv)>),
    Array(Vec<Tv>), CEnum(String), REnum(String, Box<Tv>),
    Ptr(bool, Vec<Tv>),
    Vec(bool, Box<Tv>, Box<Tv>), Map(bool, Vec<(Tv, Tv)>, Box<Tv>), Set(bool, Vec<Tv>, Box<Tv>), Str(String, Box<Tv>),
    Rc(Vec<Tv>, Box<Tv>), Cell(Box<Tv>, Box<Tv>),
    Other,
}
fn o() -> Tv { Tv::Struct(true, vec![]) }
fn olen(n: usize) -> Tv { Tv::Struct(true, vec![(Some("buf".into()), o()), (Some("len".into()), Tv::Int(n as i128))]) }
fn i(v: i128) -> Tv { Tv::Int(v) }
/// `&str`: the fat pointer `{ data_ptr, length }`
fn g(s: &str) -> Tv {
    let bytes: Vec<Tv> = s.bytes().map(|b| Tv::Int(b as i128)).collect();
    Tv::Str(s.into(), Box::new(Tv::Struct(true, vec![(Some("data_ptr".into()), Tv::Ptr(true, bytes)), (Some("length".into()), Tv::Int(s.len() as i128))])))
}
/// `String { vec: Vec<u8> }`
fn gs(s: &str) -> Tv {
    let bytes: Vec<Tv> = s.bytes().map(|b| Tv::Int(b as i128)).collect();
    Tv::Str(s.into(), Box::new(Tv::Struct(true, vec![(Some("vec".into()), vecv(bytes))])))
}
fn arr(xs: Vec<Tv>) -> Tv { Tv::Array(xs) }
fn ints(xs: &[i128]) -> Vec<Tv> { xs.iter().map(|v| i(*v)).collect() }
fn vecv(xs: Vec<Tv>) -> Tv { let n = xs.len(); Tv::Vec(false, Box::new(arr(xs)), Box::new(olen(n))) }
fn st(ms: &[(&str, Tv)]) -> Tv { Tv::Struct(false, ms.iter().map(|(n, v)| (Some(n.to_string()), v.clone())).collect()) }
fn tup(xs: Vec<Tv>) -> Tv { Tv::Struct(false, xs.into_iter().enumerate().map(|(k, v)| (Some(format!("__{k}")), v)).collect()) }
fn bmap(kvs: Vec<(Tv, Tv)>) -> Tv { let n = kvs.len(); Tv::Map(true, kvs, Box::new(Tv::Struct(true, vec![(Some("length".into()), i(n as i128))]))) }
fn hmap(kvs: Vec<(Tv, Tv)>) -> Tv { Tv::Map(false, kvs, Box::new(o())) }
fn bset(xs: Vec<Tv>) -> Tv { Tv::Set(true, xs, Box::new(o())) }
fn inner(x: i128, y: i128) -> Tv { st(&[("x", i(x)), ("y", i(y))]) }
fn some(v: Tv) -> Tv { Tv::REnum("Some".into(), Box::new(tup(vec![v]))) }
fn none_() -> Tv { Tv::REnum("None".into(), Box::new(tup(vec![]))) }

fn truth() -> Vec<(&'static str, Tv)> {
    let a5 = arr(ints(&[10, 20, 30, 40, 50]));
    let inner0 = inner(64, 8);
    let outer = st(&[("id", i(17)), ("inner", inner(-5, 250)), ("arr", arr(ints(&[-1, 0, 1]))), ("name", g("outer")),
                     ("tup", tup(vec![i(9), Tv::Bool(false)])), ("pin", Tv::Ptr(true, vec![inner0.clone()]))]);
    let pint = Tv::Ptr(true, ints(&[20, 30, 40, 50]));
    let t2 = |a: i128, b: i128| tup(vec![i(a), i(b)]);
    let key = |a: i128, b: bool| st(&[("a", i(a)), ("b", Tv::Bool(b))]);
    let set_a = bset(vec![t2(1, 2), t2(1, 3)]);
    vec![
        ("arr", a5.clone()),
        ("arr2", arr(vec![arr(ints(&[1, 2, 3])), arr(ints(&[4, 5, 6]))])),
        ("vec1", vecv(ints(&[7, 8, 9, 10]))),
        ("vecs", vecv(vec![vecv(ints(&[1, 2])), vecv(ints(&[3])), vecv(vec![])])),
        ("deque", Tv::Vec(true, Box::new(arr(ints(&[3, 4, 5, 6]))), Box::new(olen(4)))),
        ("tup", tup(vec![i(5), Tv::Bool(true), Tv::Chr("z".into())])),
        ("inner0", inner0.clone()),
        ("outer", outer.clone()),
        ("sref", Tv::Ptr(true, vec![outer.clone()])),
        ("aref", Tv::Ptr(true, vec![a5.clone()])),
        ("boxed", Tv::Ptr(true, vec![inner(-9, 200)])),
        ("rc", Tv::Rc(vec![Tv::Struct(true, vec![(Some("value".into()), inner(77, 7))])], Box::new(o()))),
        ("arc", Tv::Rc(vec![Tv::Struct(true, vec![(Some("data".into()), i(123))])], Box::new(o()))),
        ("pint", pint.clone()),
        ("pp", Tv::Ptr(true, vec![pint.clone()])),
        ("s", gs("hello")),
        ("st", g("world")),
        ("hm_i", hmap(vec![(i(1), g("one")), (i(2), g("two")), (i(-3), g("minus"))])),
        ("hm_s", hmap(vec![(gs("alpha"), i(1)), (gs("beta"), i(2)), (gs("g g"), i(3))])),
        ("hm_t", hmap(vec![(t2(1, 2), i(12)), (t2(3, 4), i(34))])),
        ("bm_i", bmap(vec![(i(1), arr(ints(&[1, 10]))), (i(2), arr(ints(&[2, 20]))), (i(200), arr(ints(&[3, 30])))])),
        ("bm_s", bmap(vec![(g("a"), inner(1, 1)), (g("b"), inner(2, 2))])),
        ("bm_k", bmap(vec![(key(1, false), i(10)), (key(1, true), i(11)), (key(2, true), i(21))])),
        ("bm_t", bmap(vec![(t2(1, 2), i(12)), (t2(1, 3), i(13)), (t2(2, 3), i(23))])),
        ("bm_e", bmap(vec![(Tv::CEnum("Red".into()), i(0)), (Tv::CEnum("Blue".into()), i(2))])),
        ("bm_o", bmap(vec![(none_(), i(-1)), (some(i(1)), i(1)), (some(i(5)), i(5))])),
        ("bm_b", bmap(vec![(Tv::Bool(false), i(0)), (Tv::Bool(true), i(1))])),
        ("bm_c", bmap(vec![(Tv::Chr("a".into()), i(97)), (Tv::Chr("z".into()), i(122))])),
        ("bm_w", bmap(vec![(i(7), i(222)), (i((1i128 << 64) + 5), i(111))])),
        ("bm_u", bmap(vec![(i(3), i(2)), (i(u64::MAX as i128), i(1))])),
        ("bm_v", bmap(vec![(vecv(ints(&[1, 2])), i(12)), (vecv(ints(&[1, 2, 3])), i(123))])),
        ("bm_set", bmap(vec![(set_a.clone(), i(9)), (bset(vec![t2(4, 4)]), i(8))])),
        ("set_a", set_a.clone()),
        ("hs_i", Tv::Set(false, ints(&[5, -6, 7]), Box::new(o()))),
        ("bs_i", bset(ints(&[1, 2, 3]))),
        ("bs_s", bset(vec![g("x"), g("yy")])),
        ("shape1", Tv::REnum("Circle".into(), Box::new(tup(vec![i(3)])))),
        ("shape2", Tv::REnum("Rect".into(), Box::new(st(&[("w", i(2)), ("h", i(5))])))),
        ("shape3", Tv::REnum("Empty".into(), Box::new(tup(vec![])))),
        ("opt", some(i(4))),
        ("none", none_()),
        ("color", Tv::CEnum("Green".into())),
        ("fl", Tv::Float("1.5".into())),
        ("flag", Tv::Bool(true)),
        ("ch", Tv::Chr("q".into())),
        ("unit", Tv::Unit),
    ]
}

/// ship syntax (`full` of an array = its items)
fn ship(v: &Tv) -> String {
    let list = |xs: &[Tv], sep: &str| xs.iter().map(ship).collect::<Vec<_>>().join(sep);
    match v {
        Tv::Int(i) => format!("i{i}"), Tv::Float(t) => format!("f{t}"), Tv::Bool(b) => format!("b{}", *b as u8),
        Tv::Chr(c) => format!("c{}", hexs(c)), Tv::Unit => "u".into(), Tv::Synth(b) => format!("Y{}", *b as u8), Tv::Other => "X".into(),
        Tv::Struct(op, ms) => format!("{}({})", if *op { "O" } else { "S" },
            ms.iter().map(|(n, v)| format!("{}={}", n.as_deref().unwrap_or("_"), ship(v))).collect::<Vec<_>>().join(";")),
        Tv::Array(xs) => format!("A[{}]", list(xs, ",")),
        Tv::CEnum(n) => format!("E{n}"),
        Tv::REnum(n, v) => format!("R{n}({})", ship(v)),
        Tv::Ptr(d, run) => format!("{}[{}]", if *d { "P" } else { "p" }, list(run, ",")),
        Tv::Vec(dq, buf, orig) => format!("{}({}|{})", if *dq { "D" } else { "V" }, ship(buf), ship(orig)),
        Tv::Map(bt, kvs, orig) => format!("{}({}|{})", if *bt { "M" } else { "H" },
            kvs.iter().map(|(k, v)| format!("{}>{}", ship(k), ship(v))).collect::<Vec<_>>().join(";"), ship(orig)),
        Tv::Set(bt, xs, orig) => format!("{}({}|{})", if *bt { "T" } else { "U" }, list(xs, ";"), ship(orig)),
        Tv::Str(s, orig) => format!("G({}|{})", hexs(s), ship(orig)),
        Tv::Rc(run, orig) => format!("Q({}|{})", list(run, ";"), ship(orig)),
        Tv::Cell(v, orig) => format!("C({}|{})", ship(v), ship(orig)),
    }
}
/// rendering of a result (same text as `render` of a real `Value`)
fn render_tv(v: &Tv) -> String {
    let list = |xs: &[Tv]| xs.iter().map(render_tv).collect::<Vec<_>>();
    match v {
        Tv::Struct(true, _) => "O".into(),
        Tv::Struct(false, ms) => format!("S({})", ms.iter().map(|(n, v)| format!("{}={}", n.as_deref().unwrap_or("_"), render_tv(v))).collect::<Vec<_>>().join(";")),
        Tv::Array(xs) => format!("A[{}]", list(xs).join(",")),
        Tv::REnum(n, v) => format!("R{n}({})", render_tv(v)),
        Tv::Ptr(..) => "P".into(),
        Tv::Vec(dq, buf, _) => format!("{}({})", if *dq { "D" } else { "V" }, render_tv(buf)),
        Tv::Map(bt, kvs, _) => { let mut e: Vec<String> = kvs.iter().map(|(k, v)| format!("{}>{}", render_tv(k), render_tv(v))).collect(); if !*bt { e.sort(); } format!("{}({})", if *bt { "M" } else { "H" }, e.join(";")) }
        Tv::Set(bt, xs, _) => { let mut e = list(xs); if !*bt { e.sort(); } format!("{}({})", if *bt { "T" } else { "U" }, e.join(";")) }
        Tv::Str(s, _) => format!("G{}", hexs(s)),
        Tv::Rc(..) => "RC".into(),
        Tv::Cell(v, _) => format!("C({})", render_tv(v)),
        other => ship(other),
    }
}

// ------------------------------------------------------------------------------------------------ generator's own AST + canonical printer
#[derive(Clone, Debug, PartialEq)]
enum L { Str(String), Int(i128), Float(String), Addr(u64), Bool(bool), Enum(String, Option<Box<L>>), Arr(Vec<L>), Assoc(Vec<(String, L)>), Wild }
#[derive(Clone, Debug, PartialEq)]
enum E { Var(String), PtrCast(String, u64), Field(Box<E>, String), Index(Box<E>, L), Slice(Box<E>, Option<u64>, Option<u64>), Deref(Box<E>), Address(Box<E>), Canonic(Box<E>) }

/// white space where the grammar pads (`w` = a generator of padding, empty for the canonical text)
fn print_l(l: &L, w: &mut dyn FnMut() -> String) -> String {
    match l {
        L::Str(s) => if s.contains('"') { format!("'{s}'") } else { format!("\"{s}\"") },
        L::Int(i) => i.to_string(),
        L::Float(t) => t.clone(),
        L::Addr(a) => format!("0x{a:X}"),
        L::Bool(b) => b.to_string(),
        L::Enum(n, None) => n.clone(),
        L::Enum(n, Some(a)) => { let inner = print_l(a, w); format!("{n}{}({}{inner}{}){}", w(), w(), w(), w()) }
        L::Arr(xs) => { let mut o = format!("{{{}", w()); for (k, x) in xs.iter().enumerate() { if k > 0 { o += &format!("{},{}", w(), w()); } o += &print_l(x, w); } o + &format!("{}}}", w()) }
        L::Assoc(kvs) => { let mut o = format!("{{{}", w()); for (k, (n, x)) in kvs.iter().enumerate() { if k > 0 { o += &format!("{},{}", w(), w()); } o += &format!("{n}{}: {}{}", w(), w(), print_l(x, w)); } o + &format!("{}}}", w()) }
        L::Wild => "*".into(),
    }
}
fn print_post(e: &E, w: &mut dyn FnMut() -> String) -> String {
    match e {
        E::Var(n) => n.clone(),
        E::PtrCast(ty, a) => format!("({}{ty}{}){}0x{a:X}", w(), w(), w()),
        E::Field(b, f) => format!("{}{}.{}{f}", print_post(b, w), w(), w()),
        E::Index(b, l) => { let bs = print_post(b, w); format!("{bs}{}[{}{}{}]", w(), w(), print_l(l, w), w()) }
        E::Slice(b, l, r) => { let f = |v: &Option<u64>| v.map(|x| x.to_string()).unwrap_or_default(); format!("{}{}[{}{}{}..{}{}{}]", print_post(b, w), w(), w(), f(l), w(), w(), f(r), w()) }
        E::Deref(_) | E::Address(_) | E::Canonic(_) => format!("({}{}{})", w(), print_pre(e, w), w()),
    }
}
fn print_pre(e: &E, w: &mut dyn FnMut() -> String) -> String {
    match e {
        E::Deref(b) => format!("*{}{}", w(), print_pre(b, w)),
        E::Address(b) => format!("&{}{}", w(), print_pre(b, w)),
        E::Canonic(b) => format!("~{}{}", w(), print_pre(b, w)),
        other => print_post(other, w),
    }
}
fn l_text(l: &L) -> String {
    match l {
        L::Str(s) => format!("s{}", hexs(s)), L::Int(i) => format!("i{i}"),
        L::Float(t) => { // normalised like Rust's `{}` of the f64
            let (neg, body) = match t.strip_prefix('-') { Some(b) => (true, b), None => (false, t.as_str()) };
            let (ip, fp) = body.split_once('.').unwrap_or((body, ""));
            let fp = fp.trim_end_matches('0');
            format!("f{}{ip}{}{fp}", if neg { "-" } else { "" }, if fp.is_empty() { "" } else { "." }) }
        L::Addr(a) => format!("a{a}"), L::Bool(b) => format!("b{}", *b as u8),
        L::Enum(n, None) => format!("e{}", hexs(n)), L::Enum(n, Some(a)) => format!("e{}({})", hexs(n), l_text(a)),
        L::Arr(xs) => format!("[{}]", xs.iter().map(l_text).collect::<Vec<_>>().join(",")),
        L::Assoc(kvs) => { let mut m = std::collections::BTreeMap::new(); for (k, v) in kvs { m.insert(k.clone(), l_text(v)); }
            format!("{{{}}}", m.iter().map(|(k, v)| format!("{}:{}", hexs(k), v)).collect::<Vec<_>>().join(",")) }
        L::Wild => "*".into(),
    }
}
fn e_text(e: &E) -> String {
    let f = |v: &Option<u64>| v.map(|x| x.to_string()).unwrap_or("-".into());
    match e {
        E::Var(n) => format!("v{}", hexs(n)), E::PtrCast(t, a) => format!("pc({},{a})", hexs(t)),
        E::Field(b, n) => format!("fld({},{})", e_text(b), hexs(n)), E::Index(b, l) => format!("idx({},{})", e_text(b), l_text(l)),
        E::Slice(b, l, r) => format!("slc({},{},{})", e_text(b), f(l), f(r)),
        E::Deref(b) => format!("der({})", e_text(b)), E::Address(b) => format!("adr({})", e_text(b)), E::Canonic(b) => format!("can({})", e_text(b)),
    }
}
fn to_literal(l: &L) -> Literal {
    let low = |x: &L| if *x == L::Wild { LiteralOrWildcard::Wildcard } else { LiteralOrWildcard::Literal(to_literal(x)) };
    match l {
        L::Str(s) => Literal::String(s.clone()), L::Int(i) => Literal::Int(*i as i64), L::Float(t) => Literal::Float(t.parse().unwrap()),
        L::Addr(a) => Literal::Address(*a as usize), L::Bool(b) => Literal::Bool(*b),
        L::Enum(n, a) => Literal::EnumVariant(n.clone(), a.as_ref().map(|a| Box::new(to_literal(a)))),
        L::Arr(xs) => Literal::Array(xs.iter().map(low).collect::<Vec<_>>().into_boxed_slice()),
        L::Assoc(kvs) => Literal::AssocArray(kvs.iter().map(|(k, v)| (k.clone(), low(v))).collect()),
        L::Wild => Literal::String("*".into()),
    }
}

// ------------------------------------------------------------------------------------------------ spec: the DOCUMENTED meaning (oracle)
/// does the literal denote the value? exact integers, positional tuples/arrays, named fields, sets as sets (a perfect matching)
fn spec_match(v: &Tv, l: &L) -> bool {
    match (v, l) {
        (_, L::Wild) => true,
        (Tv::Int(a), L::Int(b)) => a == b,
        (Tv::Bool(a), L::Bool(b)) | (Tv::Synth(a), L::Bool(b)) => a == b,
        (Tv::Chr(c), L::Str(s)) | (Tv::Str(c, _), L::Str(s)) => c == s,
        (Tv::Float(t), L::Float(u)) => t.parse::<f64>().ok() == u.parse::<f64>().ok(),
        (Tv::Array(xs), L::Arr(ls)) => xs.len() == ls.len() && xs.iter().zip(ls).all(|(x, l)| spec_match(x, l)),
        (Tv::Vec(_, buf, _), l) => spec_match(buf, l),
        (Tv::Cell(v, _), l) => spec_match(v, l),
        (Tv::Struct(_, ms), L::Arr(ls)) => ms.len() == ls.len() && ms.iter().zip(ls).all(|((_, x), l)| spec_match(x, l)),
        (Tv::Struct(_, ms), L::Assoc(kvs)) => {
            let mut m = std::collections::BTreeMap::new(); for (k, v) in kvs { m.insert(k.clone(), v); }
            m.len() == ms.len() && ms.iter().all(|(n, x)| n.as_ref().and_then(|n| m.get(n)).map(|l| spec_match(x, l)).unwrap_or(false))
        }
        (Tv::CEnum(n), L::Enum(m, None)) => n == m,
        (Tv::REnum(n, x), L::Enum(m, a)) => n == m && a.as_ref().map(|a| spec_match(x, a)).unwrap_or(true),
        (Tv::Set(_, xs, _), L::Arr(ls)) => xs.len() == ls.len() && perfect(xs, ls, &mut vec![false; ls.len()], 0),
        _ => false,
    }
}
fn perfect(xs: &[Tv], ls: &[L], used: &mut Vec<bool>, k: usize) -> bool {
    if k == xs.len() { return true; }
    for j in 0..ls.len() {
        if !used[j] && spec_match(&xs[k], &ls[j]) { used[j] = true; if perfect(xs, ls, used, k + 1) { return true; } used[j] = false; }
    }
    false
}
/// `None` = no result; panics of the implementation are not part of the documented meaning (the generator stays inside bounds)
fn spec_eval(env: &[(&'static str, Tv)], e: &E) -> Option<Tv> {
    match e {
        E::Var(n) => env.iter().find(|(k, _)| k == n).map(|(_, v)| v.clone()),
        E::PtrCast(..) => None,
        E::Field(b, f) => match spec_eval(env, b)? {
            Tv::Struct(_, ms) => ms.into_iter().find(|(n, _)| n.as_deref() == Some(f)).map(|(_, v)| v),
            Tv::REnum(_, v) => match *v { Tv::Struct(_, ms) => ms.into_iter().find(|(n, _)| n.as_deref() == Some(f)).map(|(_, v)| v), _ => None },
            Tv::Map(_, kvs, _) => kvs.into_iter().find(|(k, _)| matches!(k, Tv::Str(s, _) if s == f)).map(|(_, v)| v),
            Tv::Vec(_, buf, _) if f == "buf" => Some(*buf),
            _ => None,
        },
        E::Index(b, l) => match spec_eval(env, b)? {
            Tv::Array(xs) => match l { L::Int(i) if *i >= 0 && (*i as usize) < xs.len() => Some(xs[*i as usize].clone()), _ => None },
            Tv::Vec(_, buf, _) => match (*buf, l) { (Tv::Array(xs), L::Int(i)) if *i >= 0 && (*i as usize) < xs.len() => Some(xs[*i as usize].clone()), _ => None },
            Tv::Map(_, kvs, _) => kvs.into_iter().find(|(k, _)| spec_match(k, l)).map(|(_, v)| v),
            Tv::Set(_, xs, _) => Some(Tv::Synth(xs.iter().any(|x| spec_match(x, l)))),
            _ => None,
        },
        E::Slice(b, l, r) => {
            let cut = |xs: Vec<Tv>| -> Option<Vec<Tv>> {
                let lo = l.unwrap_or(0) as usize; let hi = r.map(|r| (r as usize).min(xs.len())).unwrap_or(xs.len());
                if lo > hi || lo > xs.len() { return None; }
                Some(xs[lo..hi].to_vec())
            };
            match spec_eval(env, b)? {
                Tv::Array(xs) => cut(xs).map(Tv::Array),
                Tv::Vec(dq, buf, orig) => match *buf { Tv::Array(xs) => cut(xs).map(|xs| Tv::Vec(dq, Box::new(Tv::Array(xs)), orig)), _ => None },
                Tv::Ptr(true, run) | Tv::Rc(run, _) => { let r = (*r)? as usize; let lo = l.unwrap_or(0) as usize; if lo > r { return None; } if r > run.len() { return Some(Tv::Other); } Some(Tv::Array(run[lo..r].to_vec())) }
                _ => None,
            }
        }
        E::Deref(b) => match spec_eval(env, b)? { Tv::Ptr(true, run) | Tv::Rc(run, _) => run.into_iter().next(), _ => None },
        // the address of an address just taken (`&&x`) is the address of a temporary: no result
        E::Address(b) => { if matches!(&**b, E::Address(_)) { return None; } match spec_eval(env, b)? { Tv::Synth(_) | Tv::Other => None, v => Some(Tv::Ptr(true, vec![v])) } }
        E::Canonic(b) => Some(match spec_eval(env, b)? {
            Tv::Vec(_, _, o) | Tv::Map(_, _, o) | Tv::Set(_, _, o) | Tv::Str(_, o) | Tv::Rc(_, o) | Tv::Cell(_, o) => *o, v => v }),
    }
}
fn spec_answer(env: &[(&'static str, Tv)], e: &E) -> String {
    match spec_eval(env, e) { Some(v) => format!("val {}", render_tv(&v)), None => "none".into() }
}

/// stable class of a disagreement between the implementation and the documented meaning
fn classify(env: &[(&'static str, Tv)], e: &E, imp: &str, spec: &str) -> String {
    fn has_addr_of_slice(e: &E) -> Option<bool> { // Some(is pointer slice)
        match e {
            E::Address(b) => { if let E::Slice(..) = &**b { return Some(false); } if let E::Canonic(..) = &**b { return Some(true); } has_addr_of_slice(b) }
            E::Field(b, _) | E::Index(b, _) | E::Slice(b, _, _) | E::Deref(b) | E::Canonic(b) => has_addr_of_slice(b),
            _ => None,
        }
    }
    fn lit_has_wide(l: &L) -> bool { match l { L::Int(i) => *i < 0, L::Arr(xs) => xs.iter().any(lit_has_wide), L::Assoc(k) => k.iter().any(|(_, v)| lit_has_wide(v)), L::Enum(_, Some(a)) => lit_has_wide(a), _ => false } }
    fn find_index<'a>(e: &'a E, out: &mut Vec<(&'a E, &'a L)>) { match e { E::Index(b, l) => { out.push((b, l)); find_index(b, out) } E::Field(b, _) | E::Slice(b, _, _) | E::Deref(b) | E::Address(b) | E::Canonic(b) => find_index(b, out), _ => {} } }
    fn tv_has_wide(v: &Tv) -> bool { match v { Tv::Int(i) => *i > i64::MAX as i128 || *i < i64::MIN as i128, Tv::Struct(_, ms) => ms.iter().any(|(_, v)| tv_has_wide(v)), Tv::Array(xs) => xs.iter().any(tv_has_wide), _ => false } }
    fn tv_has_set(v: &Tv) -> bool { match v { Tv::Set(..) => true, Tv::Struct(_, ms) => ms.iter().any(|(_, v)| tv_has_set(v)), Tv::Array(xs) => xs.iter().any(tv_has_set), Tv::Vec(_, b, _) => tv_has_set(b), _ => false } }
    let mut idx = vec![]; find_index(e, &mut idx);
    for (b, l) in &idx {
        if let Some(Tv::Map(_, kvs, _)) = spec_eval(env, b) {
            if kvs.iter().any(|(k, _)| tv_has_wide(k)) { let _ = lit_has_wide(l); return "index-map-integer-key-compared-after-truncation-to-i64".into(); }
            if kvs.iter().any(|(k, _)| tv_has_set(k)) && imp == "none" { return "set-literal-greedy-matching-misses-perfect-matching".into(); }
        }
        if let Some(Tv::Set(_, xs, _)) = spec_eval(env, b) { if xs.iter().any(tv_has_set) { return "set-literal-greedy-matching-misses-perfect-matching".into(); } }
    }
    if let Some(canon) = has_addr_of_slice(e) {
        if canon { return "deref-address-of-canonic-yields-specialized-value".into(); }
        if imp == "none" { return "deref-address-of-pointer-slice-yields-nothing".into(); }
        return "deref-address-of-slice-yields-whole-container".into();
    }
    if imp.starts_with("panic") { return format!("eval-panics-inside-bounds:{}", imp.trim_start_matches("panic:")); }
    let _ = spec;
    format!("eval-differs-from-documented-meaning:{}", match root_e(e) { E::Var(n) => n.clone(), _ => "?".into() })
}
fn root_e(e: &E) -> &E { match e { E::Field(b, _) | E::Index(b, _) | E::Slice(b, _, _) | E::Deref(b) | E::Address(b) | E::Canonic(b) => root_e(b), o => o } }

// ------------------------------------------------------------------------------------------------ generators
const IDENTS: &[&str] = &["a", "b", "var1", "x_1", "_t", "Some", "None", "E::V", "::g::h", "truthy", "falsey", "tr", "k9", "A", "__0"];
const TYPES: &[&str] = &["*const i32", "&u32", "*mut Foo", "&abc::def::T<u8, {1}>", "*SomeStruct", "i32"];
fn pad(rng: &mut Rng, p: u64) -> String { if rng.chance(p, 100) { rng.pick(&[" ", "  ", "\t", " \n"]).to_string() } else { String::new() } }

fn gen_lit(rng: &mut Rng, depth: u32) -> L {
    match rng.below(if depth == 0 { 7 } else { 10 }) {
        0 => L::Int(match rng.below(6) { 0 => 0, 1 => -(rng.below(1000) as i128), 2 => i64::MAX as i128, 3 => -(i64::MAX as i128), _ => rng.below(100000) as i128 }),
        1 => { let ip = match rng.below(3) { 0 => "0".to_string(), _ => (1 + rng.below(99999)).to_string() };
               let fp = match rng.below(4) { 0 => "0".to_string(), 1 => (1 + rng.below(999)).to_string(), 2 => format!("{}0", 1 + rng.below(99)), _ => "5".to_string() };
               L::Float(format!("{}{ip}.{fp}", if rng.chance(1, 3) { "-" } else { "" })) }
        2 => L::Bool(rng.chance(1, 2)),
        3 => L::Addr(match rng.below(3) { 0 => 0, 1 => rng.below(1 << 20), _ => rng.next() }),
        4 => L::Str(rng.pick(&["", "key", "a b", "it's", "x\"y", "0x1", "true", "ünï", "a,b}", "]"]).to_string()),
        5 | 6 => L::Enum(rng.pick(IDENTS).to_string(), None),
        7 => L::Enum(rng.pick(IDENTS).to_string(), Some(Box::new(gen_lit(rng, depth - 1)))),
        8 => L::Arr((0..rng.below(4)).map(|_| if rng.chance(1, 4) { L::Wild } else { gen_lit(rng, depth - 1) }).collect()),
        _ => L::Assoc((0..1 + rng.below(3)).map(|k| (format!("{}{k}", rng.pick(&["f", "field_", "a::b", "x"])), if rng.chance(1, 4) { L::Wild } else { gen_lit(rng, depth - 1) })).collect()),
    }
}
fn gen_e(rng: &mut Rng, depth: u32) -> E {
    let atom = |rng: &mut Rng| if rng.chance(1, 8) { E::PtrCast(rng.pick(TYPES).to_string(), rng.below(1 << 40)) } else { E::Var(rng.pick(IDENTS).to_string()) };
    if depth == 0 { return atom(rng); }
    match rng.below(9) {
        0 => atom(rng),
        1 | 2 => E::Field(Box::new(gen_e(rng, depth - 1)), rng.pick(&["f", "field1", "0", "12", "__1", "len", "x9"]).to_string()),
        3 | 4 => E::Index(Box::new(gen_e(rng, depth - 1)), gen_lit(rng, 2)),
        5 => { let b = |rng: &mut Rng| if rng.chance(1, 3) { None } else { Some(rng.below(20)) }; E::Slice(Box::new(gen_e(rng, depth - 1)), b(rng), b(rng)) }
        6 => E::Deref(Box::new(gen_e(rng, depth - 1))),
        7 => E::Address(Box::new(gen_e(rng, depth - 1))),
        _ => E::Canonic(Box::new(gen_e(rng, depth - 1))),
    }
}
const GARBAGE: &[u8] = b"ab1.[](){}*&~-,\"':x0 \t..tru";
fn mutate(s: &str, rng: &mut Rng) -> String {
    let mut b: Vec<char> = s.chars().collect();
    for _ in 0..rng.range(1, 2) {
        let pos = rng.below(b.len() as u64 + 1) as usize;
        match rng.below(6) {
            0 if !b.is_empty() => { b.remove(pos.min(b.len() - 1)); }
            1 => b.insert(pos, char::from(*rng.pick(GARBAGE))),
            2 => { for (k, c) in rng.pick(&["..", "[", "]", "(", ")", "true", "0x", "::", ".0", "{", "}", "*", " "]).chars().enumerate() { b.insert(pos + k, c); } }
            3 => b.truncate(pos),
            4 if b.len() > 1 => { let q = rng.below(b.len() as u64) as usize; let p = pos.min(b.len() - 1); b.swap(p, q); }
            _ => { b.insert(pos, char::from(b'0' + rng.below(10) as u8)); }
        }
    }
    b.into_iter().collect()
}

fn gen_parse(rng: &mut Rng, n: u64, out: &mut Out, req: &mut Vec<String>) {
    req.push("C07 new parse".into());
    for _ in 0..n {
        let k = rng.below(20);
        let d4 = 1 + rng.below(4) as u32; let d3 = 1 + rng.below(3) as u32;
        let line = if k < 7 { out.count("parse.canonical", 1); print_pre(&gen_e(rng, d4), &mut || String::new()) }
            else if k < 12 { out.count("parse.padded", 1); let mut r2 = rng.fork(); print_pre(&gen_e(rng, d4), &mut || pad(&mut r2, 30)) }
            else if k < 17 { out.count("parse.mutated", 1); let mut r2 = rng.fork(); let t = print_pre(&gen_e(rng, d3), &mut || pad(&mut r2, 10)); mutate(&t, rng) }
            else if k < 19 { out.count("parse.garbage", 1); (0..rng.below(14)).map(|_| char::from(*rng.pick(GARBAGE))).collect() }
            else { out.count("parse.display", 1); req.push(format!("C07 disp {}", l_text(&gen_lit(rng, 2)))); continue };
        if has_big_float(&line) { continue; }
        req.push(format!("C07 parse {}", enc_str(&line)));
    }
}

/// a literal that denotes the value (with wildcards / perturbations by chance); `None`: not expressible
fn lit_of(v: &Tv, rng: &mut Rng, top: bool) -> Option<L> {
    let exact = false;
    if !top && rng.chance(1, 8) { return Some(L::Wild); }
    Some(match v {
        Tv::Int(i) => { if *i > i64::MAX as i128 || *i < -(i64::MAX as i128) { return None; } L::Int(if !exact && rng.chance(1, 8) { i + 1 } else { *i }) }
        Tv::Bool(b) | Tv::Synth(b) => L::Bool(*b),
        Tv::Chr(c) | Tv::Str(c, _) => { if c.contains('"') && c.contains('\'') { return None; } L::Str(c.clone()) }
        Tv::Array(xs) => L::Arr(xs.iter().map(|x| lit_of(x, rng, false)).collect::<Option<Vec<_>>>()?),
        Tv::Vec(_, buf, _) => lit_of(buf, rng, top)?,
        Tv::Struct(_, ms) => {
            if ms.iter().all(|(n, _)| n.as_deref().map(|n| n.starts_with("__")).unwrap_or(true)) { L::Arr(ms.iter().map(|(_, x)| lit_of(x, rng, false)).collect::<Option<Vec<_>>>()?) }
            else { let mut kv: Vec<(String, L)> = ms.iter().map(|(n, x)| Some((n.clone()?, lit_of(x, rng, false)?))).collect::<Option<Vec<_>>>()?; if rng.chance(1, 2) { kv.reverse(); } L::Assoc(kv) }
        }
        Tv::CEnum(n) => L::Enum(n.clone(), None),
        Tv::REnum(n, x) => L::Enum(n.clone(), if rng.chance(1, 5) { None } else { Some(Box::new(lit_of(x, rng, false)?)) }),
        Tv::Set(_, xs, _) => { let mut ls = xs.iter().map(|x| lit_of(x, rng, false)).collect::<Option<Vec<_>>>()?; if rng.chance(1, 2) { ls.reverse(); } L::Arr(ls) }
        _ => return None,
    })
}

fn gen_eval_expr(rng: &mut Rng, env: &[(&'static str, Tv)], out: &mut Out) -> Option<E> {
    let (name, tv) = rng.pick(env);
    let mut e = E::Var(name.to_string());
    let mut cur: Option<Tv> = Some(tv.clone());
    let steps = rng.below(5);
    for _ in 0..steps {
        let Some(v) = cur.clone() else { break };
        // inapplicable operator by chance
        if rng.chance(1, 10) {
            e = match rng.below(5) { 0 => E::Field(Box::new(e), "nope".into()), 1 => E::Index(Box::new(e), L::Int(0)), 2 => E::Deref(Box::new(e)), 3 => E::Index(Box::new(e), L::Str("zz".into())), _ => E::Field(Box::new(e), "0".into()) };
            out.count("eval.op.misapplied", 1);
            cur = spec_eval(env, &e);
            continue;
        }
        let bounds = |rng: &mut Rng, len: usize| -> (Option<u64>, Option<u64>) {
            let l = rng.below(len as u64 + 1); let extra = if rng.chance(1, 6) { 2 } else { 0 }; let r = rng.range(l, len as u64 + extra);
            (if l == 0 && rng.chance(1, 2) { None } else { Some(l) }, if rng.chance(1, 4) { None } else { Some(r) })
        };
        let pre = rng.below(10);
        e = if pre == 0 { out.count("eval.op.address", 1); let a = E::Address(Box::new(e)); if rng.chance(2, 3) { out.count("eval.op.deref", 1); E::Deref(Box::new(a)) } else { a } }
        else if pre == 1 && matches!(v, Tv::Vec(..) | Tv::Map(..) | Tv::Set(..) | Tv::Str(..) | Tv::Rc(..)) { out.count("eval.op.canonic", 1); let c = E::Canonic(Box::new(e)); if rng.chance(2, 3) { E::Field(Box::new(c), rng.pick(&["len", "length", "buf"]).to_string()) } else { c } }
        else { let vv = v.clone(); match &vv {
            Tv::Struct(_, ms) if !ms.is_empty() => { out.count("eval.op.field", 1); E::Field(Box::new(e), ms[rng.below(ms.len() as u64) as usize].0.clone().unwrap_or("_".into())) }
            Tv::REnum(_, x) => { out.count("eval.op.field-enum", 1); let f = match &**x { Tv::Struct(_, ms) if !ms.is_empty() => ms[0].0.clone().unwrap(), _ => "__0".into() }; E::Field(Box::new(e), f) }
            Tv::Array(_) | Tv::Vec(_, _, _) => {
                let len = match &v { Tv::Array(xs) => xs.len(), Tv::Vec(_, b, _) => match &**b { Tv::Array(xs) => xs.len(), _ => 0 }, _ => 0 };
                if rng.chance(1, 2) { out.count("eval.op.index-seq", 1); E::Index(Box::new(e), L::Int(match rng.below(8) { 0 => -1, 1 => len as i128, 2 => len as i128 + 3, _ => rng.below(len.max(1) as u64) as i128 })) }
                else { out.count("eval.op.slice", 1); let (l, r) = bounds(rng, len); E::Slice(Box::new(e), l, r) }
            }
            Tv::Map(bt, kvs, _) => {
                let (k, _) = &kvs[rng.below(kvs.len() as u64) as usize];
                if let (Tv::Str(s, _), true) = (k, rng.chance(1, 3)) { if s.chars().all(|c| c.is_ascii_alphanumeric()) { out.count("eval.op.field-map", 1); cur = spec_eval(env, &E::Field(Box::new(e.clone()), s.clone())); e = E::Field(Box::new(e), s.clone()); continue; } }
                let Some(l) = lit_of(k, rng, true) else { break };
                // hash maps: the decoder's order is not known to the generator, so no literal matching several keys
                if !*bt && kvs.iter().filter(|(k, _)| spec_match(k, &l)).count() > 1 { break; }
                out.count("eval.op.index-map", 1);
                E::Index(Box::new(e), l)
            }
            Tv::Set(_, xs, _) => { out.count("eval.op.index-set", 1); let Some(l) = lit_of(&xs[rng.below(xs.len() as u64) as usize], rng, true) else { break }; E::Index(Box::new(e), l) }
            Tv::Ptr(true, run) | Tv::Rc(run, _) => { if rng.chance(3, 4) || run.first() == Some(&Tv::Unit) { out.count("eval.op.deref", 1); E::Deref(Box::new(e)) } else { out.count("eval.op.slice-ptr", 1); let r = rng.range(0, run.len() as u64); let l = rng.below(r + 1); E::Slice(Box::new(e), if rng.chance(1, 3) { None } else { Some(l) }, Some(r)) } }
            _ => { out.count("eval.op.address", 1); E::Address(Box::new(e)) }
        } };
        cur = spec_eval(env, &e);
    }
    Some(e)
}

const FIXED: &[&str] = &[
    "bm_v[{1,*}]", "bm_v[{*,2,3}]", "bm_v[{1,2}]", "bm_v[{2,*}]", "bm_t[{1,*}]", "bm_t[{*,3}]", "bm_t[{2,3}]", "bm_t[{*,*}]", "bm_k[{a: 1, b: *}]", "bm_k[{b: true, a: *}]",
    "bm_k[{a: 2, b: true}]", "bm_k[{a: 2}]", "bm_k[{1, true}]", "hm_t[{3,*}]", "hm_t[{1,2}]", "hm_i[-3]", "hm_i[4]", "set_a[{1,*}]", "set_a[{1,3}]", "set_a[{3,1}]", "bm_set[{{4,4}}]",
    "bm_set[{{*,*}}]", "bm_set[{*}]", "bm_o[Some({*})]", "bm_o[Some({5})]", "bm_o[None]", "bm_o[Some]", "bm_e[Blue]", "bm_e[Green]", "arr2[1][0..2]", "arr2[1][2]", "vecs[0][1]", "vecs[2][0]",
    "deque[1..3]", "deque[0]", "hm_s.alpha", "hm_s.gamma", "hm_s.alph", "hm_s.a", "hm_s.g", "bm_s.a", "bm_s.ab", "outer.i", "outer.inne", "hm_s[\"g g\"]", "bm_s.b.x", "bm_c[\"z\"]", "bm_c['a']", "bm_b[true]", "bm_i[200]", "bm_i[200][1]", "bm_i[3]", "(*rc).value.x", "(*arc).data",
    "*boxed", "(*boxed).y", "(*sref).inner.y", "sref.id", "outer.tup.__1", "outer.arr[0]", "*outer.pin", "pint[1..3]", "pint[..2]", "pint[1..]", "**pp", "(~s).vec[0]", "(~st).length", "*(~st).data_ptr",
    "shape1.__0", "shape2.w", "shape3.__0", "opt.__0", "none.__0", "hs_i[-6]", "hs_i[8]", "bs_i[3]", "bs_s[\"yy\"]", "bs_s[\"y\"]", "tup.__2", "tup.0", "arr[-1]", "arr[5]", "arr[4]", "vec1[3]",
    "vec1[..2]", "vec1[2..]", "vec1[..]", "vec1[4..4]", "arr[1..4][1..2]", "arr[1..4][0]", "(~vec1).len", "(~deque).len", "(~bm_i).length", "~arr", "~~vec1", "&arr[2]", "*&arr[2]", "*&outer.inner",
    "&&arr", "*flag", "flag[0]", "flag.x", "unit[..]", "color.x", "color[Green]", "fl[0]", "ch.c", "st[0]", "s.vec", "bm_w[7]", "bm_u[3]", "bm_u[18446744073709551615]",
    // ranges that do not fit and numbers out of range (C08's repaired defects): no result / a parse error, never a panic
    "arr[3..1]", "arr[9..]", "arr[5..]", "arr[6..7]", "arr[1..9]", "vec1[5..]", "vec1[3..1]", "deque[9..]", "pint[2..1]", "arr[1..4][2..1]",
    "arr[-9223372036854775808]", "arr[18446744073709551616]", "arr[1..99999999999999999999]", "arr[99999999999999999999..]",
];

fn gen_eval(rng: &mut Rng, n: u64, first: bool, out: &mut Out, req: &mut Vec<String>) {
    let env = truth();
    req.push("C07 new eval".into());
    for (name, v) in &env { req.push(format!("C07 var {name} {}", ship(v))); }
    // a fixed boundary set, executed on every run: every container kind with exact, wildcard and non-matching literals
    if first { for (name, _) in &env { req.push(format!("C07 eval {}", enc_str(name))); } }
    if first { for t in FIXED { out.count("eval.fixed", 1); req.push(format!("C07 eval {}", enc_str(t))); } }
    for _ in 0..n {
        if let Some(e) = gen_eval_expr(rng, &env, out) {
            let mut r2 = rng.fork();
            let text = print_pre(&e, &mut || pad(&mut r2, 8));
            req.push(format!("C07 eval {}", enc_str(&text)));
        }
    }
}

// ------------------------------------------------------------------------------------------------ decoding of literal ASTs (`C07 disp`)
fn unhexs(s: &str) -> Option<String> { if s.len() % 2 != 0 { return None; } String::from_utf8((0..s.len() / 2).map(|k| u8::from_str_radix(s.get(2 * k..2 * k + 2)?, 16).ok()).collect::<Option<Vec<u8>>>()?).ok() }
fn dec_l(s: &str) -> Option<(L, &str)> {
    let take = |s: &'_ str, f: fn(char) -> bool| -> usize { s.char_indices().find(|(_, c)| !f(*c)).map(|(k, _)| k).unwrap_or(s.len()) };
    let hexd = |c: char| c.is_ascii_digit() || ('a'..='f').contains(&c);
    let (c, r) = (s.chars().next()?, &s[1..]);
    match c {
        '*' => Some((L::Wild, r)),
        's' => { let n = take(r, hexd); Some((L::Str(unhexs(&r[..n])?), &r[n..])) }
        'i' => { let n = take(r, |c| c.is_ascii_digit() || c == '-'); Some((L::Int(r[..n].parse().ok()?), &r[n..])) }
        'f' => { let n = take(r, |c| c.is_ascii_digit() || c == '-' || c == '.'); Some((L::Float(if r[..n].contains('.') { r[..n].to_string() } else { format!("{}.0", &r[..n]) }), &r[n..])) }
        'a' => { let n = take(r, |c| c.is_ascii_digit()); Some((L::Addr(r[..n].parse().ok()?), &r[n..])) }
        'b' => Some((L::Bool(r.starts_with('1')), r.get(1..)?)),
        'e' => { let n = take(r, hexd); let name = unhexs(&r[..n])?; let r = &r[n..];
                 if let Some(r) = r.strip_prefix('(') { let (a, r) = dec_l(r)?; Some((L::Enum(name, Some(Box::new(a))), r.strip_prefix(')')?)) } else { Some((L::Enum(name, None), r)) } }
        '[' => { let mut xs = vec![]; let mut r = r; loop { if let Some(r2) = r.strip_prefix(']') { return Some((L::Arr(xs), r2)); } let r1 = r.strip_prefix(',').unwrap_or(r); let (x, r2) = dec_l(r1)?; xs.push(x); r = r2; } }
        '{' => { let mut kv = vec![]; let mut r = r; loop { if let Some(r2) = r.strip_prefix('}') { return Some((L::Assoc(kv), r2)); } let r1 = r.strip_prefix(',').unwrap_or(r);
                 let n = take(r1, hexd); let k = unhexs(&r1[..n])?; let (x, r2) = dec_l(r1[n..].strip_prefix(':')?)?; kv.push((k, x)); r = r2; } }
        _ => None,
    }
}

/// stable class of a literal whose own canonical text (`Literal::to_string()`) does not parse back to it
fn display_class(l: &L) -> &'static str {
    fn any(l: &L, f: &dyn Fn(&L) -> bool) -> bool { f(l) || match l { L::Enum(_, Some(a)) => any(a, f), L::Arr(xs) => xs.iter().any(|x| any(x, f)), L::Assoc(kv) => kv.iter().any(|(_, x)| any(x, f)), _ => false } }
    if any(l, &|l| matches!(l, L::Assoc(_))) { "literal-display-assoc-array-keys-quoted-not-reparsable" }
    else if any(l, &|l| matches!(l, L::Float(t) if t.parse::<f64>().map(|f| f.fract() == 0.0).unwrap_or(false))) { "literal-display-integral-float-reparsed-as-int" }
    else if any(l, &|l| matches!(l, L::Str(s) if s.contains('"'))) { "literal-display-string-with-double-quote-not-reparsable" }
    else if any(l, &|l| matches!(l, L::Enum(n, _) if n.starts_with("true") || n.starts_with("false"))) { "literal-enum-variant-with-bool-prefix-not-parsable" }
    else { "literal-display-does-not-parse-back" }
}

// ------------------------------------------------------------------------------------------------ live worker
const PROG: &str = "c07_vals";

fn break_line() -> u64 {
    let src = std::fs::read_to_string(crate::live::verif_root().join("progs-src/c07_vals.rs")).expect("progs-src/c07_vals.rs");
    src.lines().position(|l| l.contains("BREAK HERE")).expect("BREAK HERE marker") as u64 + 1
}

/// `Variable` selectors are made local-only (the harness asks about locals of `main`)
fn localise(d: Dqe) -> Dqe {
    match d {
        Dqe::Variable(Selector::Name { var_name, .. }) => Dqe::Variable(Selector::by_name(var_name, true)),
        Dqe::Field(e, f) => Dqe::Field(Box::new(localise(*e)), f),
        Dqe::Index(e, l) => Dqe::Index(Box::new(localise(*e)), l),
        Dqe::Slice(e, l, r) => Dqe::Slice(Box::new(localise(*e)), l, r),
        Dqe::Deref(e) => Dqe::Deref(Box::new(localise(*e))),
        Dqe::Address(e) => Dqe::Address(Box::new(localise(*e))),
        Dqe::Canonic(e) => Dqe::Canonic(Box::new(localise(*e))),
        other => other,
    }
}
fn root_of(d: &Dqe) -> &Dqe {
    match d {
        Dqe::Field(e, _) | Dqe::Index(e, _) | Dqe::Slice(e, _, _) | Dqe::Deref(e) | Dqe::Address(e) | Dqe::Canonic(e) => root_of(e),
        other => other,
    }
}
fn eval_answer(dbg: &bugstalker::debugger::Debugger, text: &str) -> String {
    let (pa, d) = parse_answer(text);
    let Some(d) = d else { return if pa == "err" { "perr".into() } else { pa } };
    if matches!(root_of(&d), Dqe::PtrCast(_) | Dqe::DataCast(_)) { return "unsupported".into(); }
    let d = localise(d);
    let r = std::panic::catch_unwind(std::panic::AssertUnwindSafe(|| match dbg.read_variable(d) {
        Ok(v) if v.len() == 1 => format!("val {}", render(v[0].value())),
        Ok(v) if v.is_empty() => "none".to_string(),
        Ok(v) => format!("many:{}", v.len()),
        Err(_) => "none".to_string(),
    }));
    match r { Ok(a) => a, Err(_) => format!("panic:{}", panic_class(&take_panic())) }
}

fn session(texts: &[String], emit: &mut dyn FnMut(String)) {
    install_silent_hook();
    let root = crate::live::verif_root();
    let prog = crate::live::Prog { name: PROG.into(), path: root.join("progs").join(PROG), base: 0, entry: 0, exit_code: 0, trace: vec![],
        stdout: vec![], file: vec![], text: vec![], symbols: vec![] };
    let mut live = crate::live::Live::launch(&prog).expect("launch");
    live.dbg.set_breakpoint_at_line("c07_vals.rs", break_line()).expect("breakpoint");
    live.dbg.start_debugee().expect("start");
    for t in texts { emit(eval_answer(&live.dbg, t)); }
    drop(live);
}

fn ensure_prog() {
    let r = crate::live::verif_root();
    let bin = r.join("progs").join(PROG);
    let src = r.join("progs-src/c07_vals.rs");
    let stale = match (std::fs::metadata(&bin), std::fs::metadata(&src)) { (Ok(b), Ok(s)) => b.modified().unwrap() < s.modified().unwrap(), _ => true };
    if stale {
        std::fs::create_dir_all(r.join("progs")).unwrap();
        let st = std::process::Command::new("rustup").args(["run", "1.89", "rustc", "-g", "-C", "opt-level=0", "-o"]).arg(r.join("progs/c07_vals-1.89")).arg(&src).status().unwrap();
        assert!(st.success(), "rustc failed for {src:?}");
        let _ = std::fs::remove_file(&bin);
        std::os::unix::fs::symlink("c07_vals-1.89", &bin).unwrap();
    }
}

// ------------------------------------------------------------------------------------------------ conversion of real ASTs (oracle side)
fn l_of_literal(l: &Literal) -> L {
    let low = |x: &LiteralOrWildcard| match x { LiteralOrWildcard::Wildcard => L::Wild, LiteralOrWildcard::Literal(l) => l_of_literal(l) };
    match l {
        Literal::String(s) => L::Str(s.clone()), Literal::Int(i) => L::Int(*i as i128), Literal::Float(f) => L::Float(format!("{f}")),
        Literal::Address(a) => L::Addr(*a as u64), Literal::Bool(b) => L::Bool(*b),
        Literal::EnumVariant(n, a) => L::Enum(n.clone(), a.as_ref().map(|a| Box::new(l_of_literal(a)))),
        Literal::Array(xs) => L::Arr(xs.iter().map(low).collect()),
        Literal::AssocArray(m) => { let mut kv: Vec<(String, L)> = m.iter().map(|(k, v)| (k.clone(), low(v))).collect(); kv.sort_by(|a, b| a.0.cmp(&b.0)); L::Assoc(kv) }
    }
}
fn e_of_dqe(d: &Dqe) -> Option<E> {
    Some(match d {
        Dqe::Variable(Selector::Name { var_name, .. }) => E::Var(var_name.clone()),
        Dqe::Variable(Selector::Any) | Dqe::DataCast(_) => return None,
        Dqe::PtrCast(pc) => E::PtrCast(pc.ty.clone(), pc.ptr as u64),
        Dqe::Field(e, f) => E::Field(Box::new(e_of_dqe(e)?), f.clone()),
        Dqe::Index(e, l) => E::Index(Box::new(e_of_dqe(e)?), l_of_literal(l)),
        Dqe::Slice(e, l, r) => E::Slice(Box::new(e_of_dqe(e)?), l.map(|v| v as u64), r.map(|v| v as u64)),
        Dqe::Deref(e) => E::Deref(Box::new(e_of_dqe(e)?)),
        Dqe::Address(e) => E::Address(Box::new(e_of_dqe(e)?)),
        Dqe::Canonic(e) => E::Canonic(Box::new(e_of_dqe(e)?)),
    })
}

// ------------------------------------------------------------------------------------------------ driver
pub fn gen_requests(rng: &mut Rng, n: u64, out: &mut Out) -> Vec<String> {
    let mut req = vec![];
    let mut r1 = rng.fork();
    gen_parse(&mut r1, n, out, &mut req);
    // with the expected AST of grammar-derived texts (oracle): a second stream
    let mut r3 = rng.fork();
    req.push("C07 new parse".into());
    for _ in 0..n / 4 {
        let d = 1 + r3.below(4) as u32; let e = gen_e(&mut r3, d);
        let mut r4 = r3.fork();
        let text = if r3.chance(1, 2) { print_pre(&e, &mut || String::new()) } else { print_pre(&e, &mut || pad(&mut r4, 25)) };
        if has_big_float(&text) { continue; }
        out.count("parse.with-expected-ast", 1);
        req.push(format!("C07 parse {} {}", enc_str(&text), e_text(&e)));
    }
    let mut r2 = rng.fork();
    let total = (n / 5).clamp(60, 4000);
    let per = 160;
    let mut left = total;
    let mut first = true;
    while left > 0 { let k = left.min(per); gen_eval(&mut r2, k, first, out, &mut req); first = false; left -= k; }
    req
}

pub fn exec(req: &[String], out: &mut Out) {
    install_silent_hook();
    // pass 1: the eval sessions run on live debuggees (one forked worker each, at most 4 at a time)
    let mut sessions: Vec<Vec<String>> = vec![];
    let mut in_eval = false;
    for l in req {
        let t: Vec<&str> = l.split(' ').collect();
        match t.as_slice() {
            ["C07", "new", "eval"] => { in_eval = true; sessions.push(vec![]); }
            ["C07", "new", ..] => in_eval = false,
            ["C07", "eval", x] if in_eval && x.starts_with('x') && unhexs(&x[1..]).is_some() => sessions.last_mut().unwrap().push(dec_str(x)),
            _ => {}
        }
    }
    let results = if sessions.iter().any(|s| !s.is_empty()) {
        ensure_prog();
        let tmp = std::env::temp_dir().join(format!("c07-{}", std::process::id()));
        std::fs::create_dir_all(&tmp).unwrap();
        let par = crate::live::par_default().min(4);
        let r = crate::live::run_sessions(&sessions, &tmp, "c07", par, 4 * crate::live::session_timeout(), |s, emit| session(s, emit));
        let _ = std::fs::remove_dir_all(&tmp);
        r
    } else { vec![] };
    // pass 2: answers in request order + oracles
    let env = truth();
    let mut si: usize = 0; let mut k: usize = 0; in_eval = false;
    for l in req {
        let t: Vec<&str> = l.split(' ').collect();
        let ans = match t.as_slice() {
            ["C07", "new", "parse"] => { in_eval = false; "ok".to_string() }
            ["C07", "new", "eval"] => { in_eval = true; si += 1; k = 0; "ok".to_string() }
            ["C07", "parse", x, rest @ ..] if x.starts_with('x') && unhexs(&x[1..]).is_some() && rest.len() <= 1 => {
                let text = dec_str(x);
                let (a, _) = parse_answer(&text);
                out.count(&format!("parse.outcome.{}", a.split(' ').next().unwrap()), 1);
                if let [expected] = rest {
                    out.oracle_evals += 1;
                    if a != format!("ok {expected}") && a != "bigfloat" {
                        let key = if text.contains("true") || text.contains("false") { "literal-enum-variant-with-bool-prefix-not-parsable" } else { "parse-differs-from-grammar-truth" };
                        out.oracle_fail(key, &format!("the canonical text {text:?} of {expected} parses to: {a}"), json!({"text": text, "expected": expected, "impl": a, "replay": l}));
                    }
                }
                out.sample(json!({"text": text, "impl": a}));
                a
            }
            ["C07", "disp", ast] => {
                match dec_l(ast) {
                    Some((lit, "")) if lit != L::Wild => {
                        let text = format!("a[{}]", to_literal(&lit).to_string());
                        let (a, _) = parse_answer(&text);
                        out.oracle_evals += 1;
                        let expected = format!("ok idx(v61,{})", l_text(&lit));
                        if a != expected {
                            out.oracle_fail(display_class(&lit), &format!("Literal::to_string() = {text:?} parses to {a}, not back to {}", l_text(&lit)), json!({"literal": ast, "text": text, "impl": a, "replay": l}));
                            out.count("display.not-reparsable", 1);
                        } else { out.count("display.reparsable", 1); }
                        // the request the model sees is the parse of the displayed text
                        out.pair(format!("C07 parse {}", enc_str(&text)), a);
                        continue;
                    }
                    _ => "bad-op".to_string(),
                }
            }
            ["C07", "var", _name, _tree] if in_eval => "ok".to_string(),
            ["C07", "eval", x] if in_eval && x.starts_with('x') && unhexs(&x[1..]).is_some() => {
                let text = dec_str(x);
                let (lines, how) = &results[si - 1];
                let a = lines.get(k).cloned().unwrap_or_else(|| format!("crash:{how}"));
                k += 1;
                out.count(&format!("eval.outcome.{}", a.split([' ', ':']).next().unwrap()), 1);
                if a.starts_with("crash") { out.oracle_fail("debugger-crashed-or-hung", &format!("the worker ended ({how}) before answering {text:?}"), json!({"text": text})); }
                // oracle: the documented meaning over the ground truth
                if let (_, Some(d)) = parse_answer(&text) && let Some(e) = e_of_dqe(&d) && !matches!(root_e(&e), E::PtrCast(..)) {
                    let spec = spec_answer(&env, &e);
                    out.oracle_evals += 1;
                    let skip = spec.contains('X') && !spec.contains("val X?") && spec_eval(&env, &e).map(|v| format!("{v:?}").contains("Other")).unwrap_or(false);
                    // the panics of the slice arithmetic (C08's slice-left-greater-than-right-panics, slice-left-past-end-panics,
                    // ptr-slice-zero-sized-element-panics) were repaired (known_findings.txt `fixed:`): any panic is reported here
                    if a != spec && !skip {
                        out.oracle_fail(&classify(&env, &e, &a, &spec), &format!("{text:?}: the debugger answers {a}, the documented meaning over the program's values is {spec}"),
                            json!({"text": text, "impl": a, "spec": spec, "replay": l}));
                    }
                    if out.samples.len() < 5 && a.starts_with("val") && text.len() > 8 { out.sample(json!({"text": text, "impl": a, "spec": spec})); }
                }
                a
            }
            _ => "bad-op".to_string(),
        };
        out.pair(l.clone(), ans);
    }
}

pub fn run(args: &[String]) {
    let a = parse_args(args);
    let mut out = Out::new(&a.out);
    let req = match &a.replay {
        Some(f) => read_lines(f),
        None => { let mut rng = Rng::new(a.seed); gen_requests(&mut rng, a.n, &mut out) }
    };
    exec(&req, &mut out);
    out.finish();
}
