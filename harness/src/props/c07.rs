//! C07: data query expressions mean what the documentation says.
//!
//! Leg (i)  parser: strings through the REAL `expression::parser()` (hook `verif_parse_dqe`), AST as canonical text,
//!          vs the Lean recursive-descent mirror of the grammar (`lean/BsVerif/Model/Dqe.lean`).
//!          O: `Literal::to_string()` (the repo's own canonical text of a literal) must parse back to the literal.
//! Leg (ii) operators: expressions through `Debugger::read_variable` on the live debuggee `progs/c07_vals`, result values
//!          rendered canonically, vs the Lean model of `Value::{field,index,slice,deref,address,canonic,match_literal}`
//!          evaluated over the ground-truth value trees (`TRUTH`, written by hand from the program text).
//!          O: an independent evaluator of the DOCUMENTED semantics (`spec`) over the same truth.
//!
//! Request lines
//!   C07 new parse
//!   C07 parse <xhex text>                     answer: ok <ast> | err | panic | bigfloat
//!   C07 disp <ast of a literal>               answer: <xhex Literal::to_string()>   (model: display of the literal, as found)
//!   C07 new eval
//!   C07 var <name> <value tree>               ground truth of a variable
//!   C07 eval <xhex text>                      answer: val <rendering> | none | perr | panic:<cls> | ...
use crate::util::*;
use bugstalker::debugger::variable::dqe::{Dqe, Literal, LiteralOrWildcard, Selector};
use bugstalker::debugger::variable::value::{SpecializedValue, SupportedScalar, Value};
use bugstalker::ui::command::parser::expression::verif_parse_dqe;
use serde_json::json;
use std::sync::Mutex;

// ------------------------------------------------------------------------------------------------ panics
static LAST_PANIC: Mutex<Option<String>> = Mutex::new(None);
fn install_silent_hook() {
    std::panic::set_hook(Box::new(|info| {
        let msg = if let Some(s) = info.payload().downcast_ref::<&str>() { s.to_string() }
                  else if let Some(s) = info.payload().downcast_ref::<String>() { s.clone() } else { "?".into() };
        *LAST_PANIC.lock().unwrap_or_else(|e| e.into_inner()) = Some(msg);
    }));
}
fn take_panic() -> String { LAST_PANIC.lock().unwrap_or_else(|e| e.into_inner()).take().unwrap_or("?".into()) }
fn panic_class(msg: &str) -> &'static str {
    if msg.contains("attempt to subtract with overflow") { "sub" }
    else if msg.contains("range end index") || msg.contains("out of range for slice") { "drain-left" }
    else if msg.contains("PosOverflow") || msg.contains("negate with overflow") { "num" }
    else { "other" }
}

// ------------------------------------------------------------------------------------------------ canonical text of ASTs
fn hexs(s: &str) -> String { s.bytes().map(|b| format!("{b:02x}")).collect() }

/// floats are compared as normalised token text: Rust's `{}` of an f64 with at most 15 significant digits is the
/// token with trailing fraction zeros (and an empty fraction) removed
fn float_text(f: f64) -> String { format!("{f}") }

fn lit_text(l: &Literal) -> String {
    match l {
        Literal::String(s) => format!("s{}", hexs(s)),
        Literal::Int(i) => format!("i{i}"),
        Literal::Float(f) => format!("f{}", float_text(*f)),
        Literal::Address(a) => format!("a{a}"),
        Literal::Bool(b) => format!("b{}", *b as u8),
        Literal::EnumVariant(n, None) => format!("e{}", hexs(n)),
        Literal::EnumVariant(n, Some(l)) => format!("e{}({})", hexs(n), lit_text(l)),
        Literal::Array(items) => format!("[{}]", items.iter().map(low_text).collect::<Vec<_>>().join(",")),
        Literal::AssocArray(m) => {
            let mut kv: Vec<(String, String)> = m.iter().map(|(k, v)| (k.clone(), low_text(v))).collect();
            kv.sort();
            format!("{{{}}}", kv.iter().map(|(k, v)| format!("{}:{}", hexs(k), v)).collect::<Vec<_>>().join(","))
        }
    }
}
fn low_text(l: &LiteralOrWildcard) -> String {
    match l { LiteralOrWildcard::Wildcard => "*".into(), LiteralOrWildcard::Literal(l) => lit_text(l) }
}
fn dqe_text(d: &Dqe) -> String {
    match d {
        Dqe::Variable(Selector::Name { var_name, .. }) => format!("v{}", hexs(var_name)),
        Dqe::Variable(Selector::Any) => "vany".into(),
        Dqe::PtrCast(pc) => format!("pc({},{})", hexs(&pc.ty), pc.ptr),
        Dqe::Field(e, f) => format!("fld({},{})", dqe_text(e), hexs(f)),
        Dqe::Index(e, l) => format!("idx({},{})", dqe_text(e), lit_text(l)),
        Dqe::Slice(e, l, r) => format!("slc({},{},{})", dqe_text(e), l.map(|v| v.to_string()).unwrap_or("-".into()), r.map(|v| v.to_string()).unwrap_or("-".into())),
        Dqe::Deref(e) => format!("der({})", dqe_text(e)),
        Dqe::Address(e) => format!("adr({})", dqe_text(e)),
        Dqe::Canonic(e) => format!("can({})", dqe_text(e)),
        Dqe::DataCast(_) => "datacast".into(),
    }
}

/// a float-looking token (digits '.' digits) with more than 15 digits in total: the decimal -> f64 -> shortest decimal
/// round trip is not the identity there, so such inputs are answered `bigfloat` by both sides
fn has_big_float(s: &str) -> bool {
    let b = s.as_bytes();
    let mut i = 0;
    while i < b.len() {
        if b[i].is_ascii_digit() {
            let st = i;
            while i < b.len() && b[i].is_ascii_digit() { i += 1; }
            let n1 = i - st;
            if i + 1 < b.len() && b[i] == b'.' && b[i + 1].is_ascii_digit() {
                let st2 = i + 1;
                let mut j = st2;
                while j < b.len() && b[j].is_ascii_digit() { j += 1; }
                if n1 + (j - st2) > 15 { return true; }
                i = j;
            }
        } else { i += 1; }
    }
    false
}

fn parse_answer(text: &str) -> (String, Option<Dqe>) {
    if has_big_float(text) { return ("bigfloat".into(), None); }
    let t = text.to_string();
    match std::panic::catch_unwind(move || verif_parse_dqe(&t)) {
        Ok(Some(d)) => (format!("ok {}", dqe_text(&d)), Some(d)),
        Ok(None) => ("err".into(), None),
        Err(_) => { let _ = take_panic(); ("panic".into(), None) }
    }
}

// ------------------------------------------------------------------------------------------------ rendering of values
fn is_std_type(name: &str) -> bool {
    // structures of the standard library: layout is the environment's business, rendered as `O`
    const STD: &[&str] = &["Vec<", "VecDeque<", "RawVec", "HashMap<", "HashSet<", "BTreeMap<", "BTreeSet<", "String", "&str", "Rc<", "Arc<", "RcBox<", "RcInner<",
        "ArcInner<", "RefCell<", "Cell<", "UnsafeCell<", "NonNull<", "Unique<", "Box<", "RawTable", "RawTableInner", "PhantomData", "Global", "BuildHasherDefault", "NodeRef", "Option<alloc", "Option<core"];
    STD.iter().any(|p| name.starts_with(p))
}

fn render(v: &Value) -> String {
    match v {
        Value::Scalar(s) => match &s.value {
            None => "n".into(),
            Some(sc) => match sc {
                SupportedScalar::F32(f) => format!("f{f}"),
                SupportedScalar::F64(f) => format!("f{f}"),
                SupportedScalar::Bool(b) => if s.raw_address.is_none() && s.type_id.is_none() { format!("Y{}", *b as u8) } else { format!("b{}", *b as u8) },
                SupportedScalar::Char(c) => format!("c{}", hexs(&c.to_string())),
                SupportedScalar::Empty() => "u".into(),
                other => format!("i{other}"),
            },
        },
        Value::Struct(st) => {
            if is_std_type(st.type_ident.name_fmt()) { return "O".into(); }
            format!("S({})", st.members.iter().map(|m| format!("{}={}", m.field_name.as_deref().unwrap_or("_"), render(&m.value))).collect::<Vec<_>>().join(";"))
        }
        Value::Array(a) => match &a.items {
            None => "A?".into(),
            Some(items) => format!("A[{}]", items.iter().map(|it| render(&it.value)).collect::<Vec<_>>().join(",")),
        },
        Value::CEnum(e) => match &e.value { Some(v) => format!("E{v}"), None => "E?".into() },
        Value::RustEnum(e) => match &e.value {
            Some(m) => format!("R{}({})", m.field_name.as_deref().unwrap_or("_"), render(&m.value)),
            None => "R?".into(),
        },
        Value::Pointer(_) => "P".into(),
        Value::Subroutine(_) => "F".into(),
        Value::Specialized { value: None, .. } => "X?".into(),
        Value::Specialized { value: Some(sp), .. } => match sp {
            SpecializedValue::Vector(vv) => format!("V({})", vv.structure.members.first().map(|m| render(&m.value)).unwrap_or("?".into())),
            SpecializedValue::VecDeque(vv) => format!("D({})", vv.structure.members.first().map(|m| render(&m.value)).unwrap_or("?".into())),
            SpecializedValue::BTreeMap(m) => format!("M({})", m.kv_items.iter().map(|(k, v)| format!("{}>{}", render(k), render(v))).collect::<Vec<_>>().join(";")),
            SpecializedValue::HashMap(m) => {
                let mut kv: Vec<String> = m.kv_items.iter().map(|(k, v)| format!("{}>{}", render(k), render(v))).collect();
                kv.sort();
                format!("H({})", kv.join(";"))
            }
            SpecializedValue::BTreeSet(s) => format!("T({})", s.items.iter().map(render).collect::<Vec<_>>().join(";")),
            SpecializedValue::HashSet(s) => { let mut it: Vec<String> = s.items.iter().map(render).collect(); it.sort(); format!("U({})", it.join(";")) }
            SpecializedValue::String(s) => format!("G{}", hexs(&s.value)),
            SpecializedValue::Str(s) => format!("G{}", hexs(&s.value)),
            SpecializedValue::Rc(_) => "RC".into(),
            SpecializedValue::Arc(_) => "RC".into(),
            SpecializedValue::Cell(c) | SpecializedValue::RefCell(c) => format!("C({})", render(c)),
            _ => "X".into(),
        },
        Value::CModifiedVariable(_) => "X".into(),
    }
}

// ------------------------------------------------------------------------------------------------ live worker
const PROG: &str = "c07_vals";
const BREAK_LINE: u64 = 80;

/// `Variable` selectors are made local-only (the harness asks about locals of `main`)
fn localise(d: Dqe) -> Dqe {
    match d {
        Dqe::Variable(Selector::Name { var_name, .. }) => Dqe::Variable(Selector::by_name(var_name, true)),
        Dqe::Field(e, f) => Dqe::Field(Box::new(localise(*e)), f),
        Dqe::Index(e, l) => Dqe::Index(Box::new(localise(*e)), l),
        Dqe::Slice(e, l, r) => Dqe::Slice(Box::new(localise(*e)), l, r),
        Dqe::Deref(e) => Dqe::Deref(Box::new(localise(*e))),
        Dqe::Address(e) => Dqe::Address(Box::new(localise(*e))),
        Dqe::Canonic(e) => Dqe::Canonic(Box::new(localise(*e))),
        other => other,
    }
}

fn eval_answer(dbg: &bugstalker::debugger::Debugger, text: &str) -> String {
    let (pa, d) = parse_answer(text);
    let Some(d) = d else { return if pa == "err" { "perr".into() } else { pa } };
    if matches!(root_of(&d), Dqe::PtrCast(_) | Dqe::DataCast(_)) { return "unsupported".into(); }
    let d = localise(d);
    let r = std::panic::catch_unwind(std::panic::AssertUnwindSafe(|| match dbg.read_variable(d) {
        Ok(v) if v.len() == 1 => format!("val {}", render(v[0].value())),
        Ok(v) if v.is_empty() => "none".to_string(),
        Ok(v) => format!("many:{}", v.len()),
        Err(_) => "none".to_string(),
    }));
    match r { Ok(a) => a, Err(_) => format!("panic:{}", panic_class(&take_panic())) }
}
fn root_of(d: &Dqe) -> &Dqe {
    match d {
        Dqe::Field(e, _) | Dqe::Index(e, _) | Dqe::Slice(e, _, _) | Dqe::Deref(e) | Dqe::Address(e) | Dqe::Canonic(e) => root_of(e),
        other => other,
    }
}

fn session(lines: &[String], emit: &mut dyn FnMut(String)) {
    install_silent_hook();
    let root = crate::live::verif_root();
    let prog = crate::live::Prog { name: PROG.into(), path: root.join("progs").join(PROG), base: 0, entry: 0, exit_code: 0, trace: vec![],
        stdout: vec![], file: vec![], text: vec![], symbols: vec![] };
    let mut live = crate::live::Live::launch(&prog).expect("launch");
    live.dbg.set_breakpoint_at_line("c07_vals.rs", BREAK_LINE).expect("breakpoint");
    live.dbg.start_debugee().expect("start");
    for l in lines {
        let t: Vec<&str> = l.split(' ').collect();
        let a = match t.as_slice() {
            ["C07", "eval", x] if x.starts_with('x') => eval_answer(&live.dbg, &dec_str(x)),
            _ => "bad-op".into(),
        };
        emit(a);
    }
    drop(live);
}

// ------------------------------------------------------------------------------------------------ driver
pub fn gen_requests(_rng: &mut Rng, _n: u64, _out: &mut Out) -> Vec<String> {
    let mut req = vec!["C07 new eval".to_string()];
    for v in ["arr", "arr2", "vec1", "vecs", "deque", "tup", "outer", "sref", "aref", "boxed", "rc", "arc", "cell", "pint", "pp", "s", "st", "hm_i", "hm_s", "hm_t",
              "bm_i", "bm_s", "bm_k", "bm_t", "bm_e", "bm_o", "bm_b", "bm_c", "bm_w", "bm_u", "bm_v", "bm_set", "set_a", "hs_i", "bs_i", "bs_s", "shape1", "shape2", "shape3",
              "opt", "none", "color", "fl", "flag", "ch", "unit", "*boxed", "*rc", "*arc", "~vec1", "~s", "*sref", "*pint", "**pp", "&arr", "*&arr", "bm_o[Some(1)]", "bm_w[5]", "bm_u[-1]",
              "bm_set[{{1,*},{1,2}}]", "bm_set[{{1,2},{1,*}}]", "arr[1..3]", "*&arr[1..3]", "(~vec1).len", "pint[0..2]", "*&pint[0..2]", "outer.pin", "*outer.pin", "bs_i[2]", "&bs_i[2]"] {
        req.push(format!("C07 eval {}", enc_str(v)));
    }
    req
}

pub fn exec(req: &[String], out: &mut Out) {
    install_silent_hook();
    // split into sessions
    let mut i = 0;
    while i < req.len() {
        let t: Vec<&str> = req[i].split(' ').collect();
        match t.as_slice() {
            ["C07", "new", "eval"] => {
                let mut j = i + 1;
                while j < req.len() && !req[j].starts_with("C07 new ") { j += 1; }
                let body: Vec<String> = req[i + 1..j].to_vec();
                let tmp = std::env::temp_dir().join(format!("c07-{}", std::process::id()));
                std::fs::create_dir_all(&tmp).unwrap();
                let res = crate::live::run_sessions(&[body.clone()], &tmp, "c07", 1, 120, |s, emit| session(s, emit));
                out.pair(req[i].clone(), "ok".into());
                let (lines, how) = &res[0];
                for (k, l) in body.iter().enumerate() {
                    let a = lines.get(k).cloned().unwrap_or(format!("crash:{how}"));
                    out.pair(l.clone(), a);
                }
                i = j;
            }
            ["C07", "new", "parse"] => { out.pair(req[i].clone(), "ok".into()); i += 1; }
            ["C07", "parse", x] if x.starts_with('x') => { let (a, _) = parse_answer(&dec_str(x)); out.pair(req[i].clone(), a); i += 1; }
            _ => { out.pair(req[i].clone(), "bad-op".into()); i += 1; }
        }
    }
    let _ = json!({});
}

pub fn run(args: &[String]) {
    let a = parse_args(args);
    let mut out = Out::new(&a.out);
    let req = match &a.replay {
        Some(f) => read_lines(f),
        None => { let mut rng = Rng::new(a.seed); gen_requests(&mut rng, a.n, &mut out) }
    };
    exec(&req, &mut out);
    out.finish();
}
