//! C17, `symbol <regex>` across all loaded objects: `Debugger::get_symbols` against the Lean model of the registry (K)
//! and against the symbol tables read independently from the ELF files of the objects the process has mapped (O).
//!
//!   C17 new sym <prog>                     implementation: a debugger on progs/<prog> (not started); model: empty registry
//!   C17 symobj <file> <0|1> <table|none>   an object the debugger is expected to know from now on: file name, has DWARF
//!                                          units, entries of `.symtab` in table order (`x<hex demangled name>:<kind>:<st_value>`),
//!                                          `none` = no `.symtab`; read by `elf_facts` below, NOT by the debugger
//!   C17 symobjs                            the objects of the registry: sorted `x<file name>:<has DWARF>`
//!   C17 sym <alt>,<alt>.. <mapped>         `symbol <regex>`; an alternative is `<^?><$?>x<hex literal>`; the implementation
//!                                          gets the rendered regex (literals escaped); answer: sorted `name:kind:addr`.
//!                                          <mapped> is REWRITTEN by `exec`: the file names of the ELF objects the process has
//!                                          mapped (ld.so's list before the start); when the `symobj` lines so far do not declare
//!                                          exactly these objects, both sides answer `objects-not-declared` (so the shrinker
//!                                          cannot cut the model's registry away from under a query)
//!   C17 symrun <template>                  break at the function, start / continue until it is hit
//! Everything that spawns a process (ld.so's own list of start-up objects) happens before the debugger exists.
use crate::util::*;
use serde_json::json;
use std::collections::{BTreeMap, BTreeSet};
use std::path::{Path, PathBuf};

// ------------------------------------------------------------------------------------------ independent ELF reader
#[derive(Clone, Debug, PartialEq, Eq, PartialOrd, Ord)]
pub struct Sym { pub name: String, pub kind: u64, pub addr: u64 }

pub struct ElfFacts { pub symtab: Option<Vec<Sym>>, pub dynsym: Vec<Sym>, pub has_dwarf: bool }

fn rd16(b: &[u8], o: usize) -> Option<u64> { Some(u16::from_le_bytes(b.get(o..o + 2)?.try_into().ok()?) as u64) }
fn rd32(b: &[u8], o: usize) -> Option<u64> { Some(u32::from_le_bytes(b.get(o..o + 4)?.try_into().ok()?) as u64) }
fn rd64(b: &[u8], o: usize) -> Option<u64> { Some(u64::from_le_bytes(b.get(o..o + 8)?.try_into().ok()?)) }
fn cstr(b: &[u8], o: usize) -> &[u8] { let s = b.get(o..).unwrap_or(&[]); &s[..s.iter().position(|c| *c == 0).unwrap_or(s.len())] }

/// `SymbolKind` as a number: 0 Unknown, 1 Null, 2 Text, 3 Data, 4 Section, 5 File, 6 Label, 7 Tls
fn kind_of(st_type: u8, index: usize) -> u64 {
    match st_type { 0 if index == 0 => 1, 0 => 0, 1 | 5 => 3, 2 | 10 => 2, 3 => 4, 4 => 5, 6 => 7, _ => 0 }
}
pub fn kind_code(debug_name: &str) -> u64 {
    match debug_name { "Unknown" => 0, "Null" => 1, "Text" => 2, "Data" => 3, "Section" => 4, "File" => 5, "Label" => 6, "Tls" => 7, _ => 99 }
}

/// one ELF file: (`.symtab`, `.dynsym`, has a non-empty `.debug_info`, build id, debug link). ELF64 little-endian only
/// (everything this machine maps). `None`: not an ELF file.
fn elf_file(path: &Path) -> Option<(ElfFacts, Option<Vec<u8>>, Option<String>)> {
    let b = std::fs::read(path).ok()?;
    if b.get(..4)? != b"\x7fELF" || b[4] != 2 || b[5] != 1 { return None; }
    let (shoff, shentsize, shnum, shstrndx) = (rd64(&b, 0x28)? as usize, rd16(&b, 0x3a)? as usize, rd16(&b, 0x3c)? as usize, rd16(&b, 0x3e)? as usize);
    let sh = |i: usize| -> Option<(u64, u64, usize, usize, usize, usize)> {   // name, type, offset, size, link, entsize
        let o = shoff + i * shentsize;
        Some((rd32(&b, o)?, rd32(&b, o + 4)?, rd64(&b, o + 0x18)? as usize, rd64(&b, o + 0x20)? as usize, rd32(&b, o + 0x28)? as usize, rd64(&b, o + 0x38)? as usize))
    };
    let shstr_off = sh(shstrndx).map(|s| s.2).unwrap_or(0);
    let mut f = ElfFacts { symtab: None, dynsym: vec![], has_dwarf: false };
    let (mut build_id, mut debug_link) = (None, None);
    for i in 0..shnum {
        let Some((name, ty, off, size, link, entsize)) = sh(i) else { continue };
        let sname = cstr(&b, shstr_off + name as usize);
        if sname == b".debug_info" && ty == 1 && size > 0 { f.has_dwarf = true; }
        if sname == b".note.gnu.build-id" && ty == 7 && let (Some(namesz), Some(descsz)) = (rd32(&b, off), rd32(&b, off + 4)) {
            let d = off + 12 + ((namesz as usize + 3) & !3);
            build_id = b.get(d..d + descsz as usize).map(|x| x.to_vec());
        }
        if sname == b".gnu_debuglink" && ty == 1 { debug_link = String::from_utf8(cstr(&b, off).to_vec()).ok(); }
        if ty != 2 && ty != 11 { continue; }
        let stroff = sh(link).map(|s| s.2).unwrap_or(0);
        let es = if entsize == 0 { 24 } else { entsize };
        let mut v = vec![];
        for k in 0..size / es {
            let o = off + k * es;
            let (Some(st_name), Some(info), Some(value)) = (rd32(&b, o), b.get(o + 4).copied(), rd64(&b, o + 8)) else { break };
            let raw = String::from_utf8(cstr(&b, stroff + st_name as usize).to_vec()).unwrap_or_default();
            v.push(Sym { name: demangle(&raw), kind: kind_of(info & 0xf, k), addr: value });
        }
        if ty == 2 { if !v.is_empty() && f.symtab.is_none() { f.symtab = Some(v); } } else if f.dynsym.is_empty() { f.dynsym = v; }
    }
    Some((f, build_id, debug_link))
}

fn find_named(dir: &Path, name: &str, depth: u32) -> Option<PathBuf> {
    let mut entries: Vec<PathBuf> = std::fs::read_dir(dir).ok()?.filter_map(|e| e.ok().map(|e| e.path())).collect();
    entries.sort();
    for p in &entries { if p.is_file() && base(p).contains(name) { return Some(p.clone()); } }
    if depth > 0 { for p in &entries { if p.is_dir() && let Some(r) = find_named(p, name, depth - 1) { return Some(r); } } }
    None
}

/// The symbols and DWARF of a loaded object as a debugger sees them: those of its separate debug file when one is
/// installed (`/usr/lib/debug/.build-id/xx/yyyy.debug` for the object's build id; for an object without a build id the
/// file named by `.gnu_debuglink` under /usr/lib/debug), else the object's own. `.dynsym` is always the object's own.
pub fn elf_facts(path: &Path) -> Option<std::sync::Arc<ElfFacts>> {
    // (cached per process; a worker forked after the generator ran inherits the generator's cache)
    static CACHE: std::sync::Mutex<BTreeMap<PathBuf, Option<std::sync::Arc<ElfFacts>>>> = std::sync::Mutex::new(BTreeMap::new());
    if let Some(f) = CACHE.lock().unwrap().get(path) { return f.clone(); }
    let f = elf_facts_uncached(path).map(std::sync::Arc::new);
    CACHE.lock().unwrap().insert(path.to_path_buf(), f.clone());
    f
}

fn is_elf(path: &Path) -> bool {
    use std::io::Read;
    let mut m = [0u8; 4];
    std::fs::File::open(path).and_then(|mut f| f.read_exact(&mut m)).is_ok() && &m == b"\x7fELF"
}

fn elf_facts_uncached(path: &Path) -> Option<ElfFacts> {
    let (own, build_id, debug_link) = elf_file(path)?;
    let sep = match (&build_id, &debug_link) {
        (Some(id), _) if id.len() >= 2 => Some(PathBuf::from(format!("/usr/lib/debug/.build-id/{:02x}/{}.debug", id[0], id[1..].iter().map(|b| format!("{b:02x}")).collect::<String>()))),
        (Some(_), _) => None,
        (None, Some(l)) if !l.is_empty() => find_named(Path::new("/usr/lib/debug"), l, 6),
        _ => None,
    };
    if let Some(sep) = sep && let Some((dbgf, _, _)) = elf_file(&sep) {
        return Some(ElfFacts { symtab: dbgf.symtab, dynsym: own.dynsym, has_dwarf: dbgf.has_dwarf });
    }
    Some(own)
}

// ------------------------------------------------------------------------------------------ independent demangler
// Rust legacy mangling (`_ZN<len><ident>..E`, hash kept) and the `_RNvC<crate>_<ident>` subset of v0 that a 1.89
// binary built with legacy mangling contains (the `__rustc::` allocator shims). Everything else is printed as it is.
fn is_symbol_like(s: &str) -> bool { s.chars().all(|c| c.is_ascii_alphanumeric() || c.is_ascii_punctuation()) }

pub fn demangle(s0: &str) -> String {
    let mut s = s0;
    if let Some(i) = s.find(".llvm.") && s[i + 6..].chars().all(|c| matches!(c, 'A'..='F' | '0'..='9' | '@')) { s = &s[..i]; }
    let parsed = legacy(s).or_else(|| v0_subset(s));
    match parsed {
        Some((text, rest)) if rest.is_empty() || (rest.starts_with('.') && is_symbol_like(rest)) => format!("{text}{rest}"),
        _ => s.to_string(),
    }
}

fn legacy(s: &str) -> Option<(String, &str)> {
    let inner = s.strip_prefix("_ZN").or_else(|| s.strip_prefix("ZN")).or_else(|| s.strip_prefix("__ZN"))?;
    if !inner.is_ascii() { return None; }
    let b = inner.as_bytes();
    let mut i = 0; let mut out = String::new(); let mut first = true;
    loop {
        let c = *b.get(i)?;
        if c == b'E' { i += 1; break; }
        if !c.is_ascii_digit() { return None; }
        let mut len = 0usize;
        while b.get(i)?.is_ascii_digit() { len = len.checked_mul(10)?.checked_add((b[i] - b'0') as usize)?; i += 1; }
        let ident = inner.get(i..i + len)?; i += len;
        if i >= b.len() { return None; }      // the element must be followed by another element or `E`
        if !first { out.push_str("::"); }
        first = false;
        unescape(ident, &mut out);
    }
    Some((out, &inner[i..]))
}

fn unescape(ident: &str, out: &mut String) {
    let mut rest = ident;
    if rest.starts_with("_$") { rest = &rest[1..]; }
    loop {
        if rest.starts_with('.') {
            if rest[1..].starts_with('.') { out.push_str("::"); rest = &rest[2..]; } else { out.push('.'); rest = &rest[1..]; }
        } else if rest.starts_with('$') {
            let Some(end) = rest[1..].find('$') else { break };
            let (esc, after) = (&rest[1..=end], &rest[end + 2..]);
            let un = match esc {
                "SP" => "@", "BP" => "*", "RF" => "&", "LT" => "<", "GT" => ">", "LP" => "(", "RP" => ")", "C" => ",",
                _ => {
                    if let Some(d) = esc.strip_prefix('u') && d.chars().all(|c| matches!(c, '0'..='9' | 'a'..='f'))
                        && let Some(c) = u32::from_str_radix(d, 16).ok().and_then(char::from_u32) && !c.is_control() {
                        out.push(c); rest = after; continue;
                    }
                    break;
                }
            };
            out.push_str(un); rest = after;
        } else if let Some(i) = rest.find(['$', '.']) { out.push_str(&rest[..i]); rest = &rest[i..]; }
        else { break; }
    }
    out.push_str(rest);
}

/// `_RNvC[s<base62>_]<len>[_]<crate><len>[_]<ident>`  ->  `crate[<hex disambiguator>]::ident`
fn v0_subset(s: &str) -> Option<(String, &str)> {
    let mut r = s.strip_prefix("_RNvC")?;
    let mut dis: u64 = 0;
    if let Some(t) = r.strip_prefix('s') {
        let end = t.find('_')?;
        let mut x: u64 = 0;
        for c in t[..end].chars() {
            let d = match c { '0'..='9' => c as u64 - '0' as u64, 'a'..='z' => 10 + c as u64 - 'a' as u64, 'A'..='Z' => 36 + c as u64 - 'A' as u64, _ => return None };
            x = x.checked_mul(62)?.checked_add(d)?;
        }
        dis = if end == 0 { 1 } else { x.checked_add(2)? };
        r = &t[end + 1..];
    }
    fn ident(r: &str) -> Option<(&str, &str)> {
        if r.starts_with('u') { return None; }     // punycode: outside the subset
        let n = r.find(|c: char| !c.is_ascii_digit())?;
        let len: usize = r[..n].parse().ok()?;
        let mut t = &r[n..];
        if let Some(u) = t.strip_prefix('_') { t = u; }
        Some((t.get(..len)?, &t[len..]))
    }
    let (krate, r) = ident(r)?;
    let (name, r) = ident(r)?;
    Some((format!("{krate}[{dis:x}]::{name}"), r))
}

// ------------------------------------------------------------------------------------------ patterns
#[derive(Clone, Debug)]
pub struct Alt { pub start: bool, pub end: bool, pub lit: String }

pub fn enc_alts(a: &[Alt]) -> String { enc_list(a, |x| format!("{}{}{}", x.start as u8, x.end as u8, enc_str(&x.lit))) }
pub fn dec_alts(tok: &str) -> Option<Vec<Alt>> {
    if tok == "-" { return None; }
    tok.split(',').map(|t| {
        let b = t.as_bytes();
        if b.len() < 3 || !matches!(b[0], b'0' | b'1') || !matches!(b[1], b'0' | b'1') || b[2] != b'x' || (b.len() - 3) % 2 != 0 || !t[3..].chars().all(|c| c.is_ascii_hexdigit()) { return None; }
        let bytes: Vec<u8> = (3..b.len()).step_by(2).map(|i| u8::from_str_radix(&t[i..i + 2], 16).unwrap()).collect();
        Some(Alt { start: b[0] == b'1', end: b[1] == b'1', lit: String::from_utf8(bytes).ok()? })
    }).collect()
}
/// the text the user would type
pub fn render(alts: &[Alt]) -> String {
    alts.iter().map(|a| {
        let mut s = String::new();
        if a.start { s.push('^'); }
        for c in a.lit.chars() { if "\\.+*?()|[]{}^$#&-~".contains(c) { s.push('\\'); } s.push(c); }
        if a.end { s.push('$'); }
        s
    }).collect::<Vec<_>>().join("|")
}
/// what the pattern denotes, stated with `str` operations (no regex engine)
pub fn denotes(alts: &[Alt], name: &str) -> bool {
    alts.iter().any(|a| match (a.start, a.end) {
        (true, true) => name == a.lit, (true, false) => name.starts_with(&a.lit),
        (false, true) => name.ends_with(&a.lit), (false, false) => name.contains(&a.lit),
    })
}

// ------------------------------------------------------------------------------------------ programs
pub struct SymProg { pub name: &'static str, pub main: &'static str, pub marker: &'static str, pub late: &'static [&'static str] }
pub const SYM_PROGS: &[SymProg] = &[
    SymProg { name: "c17_sym_startup", main: "c17sym::main", marker: "c17m_after_dlopen", late: &[] },
    SymProg { name: "c17_sym_dl", main: "c17sym::main", marker: "c17m_after_dlopen", late: &["libc17p.so", "libc17s.so"] },
];

fn progs_dir() -> PathBuf { crate::live::verif_root().join("progs") }
fn base(p: &Path) -> String { p.file_name().map(|s| s.to_string_lossy().to_string()).unwrap_or_default() }

/// the objects the dynamic linker maps at start-up, by ld.so's own account (`LD_TRACE_LOADED_OBJECTS`), the executable first
pub fn startup_objects(prog: &Path) -> Vec<PathBuf> {
    let mut v = vec![prog.to_path_buf()];
    if let Ok(o) = std::process::Command::new(prog).env("LD_TRACE_LOADED_OBJECTS", "1").output() {
        for l in String::from_utf8_lossy(&o.stdout).lines() {
            let l = l.trim();
            let p = match l.split_once("=>") { Some((_, r)) => r.split_whitespace().next(), None => l.split_whitespace().next() };
            if let Some(p) = p && p.starts_with('/') { v.push(PathBuf::from(p)); }
        }
    }
    v
}

fn enc_obj_line(path: &Path, f: &ElfFacts) -> String {
    let tab = match &f.symtab { None => "none".to_string(), Some(t) => enc_list(t, |s| format!("{}:{}:{}", enc_str(&s.name), s.kind, s.addr)) };
    format!("C17 symobj {} {} {tab}", enc_str(&base(path)), f.has_dwarf as u8)
}

// ------------------------------------------------------------------------------------------ generator
fn cut(rng: &mut Rng, s: &str, lo: usize, hi: usize) -> usize {
    let mut c = rng.range(lo as u64, hi.max(lo) as u64) as usize;
    while c < s.len() && !s.is_char_boundary(c) { c += 1; }
    c.min(s.len())
}

fn gen_alt(rng: &mut Rng, out: &mut Out, pools: &[(String, Vec<String>)]) -> Alt {
    // pick the object first (so that small libraries are hit as often as the executable), then one of its names
    let (class, names) = rng.pick(pools);
    let name = rng.pick(names).clone();
    out.count(&format!("sym.target.{class}"), 1);
    match rng.below(10) {
        0..=2 => { out.count("sym.alt.exact", 1); Alt { start: true, end: true, lit: name } }
        3..=4 => { out.count("sym.alt.prefix", 1); let c = cut(rng, &name, 1, name.len()); Alt { start: true, end: false, lit: name[..c].to_string() } }
        5 => { out.count("sym.alt.suffix", 1); let c = cut(rng, &name, 0, name.len().saturating_sub(1)); Alt { start: false, end: true, lit: name[c..].to_string() } }
        6..=7 => {
            out.count("sym.alt.infix", 1);
            let a = cut(rng, &name, 0, name.len().saturating_sub(1)); let b = cut(rng, &name, a + 1, name.len());
            Alt { start: false, end: false, lit: name[a..b.max(a)].to_string() }
        }
        8 => { out.count("sym.alt.near_miss", 1); Alt { start: true, end: true, lit: format!("{name}x") } }   // a full name plus one character
        _ => { out.count("sym.alt.nothing", 1); Alt { start: rng.chance(1, 2), end: rng.chance(1, 2), lit: format!("zz_no_such_symbol_{}", rng.below(100)) } }
    }
}

fn gen_queries(rng: &mut Rng, out: &mut Out, pools: &[(String, Vec<String>)], n: u64, req: &mut Vec<String>) {
    for _ in 0..n {
        let k = match rng.below(10) { 0..=5 => 1, 6..=8 => 2, _ => 3 };
        let mut alts: Vec<Alt> = (0..k).map(|_| gen_alt(rng, out, pools)).collect();
        if rng.chance(1, 40) { out.count("sym.alt.everything", 1); alts = vec![Alt { start: false, end: false, lit: String::new() }]; }
        if rng.chance(1, 40) { out.count("sym.alt.empty_name", 1); alts = vec![Alt { start: true, end: true, lit: String::new() }]; }
        out.count(&format!("sym.query.alts{k}"), 1);
        req.push(format!("C17 sym {} -", enc_alts(&alts)));
    }
}

fn class_of(file: &str, f: &ElfFacts, is_exe: bool) -> String {
    if is_exe { "exe".into() } else if f.symtab.is_none() { if file.starts_with("libc17") { "lib_no_symtab".into() } else { "system_lib_no_symtab".into() } }
    else if f.has_dwarf { "lib_dwarf".into() } else { "lib_no_dwarf".into() }
}

pub fn gen_sym_requests(rng: &mut Rng, n: u64, out: &mut Out) -> Vec<String> {
    let mut req = vec![];
    // queries per phase: 10 in the quick tier, 80 in the thorough tier
    let q = if n > 100_000 { 80 } else { 10 };
    for sp in SYM_PROGS {
        let exe = progs_dir().join(sp.name);
        if !exe.exists() { out.count("sym.prog_missing", 1); continue; }
        req.push(format!("C17 new sym {}", sp.name));
        let mut pools: Vec<(String, Vec<String>)> = vec![];
        let add = |p: &Path, is_exe: bool, req: &mut Vec<String>, pools: &mut Vec<(String, Vec<String>)>| {
            let Some(f) = elf_facts(p) else { return };
            req.push(enc_obj_line(p, &f));
            let class = class_of(&base(p), &f, is_exe);
            // names a user can ask for: the object's `.symtab` names, else its `.dynsym` names
            let mut names: Vec<String> = f.symtab.as_ref().unwrap_or(&f.dynsym).iter().map(|s| s.name.clone()).filter(|n| !n.is_empty()).collect();
            names.sort(); names.dedup();
            // the executable's own crate and exported names are as interesting as the thousand names of std
            if is_exe { let own: Vec<String> = names.iter().filter(|n| n.contains("c17")).cloned().collect(); if !own.is_empty() { pools.push(("exe_own".into(), own)); } }
            if !names.is_empty() && class != "system_lib_no_symtab" { pools.push((class, names)); }
            else if !names.is_empty() { let few: Vec<String> = names.into_iter().step_by(97).collect(); pools.push((class, few)); }
        };
        for (i, p) in startup_objects(&exe).iter().enumerate() { add(p, i == 0, &mut req, &mut pools); }
        req.push("C17 symobjs".into());
        gen_queries(rng, out, &pools, q, &mut req);
        req.push(format!("C17 symrun {}", enc_str(sp.main)));
        req.push("C17 symobjs".into());
        gen_queries(rng, out, &pools, q, &mut req);
        for l in sp.late { add(&progs_dir().join(l), false, &mut req, &mut pools); }
        req.push(format!("C17 symrun {}", enc_str(sp.marker)));
        req.push("C17 symobjs".into());
        // after a dlopen the new objects are what matters
        if !sp.late.is_empty() { let n = pools.len(); let late: Vec<_> = pools[n - sp.late.len().min(n)..].to_vec(); pools.extend(late.clone()); pools.extend(late); }
        gen_queries(rng, out, &pools, q, &mut req);
        out.count(&format!("sym.{}", sp.name), 1);
    }
    req
}

// ------------------------------------------------------------------------------------------ interpreter + oracle
/// file-backed ELF objects of /proc/<pid>/maps
fn mapped_objects(pid: i32) -> Vec<PathBuf> {
    let mut seen = BTreeSet::new();
    let mut v = vec![];
    for (_, _, _, path) in crate::live::proc_maps(pid) {
        if !path.starts_with('/') || !seen.insert(path.clone()) { continue; }
        let p = PathBuf::from(&path);
        if is_elf(&p) { v.push(p); }
    }
    v
}

fn tokens(v: &[Sym]) -> Vec<String> {
    let mut t: Vec<String> = v.iter().map(|s| format!("{}:{}:{}", enc_str(&s.name), s.kind, s.addr)).collect();
    t.sort();
    t
}

/// what a reader of one `.symtab` sees: one entry per name, the last one
fn last_per_name(t: &[Sym]) -> Vec<Sym> {
    let mut m: BTreeMap<&str, &Sym> = BTreeMap::new();
    for s in t { m.insert(&s.name, s); }
    m.values().map(|s| (*s).clone()).collect()
}

pub fn sym_session(lines: &[String], emit: &mut dyn FnMut(String)) {
    use bugstalker::debugger::StopReason;
    let prog = lines[0].split(' ').nth(3).unwrap_or("");
    let exe = progs_dir().join(prog);
    // before the debugger exists: ld.so's list of start-up objects (a child process) and their ELF facts
    let startup = startup_objects(&exe);
    let mut facts: BTreeMap<PathBuf, std::sync::Arc<ElfFacts>> = BTreeMap::new();
    for p in &startup { if let Some(f) = elf_facts(p) { facts.insert(p.clone(), f); } }
    let (_r, w) = os_pipe::pipe().unwrap();
    bugstalker::debugger::rust::Environment::init(None);
    let runner = bugstalker::debugger::process::Child::new(exe.to_str().unwrap(), Vec::<String>::new(), None::<&Path>, w.try_clone().unwrap(), w);
    let mut dbg = match runner.install().map_err(|e| e.to_string()).and_then(|pr| bugstalker::debugger::DebuggerBuilder::<bugstalker::debugger::NopHook>::new().build(pr).map_err(|e| e.to_string())) {
        Ok(d) => d, Err(e) => { emit(format!("launch-failed {e}")); return; }
    };
    emit("ok".into());
    let mut started = false;
    let mut dynsym_reported = 0;
    let mut declared: BTreeSet<String> = BTreeSet::new();
    // the objects the independent side takes as loaded: before the start ld.so's list, afterwards /proc/<pid>/maps
    let mut truth: Vec<PathBuf> = startup.iter().filter(|p| facts.contains_key(*p)).cloned().collect();
    let oracle = |emit: &mut dyn FnMut(String), key: &str, what: String, replay: serde_json::Value| emit(format!("!oracle {}", json!({"key": key, "what": what, "replay": replay})));
    for line in &lines[1..] {
        let t: Vec<&str> = line.split(' ').collect();
        match t.as_slice() {
            ["C17", "symobj", f, "0" | "1", _tab] => { declared.insert(f.to_string()); emit("ok".into()) }
            ["C17", "symrun", tpl] => {
                let tpl = dec_str(tpl);
                let set = dbg.set_breakpoint_at_fn(&tpl).map(|v| v.len()).map_err(|e| e.to_string());
                let r = match set {
                    Ok(_) => { let r = if started { dbg.continue_debugee_with_reason() } else { dbg.start_debugee_with_reason() }; started = true; r.map_err(|e| e.to_string()) }
                    Err(e) => Err(e),
                };
                let _ = dbg.remove_breakpoint_at_fn(&tpl);
                match r {
                    Ok(StopReason::Breakpoint(..)) => {
                        truth = mapped_objects(dbg.process().pid().as_raw());
                        for p in &truth { if !facts.contains_key(p) && let Some(f) = elf_facts(p) { facts.insert(p.clone(), f); } }
                        emit("ok".into())
                    }
                    Ok(other) => emit(format!("not-at-breakpoint {other:?}").replace(' ', "_")),
                    Err(e) => emit(format!("err {e}").replace(' ', "_")),
                }
            }
            ["C17", "symobjs"] => {
                let mut got: Vec<String> = dbg.shared_libs().iter().map(|r| format!("{}:{}", enc_str(&base(&r.path)), r.has_debug_info as u8)).collect();
                got.sort();
                let mut want: Vec<String> = truth.iter().map(|p| format!("{}:{}", enc_str(&base(p)), facts[p].has_dwarf as u8)).collect();
                want.sort();
                if got != want {
                    let show = |v: &[String]| v.iter().map(|t| { let (n, d) = t.split_once(':').unwrap(); format!("{}{}", dec_str(n), if d == "1" { " (DWARF)" } else { "" }) }).collect::<Vec<_>>();
                    oracle(emit, "known-objects-differ-from-mapped-objects", format!("{prog}, {}: the debugger knows {:?}, the process has mapped (before the start: ld.so lists) {:?}",
                        if started { "stopped" } else { "before the start" }, show(&got), show(&want)), json!({"prog": prog, "started": started}));
                }
                emit(enc_list(&got, |s| s.clone()));
            }
            ["C17", "sym", a, _mapped] => {
                let Some(alts) = dec_alts(a) else { emit("bad-op".into()); continue };
                let mapped: BTreeSet<String> = truth.iter().map(|p| enc_str(&base(p))).collect();
                emit(format!("!req C17 sym {a} {}", enc_list(&mapped.iter().cloned().collect::<Vec<_>>(), |s| s.clone())));
                if mapped != declared { emit("objects-not-declared".into()); continue; }
                let re = render(&alts);
                let got: Vec<Sym> = match dbg.get_symbols(&re) {
                    Ok(v) => v.iter().map(|s| Sym { name: s.name.to_string(), kind: kind_code(&format!("{:?}", s.kind)), addr: u64::from(s.addr) }).collect(),
                    Err(e) => { emit(format!("err {e}").replace(' ', "_")); continue }
                };
                let got_t = tokens(&got);
                // ---- oracle: the matching entries of the `.symtab` of every loaded object ...
                let mut want: Vec<Sym> = vec![];
                for p in &truth { if let Some(t) = &facts[p].symtab { want.extend(last_per_name(t).into_iter().filter(|s| denotes(&alts, &s.name))); } }
                let want_t = tokens(&want);
                if got_t != want_t {
                    // multiset differences (the same name:kind:value may be listed once per object)
                    let diff = |a: &[String], b: &[String]| -> Vec<String> {
                        let mut left: BTreeMap<&String, i64> = BTreeMap::new();
                        for x in b { *left.entry(x).or_insert(0) += 1; }
                        a.iter().filter(|x| { let c = left.entry(*x).or_insert(0); *c -= 1; *c < 0 }).cloned().collect()
                    };
                    let (missing_v, extra_v) = (diff(&want_t, &got_t), diff(&got_t, &want_t));
                    let missing: Vec<&String> = missing_v.iter().collect();
                    let extra: Vec<&String> = extra_v.iter().collect();
                    let show = |v: &[&String]| v.iter().take(6).map(|t| { let mut it = t.split(':'); format!("{} (kind {}, value {})", dec_str(it.next().unwrap()), it.next().unwrap(), it.next().unwrap()) }).collect::<Vec<_>>();
                    // objects none of whose matching symbols were listed
                    let skipped: Vec<String> = truth.iter().filter(|p| facts[*p].symtab.as_ref().is_some_and(|t| {
                        let m: Vec<Sym> = last_per_name(t).into_iter().filter(|s| denotes(&alts, &s.name)).collect();
                        !m.is_empty() && tokens(&m).iter().all(|x| missing.contains(&x))
                    })).map(|p| base(p)).collect();
                    let key = if !missing.is_empty() && extra.is_empty() { "symbol-listing-misses-symtab-symbols" }
                        else if missing.is_empty() { "symbol-listing-has-symbols-not-in-any-symtab" } else { "symbol-listing-differs-from-symtabs" };
                    oracle(emit, key, format!("{prog}, {}: `symbol {re}` lists {} entries, the .symtab sections of the {} loaded objects have {} matching; missing {:?}{}, unexpected {:?}",
                        if started { "stopped" } else { "before the start" }, got_t.len(), truth.len(), want_t.len(), show(&missing),
                        if skipped.is_empty() { String::new() } else { format!(" (every match of {skipped:?} is missing)") }, show(&extra)),
                        json!({"prog": prog, "regex": re, "started": started}));
                }
                // ---- ... and, for the statement's "ELF symbols", the matching `.dynsym` names of every loaded object
                let listed: BTreeSet<&str> = got.iter().map(|s| s.name.as_str()).collect();
                let mut unlisted: Vec<(String, String)> = vec![];
                for p in &truth { for s in &facts[p].dynsym { if !s.name.is_empty() && denotes(&alts, &s.name) && !listed.contains(s.name.as_str()) && facts[p].symtab.is_none() { unlisted.push((base(p), s.name.clone())); } } }
                if !unlisted.is_empty() && dynsym_reported < 2 {
                    dynsym_reported += 1;
                    oracle(emit, "symbol-of-object-without-symtab-not-listed", format!("{prog}: `symbol {re}` does not list {:?} — dynamic symbols of loaded objects that have no .symtab ({} such names match)",
                        unlisted.iter().take(4).collect::<Vec<_>>(), unlisted.len()), json!({"prog": prog, "regex": re, "started": started}));
                }
                emit(enc_list(&got_t, |s| s.clone()));
            }
            _ => emit("bad-op".into()),
        }
    }
}
