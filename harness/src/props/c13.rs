//! C13: DAP breakpoint requests replace; options are honoured whenever set.
//!
//! The real `DebugSession` is driven in-process over a mock transport (one forked worker per session) on the
//! debuggee `progs-src/c13_loop.rs`. Request lines (a session = one adapter + one debuggee):
//!
//!   C13 new <sid> <prog> <tau>          initialize + launch; <tau> = the reference trace restricted to the candidate
//!                                       addresses, items `<global pc hex>.<env>` (env: 0 = `odd`/`big` not in scope,
//!                                       1 + odd + 2*big inside `work`/`ident`) — the abstract program of the model
//!   C13 setb <src> <bp,...>             setBreakpoints; bp = `<line>/<addr+addr..|->/<cond>/<hit>/<log>`; the address list
//!                                       is the line's resolution (all locations, in the order the debugger reports them)
//!   C13 setf <bp,...>                   setFunctionBreakpoints; bp = `<x-hex name>/<addrs>/<cond>/<hit>/<log>`
//!   C13 seti <bp,...>                   setInstructionBreakpoints; bp = `<global addr hex>/<valid 0|1>/<cond>/<hit>/<log>`
//!   C13 setd <bp,...>                   setDataBreakpoints; bp = `<slot address index>/<size>/<access w|rw|r>`
//!   C13 confdone | cont | restart       run commands
//!   C13 hc <x-hex text> <hits>          pure leg: HitCondition::parse(text) and .matches(hits)
//!
//! `exec` REWRITES the address lists and the trace of the request lines with what this binary resolves to (so corpus
//! files survive a rebuild of the debuggee). Answers: set* -> `<id>:<verified>,... i=<INT3 addresses in user text>`;
//! run commands -> `o=<console outputs> <stop A|entry A|entry -|exit|err> i=<...>`.
//!
//! K: the answers are compared with the Lean model `Driver.C13` (Model/DapBp.lean). The INT3 set is read by the
//! harness through /proc/<pid>/mem (text vs ELF file), the stop pc through /proc/<tid>/syscall.
//! O: an independent specification written from the property statement (`Spec` below): latest sets, their
//! locations resolved from `llvm-dwarfdump` rows and ELF symbols, the projection of the reference trace.
use crate::dwline;
use crate::live::*;
use crate::util::*;
use bugstalker::dap::transport::DapTransport;
use bugstalker::dap::yadap::session::DebugSession;
use bugstalker::dap::yadap::session::breakpoint::HitCondition;
use serde_json::{Value, json};
use std::collections::{BTreeMap, BTreeSet};
use std::path::{Path, PathBuf};
use std::sync::atomic::{AtomicU64, Ordering};
use std::sync::mpsc::{Receiver, channel};
use std::sync::{Arc, Mutex};
use std::time::{Duration, Instant};

pub const PROG: &str = "c13_loop-1.89";
const FN_NAMES: &[&str] = &["work", "ident", "c13_loop::work", "twice", "nosuchfn"];
const CONDS: &[&str] = &["n", "lt", "lf", "l0", "l1", "vo", "vb", "vx", "po", "pb", "px", "pe"];

// ------------------------------------------------------------------------------------------------
// static facts of the debuggee

pub struct Ctx {
    pub prog: Prog,
    pub src: String,
    pub nlines: u64,
    pub markers: Vec<(String, u64)>,
    /// the implementation's own resolution (parameter of the model)
    pub res_line: BTreeMap<u64, Vec<u64>>,
    pub res_fn: BTreeMap<String, Vec<u64>>,
    /// independent resolution (llvm-dwarfdump rows + ELF symbols), used by the oracle
    pub ores_line: BTreeMap<u64, Vec<u64>>,
    pub ores_fn: BTreeMap<String, Vec<u64>>,
    /// candidate universe and the projected trace
    pub tau: Vec<(u64, u8)>,
    /// instruction-breakpoint candidates (executed user pcs after the prologue, a few never executed)
    pub icands: Vec<u64>,
}

fn src_path() -> PathBuf { verif_root().join("progs-src/c13_loop.rs") }

fn user_fns(p: &Prog) -> Vec<(u64, u64, String)> {
    p.symbols.iter().filter(|(_, _, n)| n.contains("8c13_loop") && !n.contains("8c13_loop4tick17h")).cloned().collect()
}
fn tick_range(p: &Prog) -> (u64, u64) {
    p.symbols.iter().find(|(_, _, n)| n.contains("8c13_loop4tick17h")).map(|(a, s, _)| (*a, a + s)).unwrap_or((0, 0))
}
/// global address of the debuggee's `KTICK` counter (position discriminator), from the ELF symbol table
fn ktick_addr(p: &Prog) -> u64 {
    use object::{Object, ObjectSymbol};
    let obj = object::File::parse(&*p.file).unwrap();
    obj.symbols().find(|s| s.name().is_ok_and(|n| n.contains("8c13_loop5KTICK17h"))).map(|s| s.address()).expect("KTICK symbol")
}

fn fn_short(n: &str) -> &'static str {
    if n.contains("8c13_loop4work17h") { "work" } else if n.contains("8c13_loop5ident17h") { "ident" }
    else if n.contains("8c13_loop4main17h") { "main" } else { "other" }
}

/// independent reading of "the locations of line L": first statement row of the line (the prologue-end row of the
/// same line wins), plus its copies in other functions (same line/column/flags), one per function
fn oracle_line_places(rows: &[dwline::Row], p: &Prog, line: u64) -> Vec<u64> {
    let mut mine: Vec<&dwline::Row> = rows.iter().filter(|r| r.file.ends_with("c13_loop.rs") && !r.end_sequence).collect();
    mine.sort_by_key(|r| r.addr);
    for needle in [line, line + 1] {
        let Some(i0) = mine.iter().position(|r| r.line == needle && r.is_stmt) else { continue };
        let mut first = mine[i0];
        let mut j = i0 + 1;
        while j < mine.len() && mine[j].line == needle && mine[j].is_stmt {
            if mine[j].prologue_end { first = mine[j]; break; }
            j += 1;
        }
        let mut out = vec![first.addr];
        let mut seen: BTreeSet<u64> = BTreeSet::new();
        if let Some(f) = p.fn_of(first.addr) { seen.insert(f.0); }
        for r in mine.iter().filter(|r| r.addr > first.addr) {
            if r.line == first.line && r.col == first.col && r.is_stmt && r.prologue_end == first.prologue_end
                && r.epilogue_begin == first.epilogue_begin {
                let key = p.fn_of(r.addr).map(|f| f.0).unwrap_or(r.addr);
                if seen.insert(key) { out.push(r.addr); }
            }
        }
        return out;
    }
    vec![]
}

/// independent reading of "the location of function F": the prologue-end row of every symbol of the crate named F
fn oracle_fn_places(rows: &[dwline::Row], p: &Prog, name: &str) -> Vec<u64> {
    let last = name.rsplit("::").next().unwrap_or(name);
    if name.contains("::") && !name.starts_with("c13_loop::") { return vec![]; }
    let pat = format!("8c13_loop{}{}17h", last.len(), last);
    let mut out = vec![];
    for (a, s, n) in &p.symbols {
        if !n.contains(&pat) { continue; }
        let mut rs: Vec<&dwline::Row> = rows.iter().filter(|r| r.addr >= *a && r.addr < a + s && r.prologue_end && !r.end_sequence).collect();
        rs.sort_by_key(|r| r.addr);
        if let Some(r) = rs.first() { out.push(r.addr); }
    }
    out
}

/// address ranges of the lexical blocks that declare a local named `name` (independent: llvm-dwarfdump text)
fn var_scopes(bin: &Path, name: &str) -> Vec<(u64, u64)> {
    let out = std::process::Command::new(dwline::dwarfdump()).args(["--name", name, "--show-parents"]).arg(bin).output().expect("llvm-dwarfdump");
    let text = String::from_utf8_lossy(&out.stdout);
    let hexs = |l: &str| -> Vec<u64> { l.split(|c: char| !c.is_ascii_hexdigit() && c != 'x').filter_map(|t| t.strip_prefix("0x")).filter_map(|h| u64::from_str_radix(h, 16).ok()).collect() };
    let mut cur: Vec<(u64, u64)> = vec![];
    let mut in_block = false;
    let mut lo = None;
    let mut res = vec![];
    for l in text.lines() {
        let t = l.trim();
        if t.contains("DW_TAG_") {
            if t.contains("DW_TAG_variable") && in_block { res.extend(cur.iter().copied()); }
            in_block = t.contains("DW_TAG_lexical_block");
            if in_block { cur.clear(); lo = None; }
            continue;
        }
        if !in_block { continue; }
        if t.starts_with("DW_AT_low_pc") { lo = hexs(t).first().copied(); }
        else if t.starts_with("DW_AT_high_pc") { if let (Some(a), Some(b)) = (lo, hexs(t).first().copied()) { cur.push((a, b)); } }
        else if t.starts_with('[') { let v = hexs(t); if v.len() == 2 { cur.push((v[0], v[1])); } }
    }
    res
}

impl Ctx {
    pub fn load(tmp: &Path) -> Ctx {
        let prog = Prog::load(PROG);
        let src = src_path().to_string_lossy().to_string();
        let text = std::fs::read_to_string(src_path()).unwrap();
        let nlines = text.lines().count() as u64;
        let markers: Vec<(String, u64)> = text.lines().enumerate().filter_map(|(i, l)| {
            l.split("BP:").nth(1).filter(|_| !l.trim_start().starts_with("//")).map(|m| (m.split_whitespace().next().unwrap_or("").to_string(), i as u64 + 1))
        }).collect();
        // --- the implementation's resolution, in a worker of its own
        let (mut res_line, mut res_fn) = (BTreeMap::new(), BTreeMap::new());
        let (lines, how) = worker(&tmp.join("c13-resolve.txt"), 120, |emit| {
            let p = Prog::load(PROG);
            let mut live = Live::launch(&p).expect("launch");
            for line in 1..=nlines + 2 {
                let views: Vec<bugstalker::debugger::address::Address> = match live.dbg.set_breakpoint_at_line(&src, line) {
                    Ok(v) => v.iter().map(|b| b.addr).collect(), Err(_) => vec![] };
                let addrs: Vec<u64> = views.iter().map(|a| match a {
                    bugstalker::debugger::address::Address::Global(g) => u64::from(*g),
                    bugstalker::debugger::address::Address::Relocated(r) => r.as_u64().wrapping_sub(p.base) }).collect();
                for a in views { let _ = live.dbg.remove_breakpoint(a); }
                emit(format!("L {line} {}", enc_list(&addrs, |a| format!("{a:x}"))));
            }
            for f in FN_NAMES {
                let views: Vec<bugstalker::debugger::address::Address> = match live.dbg.set_breakpoint_at_fn(f) {
                    Ok(v) => v.iter().map(|b| b.addr).collect(), Err(_) => vec![] };
                let addrs: Vec<u64> = views.iter().map(|a| match a {
                    bugstalker::debugger::address::Address::Global(g) => u64::from(*g),
                    bugstalker::debugger::address::Address::Relocated(r) => r.as_u64().wrapping_sub(p.base) }).collect();
                for a in views { let _ = live.dbg.remove_breakpoint(a); }
                emit(format!("F {f} {}", enc_list(&addrs, |a| format!("{a:x}"))));
            }
        });
        assert!(how == "ok", "C13 resolver worker ended with {how}");
        for l in lines {
            let t: Vec<&str> = l.split(' ').collect();
            let addrs = dec_list(t[2], |a| u64::from_str_radix(a, 16).unwrap());
            if t[0] == "L" { res_line.insert(t[1].parse().unwrap(), addrs); } else { res_fn.insert(t[1].to_string(), addrs); }
        }
        // --- independent resolution
        let rows = dwline::line_rows(&prog.path).expect("llvm-dwarfdump");
        let ores_line: BTreeMap<u64, Vec<u64>> = (1..=nlines + 2).map(|l| (l, oracle_line_places(&rows, &prog, l))).collect();
        let ores_fn: BTreeMap<String, Vec<u64>> = FN_NAMES.iter().map(|f| (f.to_string(), oracle_fn_places(&rows, &prog, f))).collect();
        // --- candidate universe: executed pcs of the crate's functions + every resolved address
        let fns = user_fns(&prog);
        let in_user = |pc: u64| fns.iter().find(|(a, s, _)| pc >= *a && pc < a + s);
        let mut uni: BTreeSet<u64> = prog.trace.iter().map(|s| s.pc).filter(|pc| in_user(*pc).is_some()).collect();
        for v in res_line.values().chain(res_fn.values()).chain(ores_line.values()).chain(ores_fn.values()) { uni.extend(v.iter().copied()); }
        // --- lexical scope of the locals `odd`/`big` (one block per function), from llvm-dwarfdump
        let scopes = var_scopes(&prog.path, "big");
        // --- trace with the truth of `odd`/`big` per event, from the program's source: the k-th activation of `work`
        // (k = 0..) has odd = k % 2 == 1, big = k >= 3; `ident` called from `work` gets the same, from `main` (false, false)
        let mut tau = vec![];
        let mut k: i64 = -1;
        let mut outer = "main";
        let (tlo, thi) = tick_range(&prog);
        let (mut tag, mut in_tick) = (0u8, false);
        for s in &prog.trace {
            let now_tick = s.pc >= tlo && s.pc < thi;
            if in_tick && !now_tick { tag += 1; }
            in_tick = now_tick;
            if now_tick { continue; }
            let Some((a, _sz, n)) = in_user(s.pc) else { if uni.contains(&s.pc) { tau.push((s.pc, 8 * tag)); } continue };
            let f = fn_short(n);
            if f == "work" && s.pc == *a { k += 1; }
            if f == "work" || f == "main" { outer = f; }
            let visible = scopes.iter().any(|(lo, hi)| s.pc >= *lo && s.pc < *hi);
            let env = if !visible || f == "main" || f == "other" { 0u8 }
                else if outer == "main" { 1 } else { 1 + (k % 2 == 1) as u8 + 2 * (k >= 3) as u8 };
            tau.push((s.pc, env + 8 * tag));
        }
        uni.retain(|a| !(*a >= tlo && *a < thi));
        let pe_ok: Vec<u64> = tau.iter().map(|(a, _)| *a).collect::<BTreeSet<_>>().into_iter().collect();
        let mut icands = pe_ok;
        // a never-executed instruction start inside `ident` (the early return) if the rows show one
        for r in &rows { if r.file.ends_with("c13_loop.rs") && r.is_stmt && !r.end_sequence && !icands.contains(&r.addr) && in_user(r.addr).is_some() { icands.push(r.addr); } }
        Ctx { prog, src, nlines, markers, res_line, res_fn, ores_line, ores_fn, tau, icands }
    }
    fn tau_tok(&self) -> String { enc_list(&self.tau, |(a, e)| format!("{a:x}.{e}")) }
}

// ------------------------------------------------------------------------------------------------
// request grammar

#[derive(Clone, Debug, PartialEq)]
struct Opts { cond: String, hit: Option<String>, log: Option<u64> }
#[derive(Clone, Debug)]
enum Cmd {
    New { sid: String },
    SetB { src: String, bps: Vec<(u64, Opts)> },
    SetF { bps: Vec<(String, Opts)> },
    SetI { bps: Vec<(u64, Opts)> },
    SetD { bps: Vec<(u64, u64, String)> },
    ConfDone, Cont, Restart,
    Hc { text: String, hits: u64 },
    Bad,
}

fn is_hex(s: &str) -> bool { !s.is_empty() && s.chars().all(|c| c.is_ascii_hexdigit()) }
fn try_dec_str(tok: &str) -> Option<String> {
    let h = tok.strip_prefix('x')?;
    if h.len() % 2 != 0 || !h.chars().all(|c| c.is_ascii_hexdigit()) { return None; }
    let bytes: Vec<u8> = (0..h.len() / 2).map(|i| u8::from_str_radix(&h[2 * i..2 * i + 2], 16).unwrap()).collect();
    String::from_utf8(bytes).ok()
}
fn parse_opts(c: &str, h: &str, l: &str) -> Option<Opts> {
    if !CONDS.contains(&c) { return None; }
    let hit = if h == "n" { None } else { Some(try_dec_str(h)?) };
    let log = if l == "n" { None } else { Some(l.parse().ok()?) };
    Some(Opts { cond: c.to_string(), hit, log })
}
fn opts_tok(o: &Opts) -> String {
    format!("{}/{}/{}", o.cond, o.hit.as_ref().map(|h| enc_str(h)).unwrap_or("n".into()), o.log.map(|l| l.to_string()).unwrap_or("n".into()))
}
fn split_items(tok: &str) -> Vec<&str> { if tok == "-" { vec![] } else { tok.split(',').collect() } }

/// `@marker` in a request file (corpus) stands for the line carrying `BP:marker` (setb) or its first address (seti)
fn sym_line(ctx: &Ctx, tok: &str) -> Option<u64> {
    match tok.strip_prefix('@') { Some(m) => ctx.markers.iter().find(|(n, _)| n == m).map(|x| x.1), None => tok.parse().ok() }
}
fn sym_addr(ctx: &Ctx, tok: &str) -> Option<u64> {
    match tok.strip_prefix('@') {
        Some(m) => { let l = ctx.markers.iter().find(|(n, _)| n == m)?.1; ctx.res_line.get(&l)?.first().copied() }
        None => if is_hex(tok) && tok.len() <= 12 { u64::from_str_radix(tok, 16).ok() } else { None },
    }
}

fn parse_cmd(ctx: &Ctx, line: &str) -> Cmd {
    let t: Vec<&str> = line.split(' ').filter(|x| !x.is_empty()).collect();
    let r: Option<Cmd> = (|| match t.as_slice() {
        ["C13", "new", sid, prog, _tau] if *prog == PROG => Some(Cmd::New { sid: sid.to_string() }),
        ["C13", "setb", src, bps] if *src == "p0" || *src == "nx" => {
            let mut v = vec![];
            for it in split_items(bps) {
                let f: Vec<&str> = it.split('/').collect();
                if f.len() != 5 { return None; }
                let line: u64 = sym_line(ctx, f[0])?;
                if line == 0 || line > 100000 { return None; }
                if f[1] != "-" && !f[1].split('+').all(is_hex) { return None; }
                v.push((line, parse_opts(f[2], f[3], f[4])?));
            }
            Some(Cmd::SetB { src: src.to_string(), bps: v })
        }
        ["C13", "setf", bps] => {
            let mut v = vec![];
            for it in split_items(bps) {
                let f: Vec<&str> = it.split('/').collect();
                if f.len() != 5 { return None; }
                if f[1] != "-" && !f[1].split('+').all(is_hex) { return None; }
                v.push((try_dec_str(f[0])?, parse_opts(f[2], f[3], f[4])?));
            }
            Some(Cmd::SetF { bps: v })
        }
        ["C13", "seti", bps] => {
            let mut v = vec![];
            for it in split_items(bps) {
                let f: Vec<&str> = it.split('/').collect();
                if f.len() != 5 || !(f[1] == "0" || f[1] == "1") { return None; }
                v.push((sym_addr(ctx, f[0])?, parse_opts(f[2], f[3], f[4])?));
            }
            Some(Cmd::SetI { bps: v })
        }
        ["C13", "setd", bps] => {
            let mut v = vec![];
            for it in split_items(bps) {
                let f: Vec<&str> = it.split('/').collect();
                if f.len() != 3 || !["w", "rw", "r"].contains(&f[2]) { return None; }
                let (a, s): (u64, u64) = (f[0].parse().ok()?, f[1].parse().ok()?);
                if a > 64 || ![1, 2, 4, 8].contains(&s) { return None; }
                v.push((a, s, f[2].to_string()));
            }
            Some(Cmd::SetD { bps: v })
        }
        ["C13", "confdone"] => Some(Cmd::ConfDone),
        ["C13", "cont"] => Some(Cmd::Cont),
        ["C13", "restart"] => Some(Cmd::Restart),
        ["C13", "hc", text, hits] => Some(Cmd::Hc { text: try_dec_str(text)?, hits: hits.parse().ok()? }),
        _ => None,
    })();
    r.unwrap_or(Cmd::Bad)
}

fn addrs_tok(v: &[u64]) -> String { if v.is_empty() { "-".into() } else { v.iter().map(|a| format!("{a:x}")).collect::<Vec<_>>().join("+") } }

/// the request line as sent to the model: address lists / validity / trace as THIS binary has them
fn canon_line(ctx: &Ctx, c: &Cmd, orig: &str) -> String {
    match c {
        Cmd::New { sid } => format!("C13 new {sid} {PROG} {}", ctx.tau_tok()),
        Cmd::SetB { src, bps } => format!("C13 setb {src} {}", enc_list(bps, |(l, o)| {
            let a = if src == "p0" { ctx.res_line.get(l).cloned().unwrap_or_default() } else { vec![] };
            format!("{l}/{}/{}", addrs_tok(&a), opts_tok(o)) })),
        Cmd::SetF { bps } => format!("C13 setf {}", enc_list(bps, |(n, o)| {
            let a = ctx.res_fn.get(n).cloned().unwrap_or_default();
            format!("{}/{}/{}", enc_str(n), addrs_tok(&a), opts_tok(o)) })),
        Cmd::SetI { bps } => format!("C13 seti {}", enc_list(bps, |(a, o)| format!("{a:x}/{}/{}", insn_valid(ctx, *a) as u8, opts_tok(o)))),
        _ => orig.to_string(),
    }
}

/// an instruction breakpoint address is valid iff it is a row address of a crate function (has a source place)
fn insn_valid(ctx: &Ctx, a: u64) -> bool { ctx.icands.contains(&a) }

fn data_addr(idx: u64) -> u64 { 0x7fff_f7a0_0000 + idx * 8 }

// ------------------------------------------------------------------------------------------------
// generator

const HITS: &[&str] = &["1", "2", "3", "==2", "= 2", ">=2", ">2", "<3", "<=1", "%2", " 4 ", "+2", "abc", ">= 3", "0", ">", "2x", "18446744073709551616", "<=0"];

fn gen_opts(rng: &mut Rng, out: &mut Out) -> Opts {
    let mut o = Opts { cond: "n".into(), hit: None, log: None };
    match rng.below(10) {
        0..=3 => { out.count("opt.none", 1); }
        4..=5 => { o.cond = rng.pick(&["lt", "lf", "l0", "l1", "po", "pb", "po", "pb", "vo", "vb", "vx", "px", "pe"]).to_string(); out.count(&format!("opt.cond.{}", o.cond), 1); }
        6..=7 => { o.hit = Some(rng.pick(HITS).to_string()); out.count("opt.hit", 1); }
        8 => { o.log = Some(rng.below(5)); out.count("opt.log", 1); }
        _ => {
            o.cond = rng.pick(&["lt", "lf", "po", "pb", "vo"]).to_string();
            if rng.chance(1, 2) { o.hit = Some(rng.pick(HITS).to_string()); }
            if rng.chance(1, 2) { o.log = Some(rng.below(5)); }
            out.count("opt.combined", 1);
        }
    }
    o
}

fn gen_set(ctx: &Ctx, rng: &mut Rng, out: &mut Out) -> String {
    let k = rng.below(10);
    if k <= 5 {
        let src = if rng.chance(1, 12) { "nx" } else { "p0" };
        let n = match rng.below(8) { 0 => 0, 1..=4 => 1, 5..=6 => 2, _ => 3 };
        let bps: Vec<(u64, Opts)> = (0..n).map(|_| {
            let l = if rng.chance(5, 6) { rng.pick(&ctx.markers).1 } else { rng.range(1, ctx.nlines + 2) };
            let nloc = ctx.res_line.get(&l).map(|v| v.len()).unwrap_or(0);
            out.count(&format!("setb.locations.{}", nloc.min(2)), 1);
            (l, gen_opts(rng, out)) }).collect();
        out.count(&format!("cmd.setb.{}", n), 1);
        canon_line(ctx, &Cmd::SetB { src: src.into(), bps }, "")
    } else if k <= 7 {
        let n = match rng.below(6) { 0 => 0, 1..=4 => 1, _ => 2 };
        let bps: Vec<(String, Opts)> = (0..n).map(|_| (rng.pick(FN_NAMES).to_string(), gen_opts(rng, out))).collect();
        out.count(&format!("cmd.setf.{}", n), 1);
        canon_line(ctx, &Cmd::SetF { bps }, "")
    } else if k == 8 {
        let n = match rng.below(6) { 0 => 0, 1..=4 => 1, _ => 2 };
        let bps: Vec<(u64, Opts)> = (0..n).map(|_| {
            let a = if rng.chance(1, 8) { 0x10 + rng.below(4) * 8 } else { *rng.pick(&ctx.icands) };
            (a, gen_opts(rng, out)) }).collect();
        out.count(&format!("cmd.seti.{}", n), 1);
        canon_line(ctx, &Cmd::SetI { bps }, "")
    } else {
        let n = rng.below(6);
        let bps: Vec<String> = (0..n).map(|_| format!("{}/{}/{}", rng.below(7), rng.pick(&[1u64, 2, 4, 8]), rng.pick(&["w", "w", "rw", "r"]))).collect();
        out.count(&format!("cmd.setd.{}", n.min(5)), 1);
        format!("C13 setd {}", enc_list(&bps, |s| s.clone()))
    }
}

pub fn gen_requests_ctx(ctx: &Ctx, rng: &mut Rng, n: u64, out: &mut Out) -> Vec<String> {
    let mut req = vec![];
    // pure leg: hit-condition texts
    let nh = (n * 6).max(40);
    for _ in 0..nh {
        let text = if rng.chance(1, 2) { rng.pick(HITS).to_string() } else {
            let ops = ["", "", "==", "=", ">=", ">", "<", "<=", "%", "!", "=>"];
            let num = match rng.below(6) { 0 => "".to_string(), 1 => "18446744073709551615".into(), 2 => "18446744073709551616".into(), 3 => format!("+{}", rng.below(9)), 4 => format!("{}a", rng.below(9)), _ => rng.below(12).to_string() };
            let sp = |rng: &mut Rng| *rng.pick(&["", "", " ", "\t", "  "]);
            format!("{}{}{}{}{}", sp(rng), rng.pick(&ops), sp(rng), num, sp(rng))
        };
        req.push(format!("C13 hc {} {}", enc_str(&text), rng.below(6)));
        out.count("cmd.hc", 1);
    }
    for sid in 0..n {
        req.push(canon_line(ctx, &Cmd::New { sid: sid.to_string() }, ""));
        let shape = rng.below(10);
        out.count(&format!("session.shape.{}", match shape { 0..=5 => "set-before-and-after-start", 6..=7 => "all-before-start", _ => "all-after-start" }), 1);
        let nb = match shape { 0..=5 => rng.range(1, 3), 6..=7 => rng.range(1, 4), _ => 0 };
        for _ in 0..nb { req.push(gen_set(ctx, rng, out)); out.count("phase.set-before-start", 1); }
        if rng.chance(1, 15) { req.push("C13 cont".into()); out.count("cmd.cont-before-start", 1); }
        if rng.chance(1, 10) { req.push("C13 restart".into()); out.count("cmd.restart-as-start", 1); } else { req.push("C13 confdone".into()); }
        let len = rng.range(3, 12);
        for _ in 0..len {
            match rng.below(12) {
                0..=5 => { req.push("C13 cont".into()); out.count("cmd.cont", 1); }
                6..=9 => { if shape <= 5 || shape >= 8 { req.push(gen_set(ctx, rng, out)); out.count("phase.set-after-start", 1); } else { req.push("C13 cont".into()); out.count("cmd.cont", 1); } }
                10 => { req.push("C13 restart".into()); out.count("cmd.restart", 1); }
                _ => { req.push("C13 confdone".into()); out.count("cmd.confdone-again", 1); }
            }
        }
    }
    req
}

// ------------------------------------------------------------------------------------------------
// worker: one DebugSession in a forked process

struct Mock { rx: Receiver<Value>, wire: Arc<Mutex<Vec<Value>>> }
static READS: AtomicU64 = AtomicU64::new(0);
impl DapTransport for Mock {
    fn read_message(&mut self) -> anyhow::Result<Value> {
        READS.fetch_add(1, Ordering::SeqCst);
        self.rx.recv().map_err(|_| anyhow::anyhow!("DAP connection closed"))
    }
    fn write_message(&mut self, m: &Value) -> anyhow::Result<()> {
        self.wire.lock().unwrap().push(m.clone());
        Ok(())
    }
}

fn req_timeout() -> u64 { std::env::var("C13_REQ_TIMEOUT").ok().and_then(|v| v.parse().ok()).unwrap_or(90) }

fn cond_text(c: &str) -> Option<&'static str> {
    match c { "lt" => Some("true"), "lf" => Some("false"), "l0" => Some("0"), "l1" => Some("1"), "vo" => Some("odd"), "vb" => Some("big"),
              "vx" => Some("nosuchvar"), "po" => Some("(odd)"), "pb" => Some("(big)"), "px" => Some("(nosuchvar)"), "pe" => Some("(("), _ => None }
}
fn opts_json(v: &mut Value, o: &Opts) {
    if let Some(c) = cond_text(&o.cond) { v["condition"] = json!(c); }
    if let Some(h) = &o.hit { v["hitCondition"] = json!(h); }
    if let Some(l) = o.log { v["logMessage"] = json!(format!("log-{l}")); }
}

/// pc of a ptrace-stopped thread, read from procfs (independent of the debugger): "-1 <sp> <pc>"
fn proc_pc(tid: i32) -> Option<u64> {
    let s = std::fs::read_to_string(format!("/proc/{tid}/syscall")).ok()?;
    let last = s.split_whitespace().last()?;
    u64::from_str_radix(last.trim_start_matches("0x"), 16).ok()
}

fn int3_set(prog: &Prog, pid: i32) -> Option<Vec<u64>> {
    let d = text_diff(prog, pid, prog.base)?;
    Some(d.iter().filter(|(a, (_, l))| *l == 0xCC && **a != prog.entry).map(|(a, _)| *a).collect())
}

/// what the harness observed for one command (worker -> parent)
fn session(ctx_prog: &Prog, src: &str, cmds: &[Cmd], emit: &mut dyn FnMut(String)) {
    bugstalker::debugger::rust::Environment::init(None);
    let (tx, rx) = channel::<Value>();
    let wire = Arc::new(Mutex::new(Vec::<Value>::new()));
    let io: Arc<Mutex<dyn DapTransport>> = Arc::new(Mutex::new(Mock { rx, wire: wire.clone() }));
    let h = std::thread::spawn(move || {
        let _ = std::panic::catch_unwind(std::panic::AssertUnwindSafe(|| DebugSession::new(io).run(vec![])));
    });
    let mut sent = 0u64;
    let mut seen = 0usize;
    let mut cseq = 0i64;
    let mut send = |cmd: &str, args: Value| -> Option<Vec<Value>> {
        cseq += 1;
        if tx.send(json!({"seq": cseq, "type": "request", "command": cmd, "arguments": args})).is_err() { return None; }
        sent += 1;
        let t0 = Instant::now();
        loop {
            if READS.load(Ordering::SeqCst) >= sent + 1 || h.is_finished() { break; }
            if t0.elapsed() > Duration::from_secs(req_timeout()) { return None; }
            std::thread::sleep(Duration::from_micros(200));
        }
        let w = wire.lock().unwrap();
        let msgs = w[seen..].to_vec();
        seen = w.len();
        Some(msgs)
    };
    let mut tid: Option<i32> = None;
    let mut live = false;
    let ktick = ktick_addr(ctx_prog);
    for c in cmds {
        let obs: Value = match c {
            Cmd::New { .. } => {
                let a = send("initialize", json!({"adapterID": "c13"}));
                let b = send("launch", json!({"program": ctx_prog.path.to_string_lossy(), "args": []}));
                if a.is_none() || b.is_none() { emit(json!({"t": "hang"}).to_string()); break; }
                let ok = a.is_some() && b.as_ref().is_some_and(|m| m.iter().any(|x| x["type"] == "response" && x["command"] == "launch" && x["success"] == true));
                json!({"t": "new", "ok": ok})
            }
            Cmd::SetB { .. } | Cmd::SetF { .. } | Cmd::SetI { .. } | Cmd::SetD { .. } => {
                let (name, args) = match c {
                    Cmd::SetB { src: s, bps } => ("setBreakpoints", json!({"source": {"path": if s == "p0" { src.to_string() } else { "/nonexistent/c13/zz.rs".to_string() }},
                        "breakpoints": bps.iter().map(|(l, o)| { let mut v = json!({"line": l}); opts_json(&mut v, o); v }).collect::<Vec<_>>()})),
                    Cmd::SetF { bps } => ("setFunctionBreakpoints", json!({"breakpoints": bps.iter().map(|(n, o)| { let mut v = json!({"name": n}); opts_json(&mut v, o); v }).collect::<Vec<_>>()})),
                    Cmd::SetI { bps } => ("setInstructionBreakpoints", json!({"breakpoints": bps.iter().map(|(a, o)| {
                        let mut v = json!({"instructionReference": format!("0x{:x}", ctx_prog.base + a)}); opts_json(&mut v, o); v }).collect::<Vec<_>>()})),
                    Cmd::SetD { bps } => ("setDataBreakpoints", json!({"breakpoints": bps.iter().map(|(a, s, acc)| {
                        json!({"dataId": format!("addr:0x{:x}:{}", data_addr(*a), s), "accessType": match acc.as_str() { "w" => "write", "rw" => "readWrite", _ => "read" }}) }).collect::<Vec<_>>()})),
                    _ => unreachable!(),
                };
                match send(name, args) {
                    None => json!({"t": "hang"}),
                    Some(msgs) => {
                        let rsp = msgs.iter().find(|m| m["type"] == "response");
                        let ok = rsp.is_some_and(|m| m["success"] == true);
                        let flags: Vec<Value> = rsp.and_then(|m| m["body"]["breakpoints"].as_array().cloned()).unwrap_or_default()
                            .iter().map(|b| json!([b["id"], b["verified"]])).collect();
                        let i3 = if live { tid.and_then(|t| int3_set(ctx_prog, t)) } else { None };
                        json!({"t": "set", "ok": ok, "flags": flags, "int3": i3})
                    }
                }
            }
            Cmd::ConfDone | Cmd::Cont | Cmd::Restart => {
                let name = match c { Cmd::ConfDone => "configurationDone", Cmd::Cont => "continue", _ => "restart" };
                match send(name, json!({"threadId": tid.unwrap_or(1)})) {
                    None => json!({"t": "hang"}),
                    Some(msgs) => {
                        let outs: Vec<String> = msgs.iter().filter(|m| m["event"] == "output" && m["body"]["category"] == "console")
                            .map(|m| m["body"]["output"].as_str().unwrap_or("").to_string()).collect();
                        let stopped = msgs.iter().find(|m| m["event"] == "stopped");
                        let exited = msgs.iter().any(|m| m["event"] == "exited");
                        let mut pc = None;
                        let mut tag: Option<u64> = None;
                        let mut reason = Value::Null;
                        if let Some(s) = stopped {
                            reason = s["body"]["reason"].clone();
                            if let Some(t) = s["body"]["threadId"].as_i64() { tid = Some(t as i32); }
                            pc = tid.and_then(proc_pc).map(|p| p.wrapping_sub(ctx_prog.base));
                            live = pc.is_some();
                            if live { tag = tid.and_then(|t| proc_mem(t, ctx_prog.base + ktick, 8)).map(|b| u64::from_le_bytes(b.try_into().unwrap())); }
                        }
                        if exited { live = false; }
                        if stopped.is_none() && !exited { /* nothing ran, or the adapter is silent: state unchanged */ }
                        let i3 = if live { tid.and_then(|t| int3_set(ctx_prog, t)) } else { None };
                        json!({"t": "run", "outs": outs, "reason": reason, "pc": pc, "tag": tag, "exited": exited, "int3": i3,
                               "nrsp": msgs.iter().filter(|m| m["type"] == "response").count()})
                    }
                }
            }
            Cmd::Hc { .. } | Cmd::Bad => json!({"t": "skip"}),
        };
        let hang = obs["t"] == "hang";
        emit(obs.to_string());
        if hang { break; }
    }
    drop(tx);
    let t0 = Instant::now();
    while !h.is_finished() && t0.elapsed() < Duration::from_secs(5) { std::thread::sleep(Duration::from_millis(1)); }
}

// ------------------------------------------------------------------------------------------------
// answers

fn show_i3(v: &Value) -> String {
    match v.as_array() { None => "-".into(), Some(a) => { let l: Vec<u64> = a.iter().filter_map(|x| x.as_u64()).collect(); if l.is_empty() { "none".into() } else { l.iter().map(|x| format!("{x:x}")).collect::<Vec<_>>().join("+") } } }
}
/// console outputs -> tokens: `L<k>` (log-k), `CE<id>` (condition error), `HI<id>` (invalid hit condition)
fn out_tok(s: &str) -> String {
    let s = s.trim_end();
    if let Some(k) = s.strip_prefix("log-") { return format!("L{k}"); }
    if let Some(r) = s.strip_prefix("Breakpoint ") {
        let id = r.split(' ').next().unwrap_or("?");
        if r.contains("condition error") { return format!("CE{id}"); }
        if r.contains("hitCondition invalid") { return format!("HI{id}"); }
    }
    "other".into()
}
fn answer(obs: &Value) -> String {
    match obs["t"].as_str().unwrap_or("") {
        "new" => if obs["ok"] == true { "ok".into() } else { "launch-failed".into() },
        "set" => {
            if obs["ok"] != true { return "err".into(); }
            let flags: Vec<String> = obs["flags"].as_array().unwrap().iter().map(|f| format!("{}:{}", f[0], if f[1] == true { 1 } else { 0 })).collect();
            format!("{} i={}", enc_list(&flags, |s| s.clone()), show_i3(&obs["int3"]))
        }
        "run" => {
            let outs: Vec<String> = obs["outs"].as_array().unwrap().iter().map(|o| out_tok(o.as_str().unwrap_or(""))).collect();
            let pc = obs["pc"].as_u64().map(|p| format!("{p:x}@{}", obs["tag"].as_u64().map(|t| t.to_string()).unwrap_or("?".into()))).unwrap_or("-".into());
            let outcome = if obs["exited"] == true { "exit".to_string() }
                else if obs["reason"] == "breakpoint" { format!("stop {pc}") }
                else if obs["reason"] == "entry" { format!("entry {pc}") }
                else if obs["reason"].is_string() { format!("other-{}", obs["reason"].as_str().unwrap().replace(' ', "_")) }
                else { "err".to_string() };
            format!("o={} {} i={}", enc_list(&outs, |s| s.clone()), outcome, show_i3(&obs["int3"]))
        }
        "hang" => "hang".into(),
        _ => "bad-op".into(),
    }
}

fn hc_answer(text: &str, hits: u64) -> String {
    let h = HitCondition::verif_parse(text);
    let (k, n) = match &h {
        HitCondition::Exact(n) => ("eq", *n), HitCondition::GreaterOrEqual(n) => ("ge", *n), HitCondition::Greater(n) => ("gt", *n),
        HitCondition::Less(n) => ("lt", *n), HitCondition::LessOrEqual(n) => ("le", *n), HitCondition::Invalid(_) => ("invalid", 0),
    };
    format!("{k} {n} {}", h.matches(hits) as u8)
}
/// independent reading of the hit-condition mini language (DAP: "N", "==N", "=N", ">=N", ">N", "<N", "<=N")
fn hc_oracle(text: &str, hits: u64) -> Option<bool> {
    let t = text.trim();
    let (op, rest) = if let Some(r) = t.strip_prefix(">=") { (">=", r) } else if let Some(r) = t.strip_prefix("<=") { ("<=", r) }
        else if let Some(r) = t.strip_prefix("==") { ("=", r) } else if let Some(r) = t.strip_prefix('=') { ("=", r) }
        else if let Some(r) = t.strip_prefix('>') { (">", r) } else if let Some(r) = t.strip_prefix('<') { ("<", r) } else { ("=", t) };
    let r = rest.trim();
    let digits = r.strip_prefix('+').unwrap_or(r);
    if digits.is_empty() || !digits.chars().all(|c| c.is_ascii_digit()) { return None; }
    let n: u128 = digits.parse().ok()?;
    if n > u64::MAX as u128 { return None; }
    let h = hits as u128;
    Some(match op { ">=" => h >= n, "<=" => h <= n, ">" => h > n, "<" => h < n, _ => h == n })
}

// ------------------------------------------------------------------------------------------------
// oracle: the property statement, executed on the reference trace

#[derive(Clone, Debug)]
struct SpecBp { kind: &'static str, what: String, locs: Vec<u64>, opts: Opts, hits: u64, set_phase: &'static str }
#[derive(Clone, Debug)]
struct LocInfo { kind: &'static str, what: String, loc_index: usize, nlocs: usize, bare: bool, set_phase: &'static str, replaced_phase: Option<&'static str> }

struct Spec<'a> {
    ctx: &'a Ctx,
    phase: &'static str, // "before-start" | "running" | "exited"
    src: BTreeMap<String, Vec<SpecBp>>, fun: Vec<SpecBp>, ins: Vec<SpecBp>,
    /// every location ever requested, with the circumstances (to classify a failure)
    history: BTreeMap<u64, LocInfo>,
    pos: Option<usize>,
    done: bool,
}

impl<'a> Spec<'a> {
    fn all(&self) -> Vec<&SpecBp> { self.src.values().flatten().chain(self.fun.iter()).chain(self.ins.iter()).collect() }
    fn installed(&self) -> BTreeSet<u64> { self.all().iter().flat_map(|b| b.locs.iter().copied()).collect() }
    fn note_replace(&mut self, old: &[SpecBp]) {
        for b in old { for a in &b.locs { if let Some(h) = self.history.get_mut(a) { h.replaced_phase = Some(self.phase); } } }
    }
    fn note_set(&mut self, new: &[SpecBp]) {
        for b in new { for (i, a) in b.locs.iter().enumerate() {
            self.history.insert(*a, LocInfo { kind: b.kind, what: b.what.clone(), loc_index: i, nlocs: b.locs.len(), bare: ["vo", "vb", "vx"].contains(&b.opts.cond.as_str()), set_phase: self.phase, replaced_phase: None });
        } }
    }
    /// the class of inputs a failure belongs to (circumstances of the request that owns location `a`)
    fn class(&self, a: u64, restart: bool, options: bool) -> String {
        let Some(h) = self.history.get(&a) else { return "location-never-requested".into() };
        if restart && options { return format!("{}:first-stop-of-restart", h.kind); }
        if h.set_phase == "before-start" { return format!("{}:set-before-start", h.kind); }
        if h.set_phase == "exited" { return format!("{}:set-after-exit", h.kind); }
        if h.kind == "line" && h.nlocs > 1 { return "line:multi-location-line".into(); }
        if options && h.bare { return "condition-is-a-bare-variable-name".into(); }
        if h.replaced_phase == Some("exited") { return format!("{}:set-while-running-replaced-after-exit", h.kind); }
        format!("{}:set-while-running", h.kind)
    }
    fn cond_holds(c: &str, env: u8) -> Option<bool> {
        // None = the specification does not say (error cases): not judged
        match c { "n" | "lt" | "l1" => Some(true), "lf" | "l0" => Some(false),
            "vo" | "po" => if (1..=4).contains(&(env % 8)) { Some((env % 8 - 1) & 1 == 1) } else { None },
            "vb" | "pb" => if (1..=4).contains(&(env % 8)) { Some((env % 8 - 1) & 2 == 2) } else { None },
            _ => None }
    }
    /// expected outcome of a run command from trace position `from`: (stop position | exit, log outputs); None = not judged
    fn run(&mut self, from: usize) -> Option<(Option<usize>, Vec<String>)> {
        let tau = &self.ctx.tau;
        let mut logs = vec![];
        let inst = self.installed();
        for j in from..tau.len() {
            let (a, env) = tau[j];
            if !inst.contains(&a) { continue; }
            let mut stop = false;
            let mut undecided = false;
            let upd = |b: &mut SpecBp, logs: &mut Vec<String>, stop: &mut bool, undecided: &mut bool| {
                if !b.locs.contains(&a) { return; }
                b.hits += 1;
                match Self::cond_holds(&b.opts.cond, env) { Some(true) => {}, Some(false) => return, None => { *undecided = true; return; } }
                if let Some(h) = &b.opts.hit { match hc_oracle(h, b.hits) { Some(true) => {}, Some(false) => return, None => { *undecided = true; return; } } }
                if let Some(l) = b.opts.log { logs.push(format!("L{l}")); return; }
                *stop = true;
            };
            for v in self.src.values_mut() { for b in v.iter_mut() { upd(b, &mut logs, &mut stop, &mut undecided); } }
            for b in self.fun.iter_mut() { upd(b, &mut logs, &mut stop, &mut undecided); }
            for b in self.ins.iter_mut() { upd(b, &mut logs, &mut stop, &mut undecided); }
            if undecided { return None; }
            if stop { return Some((Some(j), logs)); }
        }
        Some((None, logs))
    }
}

fn oracle_session(ctx: &Ctx, lines: &[String], cmds: &[Cmd], obs: &[Value], out: &mut Out) {
    let mut sp = Spec { ctx, phase: "before-start", src: BTreeMap::new(), fun: vec![], ins: vec![], history: BTreeMap::new(), pos: None, done: false };
    let short: Vec<String> = lines.iter().map(|l| if l.len() > 160 { format!("{}…", &l[..160]) } else { l.clone() }).collect();
    let mut fail = |out: &mut Out, sp: &mut Spec, key: String, what: String, k: usize| {
        out.oracle_fail(&key, &what, json!({"session": short, "command_index": k}));
        sp.done = true;
    };
    for (k, (c, o)) in cmds.iter().zip(obs.iter()).enumerate() {
        if sp.done { break; }
        match c {
            Cmd::SetB { .. } | Cmd::SetF { .. } | Cmd::SetI { .. } => {
                if o["t"] != "set" || o["ok"] != true { continue; }
                let new: Vec<SpecBp> = match c {
                    Cmd::SetB { src, bps } => bps.iter().map(|(l, op)| SpecBp { kind: "line", what: format!("line {l}"),
                        locs: if src == "p0" { ctx.ores_line.get(l).cloned().unwrap_or_default() } else { vec![] }, opts: op.clone(), hits: 0, set_phase: sp.phase }).collect(),
                    Cmd::SetF { bps } => bps.iter().map(|(n, op)| SpecBp { kind: "function", what: format!("fn {n}"), locs: ctx.ores_fn.get(n).cloned().unwrap_or_default(), opts: op.clone(), hits: 0, set_phase: sp.phase }).collect(),
                    Cmd::SetI { bps } => bps.iter().map(|(a, op)| SpecBp { kind: "instruction", what: format!("insn {a:x}"), locs: if insn_valid(ctx, *a) { vec![*a] } else { vec![] }, opts: op.clone(), hits: 0, set_phase: sp.phase }).collect(),
                    _ => unreachable!(),
                };
                let old: Vec<SpecBp> = match c {
                    Cmd::SetB { src, .. } => sp.src.remove(src).unwrap_or_default(),
                    Cmd::SetF { .. } => std::mem::take(&mut sp.fun),
                    _ => std::mem::take(&mut sp.ins),
                };
                sp.note_replace(&old);
                sp.note_set(&new);
                // verified <-> a location exists
                out.oracle_evals += 1;
                let flags = o["flags"].as_array().cloned().unwrap_or_default();
                if flags.len() != new.len() {
                    fail(out, &mut sp, "response-length-differs".into(), format!("{}: {} breakpoints requested, {} answered", lines[k], new.len(), flags.len()), k);
                    continue;
                }
                let mut bad = None;
                for (b, f) in new.iter().zip(flags.iter()) {
                    let v = f[1] == true;
                    if v != !b.locs.is_empty() { bad = Some((b.clone(), v)); break; }
                }
                match c {
                    Cmd::SetB { src, .. } => { sp.src.insert(src.clone(), new); }
                    Cmd::SetF { .. } => sp.fun = new,
                    _ => sp.ins = new,
                }
                if let Some((b, v)) = bad {
                    let key = format!("verified-{}-but-{}:{}:{}", v, if b.locs.is_empty() { "no-location-exists" } else { "a-location-exists" }, b.kind,
                        if sp.phase == "before-start" { "set-before-start" } else if sp.phase == "exited" { "set-after-exit" } else { "set-while-running" });
                    fail(out, &mut sp, key, format!("{}: {} answered verified={v}, independent locations {:x?}", lines[k], b.what, b.locs), k);
                    continue;
                }
                // installed set, when observable
                if let Some(i3) = o["int3"].as_array() {
                    out.oracle_evals += 1;
                    let got: BTreeSet<u64> = i3.iter().filter_map(|x| x.as_u64()).collect();
                    let want = sp.installed();
                    if got != want {
                        if let Some(a) = got.difference(&want).next() {
                            let key = format!("replace-leaves-location-installed:{}", sp.class(*a, false, false));
                            fail(out, &mut sp, key, format!("after `{}` INT3 at {:x?}, latest sets are {:x?}", short[k], got, want), k);
                        } else {
                            let a = *want.difference(&got).next().unwrap();
                            let key = format!("location-of-latest-set-not-installed:{}", sp.class(a, false, false));
                            fail(out, &mut sp, key, format!("after `{}` INT3 at {:x?}, latest sets are {:x?}", short[k], got, want), k);
                        }
                    }
                }
            }
            Cmd::SetD { .. } => {}
            Cmd::ConfDone | Cmd::Cont | Cmd::Restart => {
                if o["t"] != "run" { continue; }
                let restart = matches!(c, Cmd::Restart);
                let legal = match (c, sp.phase) {
                    (Cmd::ConfDone, "before-start") | (Cmd::Restart, "before-start") | (Cmd::Restart, "running") | (Cmd::Cont, "running") => true,
                    _ => false,
                };
                let ran = o["exited"] == true || o["reason"].is_string();
                if !legal {
                    // nothing may run; what the adapter answers is C12's business. After an exit the specification stops.
                    if ran && sp.phase != "exited" { let ph = sp.phase; fail(out, &mut sp, format!("ran-in-wrong-state:{ph}"), format!("`{}` while {ph}: the debuggee ran", lines[k]), k); }
                    if sp.phase == "exited" { sp.done = true; }
                    continue;
                }
                out.oracle_evals += 1;
                let from = if sp.phase == "before-start" || restart { 0 } else { sp.pos.map(|p| p + 1).unwrap_or(0) };
                let was_restart_of_running = restart && sp.phase == "running";
                sp.phase = "running";
                let Some((want, want_logs)) = sp.run(from) else { sp.done = true; continue };
                let got_logs: Vec<String> = o["outs"].as_array().unwrap().iter().map(|s| out_tok(s.as_str().unwrap_or(""))).collect();
                let got_pc = o["pc"].as_u64();
                let got_tag = o["tag"].as_u64();
                let got_exit = o["exited"] == true || (o["reason"] == "entry" && got_pc.is_none());
                let want_pc = want.map(|j| ctx.tau[j].0);
                let want_tag = want.map(|j| (ctx.tau[j].1 / 8) as u64);
                if got_exit && want.is_none() || (!got_exit && got_pc.is_some() && got_pc == want_pc && got_tag == want_tag) {
                    if got_logs != want_logs {
                        let a = want_pc.unwrap_or(0);
                        // which logpoint is missing/extra: classify by the first location carrying a log message between from and the stop
                        let lp = ctx.tau[from..want.unwrap_or(ctx.tau.len())].iter().map(|(a, _)| *a).find(|a| sp.all().iter().any(|b| b.opts.log.is_some() && b.locs.contains(a))).unwrap_or(a);
                        let key = format!("options-not-honoured:{}", sp.class(lp, was_restart_of_running, true));
                        fail(out, &mut sp, key, format!("`{}`: console outputs {:?}, expected {:?}", lines[k], got_logs, want_logs), k);
                        continue;
                    }
                    match want { Some(j) => sp.pos = Some(j), None => { sp.phase = "exited"; sp.done = true; } }
                    // the hit of an unfiltered first stop after `restart` is not counted by the adapter: whether it should be
                    // is not said by the property; do not judge hit conditions at that location afterwards
                    if was_restart_of_running && let Some(a) = want_pc && sp.all().iter().any(|b| b.locs.contains(&a) && b.opts.hit.is_some()) { sp.done = true; }
                    continue;
                }
                // a differing stop: where did the implementation stop, and what does the specification say about that place?
                let what = format!("`{}`: adapter reports {} {}@{:?}, the reference trace restricted to the latest sets {:x?} says {}",
                    lines[k], if got_exit { "exit".to_string() } else { format!("{}", o["reason"]) }, got_pc.map(|p| format!("{p:x}")).unwrap_or("-".into()), got_tag,
                    sp.installed(), want_pc.map(|p| format!("stop {p:x}@{}", want_tag.unwrap_or(0))).unwrap_or("exit".into()));
                let got_pos = got_pc.and_then(|p| (from..ctx.tau.len()).find(|j| ctx.tau[*j].0 == p && Some((ctx.tau[*j].1 / 8) as u64) == got_tag));
                let earlier = match (got_pos, want) { (Some(g), Some(w)) => g < w, (Some(_), None) => true, _ => false };
                if earlier {
                    let a = got_pc.unwrap();
                    if sp.installed().contains(&a) {
                        let key = format!("options-not-honoured:{}", sp.class(a, was_restart_of_running, true));
                        fail(out, &mut sp, key, what, k);
                    } else {
                        let key = format!("replace-leaves-location-installed:{}", sp.class(a, false, false));
                        fail(out, &mut sp, key, what, k);
                    }
                } else {
                    let a = want_pc.unwrap_or(0);
                    let key = format!("options-not-honoured:{}", sp.class(a, was_restart_of_running, true));
                    fail(out, &mut sp, key, what, k);
                }
            }
            _ => {}
        }
    }
}

// ------------------------------------------------------------------------------------------------

pub fn exec(req: &[String], out: &mut Out, dir: &Path) {
    let ctx = Ctx::load(dir);
    // resolution cross-check (C04's business, but the oracle depends on it)
    for (l, a) in &ctx.res_line {
        out.oracle_evals += 1;
        if ctx.ores_line.get(l) != Some(a) {
            out.oracle_fail("line-resolution-differs-from-independent-reading", &format!("line {l}: debugger {:x?}, llvm-dwarfdump rows {:x?}", a, ctx.ores_line.get(l)), json!({"line": l}));
        }
    }
    for (f, a) in &ctx.res_fn {
        out.oracle_evals += 1;
        let mut x = a.clone(); x.sort();
        let mut y = ctx.ores_fn.get(f).cloned().unwrap_or_default(); y.sort();
        if x != y { out.oracle_fail("function-resolution-differs-from-independent-reading", &format!("fn {f}: debugger {:x?}, symbols+rows {:x?}", a, y), json!({"fn": f})); }
    }
    // sessions
    let mut pure: Vec<(usize, String)> = vec![];
    let mut sessions: Vec<Vec<(usize, String, Cmd)>> = vec![];
    let mut order: Vec<(bool, usize, usize)> = vec![]; // (is_session_line, session idx / pure idx, index inside)
    for l in req {
        let c = parse_cmd(&ctx, l);
        match c {
            Cmd::Hc { .. } => { order.push((false, pure.len(), 0)); pure.push((0, l.clone())); }
            Cmd::New { .. } => { sessions.push(vec![(0, canon_line(&ctx, &c, l), c)]); order.push((true, sessions.len() - 1, 0)); }
            Cmd::Bad => { order.push((false, pure.len(), 0)); pure.push((1, l.clone())); }
            _ => {
                if sessions.is_empty() { order.push((false, pure.len(), 0)); pure.push((1, l.clone())); continue; }
                let s = sessions.last_mut().unwrap();
                s.push((0, canon_line(&ctx, &c, l), c));
                let sl = s.len();
                order.push((true, sessions.len() - 1, sl - 1));
            }
        }
    }
    let par = std::env::var("C13_PAR").ok().and_then(|s| s.parse().ok()).unwrap_or(4usize);
    let src = ctx.src.clone();
    let results = run_sessions(&sessions, dir, "c13", par, session_timeout() * 8, |s, emit| {
        let cmds: Vec<Cmd> = s.iter().map(|x| x.2.clone()).collect();
        let p = Prog::load(PROG);
        session(&p, &src, &cmds, emit);
    });
    let mut answers: Vec<Vec<String>> = vec![];
    for (s, (lines, how)) in sessions.iter().zip(results.iter()) {
        let obs: Vec<Value> = lines.iter().filter_map(|l| serde_json::from_str(l).ok()).collect();
        let mut a: Vec<String> = obs.iter().map(answer).collect();
        let cmds: Vec<Cmd> = s.iter().map(|x| x.2.clone()).collect();
        let ls: Vec<String> = s.iter().map(|x| x.1.clone()).collect();
        if how != "ok" || a.iter().any(|x| x == "hang") {
            out.oracle_fail("adapter-crashed-or-hung", &format!("worker ended with {how} after {} of {} commands", a.len(), s.len()), json!({"session": ls.iter().map(|l| short(l)).collect::<Vec<_>>()}));
        } else {
            oracle_session(&ctx, &ls, &cmds, &obs, out);
        }
        while a.len() < s.len() { a.push(format!("worker-{how}")); }
        for (c, o) in cmds.iter().zip(obs.iter()) {
            if let Cmd::SetB { .. } | Cmd::SetF { .. } | Cmd::SetI { .. } | Cmd::SetD { .. } = c { if o["int3"].is_array() { out.count("observed.int3-set-after-set", 1); } }
            if o["t"] == "run" {
                let r = if o["exited"] == true { "exit".to_string() } else { o["reason"].as_str().unwrap_or("none").to_string() };
                out.count(&format!("observed.run.{r}"), 1);
                let n = o["outs"].as_array().map(|a| a.len()).unwrap_or(0);
                if n > 0 { out.count("observed.console-outputs", n as u64); }
            }
        }
        if answers.len() < 3 { out.sample(json!({"session": ls.iter().map(|l| short(l)).collect::<Vec<_>>(), "answers": a})); }
        answers.push(a);
    }
    for (is_s, i, j) in order {
        if is_s { out.pair(sessions[i][j].1.clone(), answers[i][j].clone()); }
        else {
            let (bad, l) = &pure[i];
            if *bad == 1 { out.pair(l.clone(), "bad-op".into()); continue; }
            let Cmd::Hc { text, hits } = parse_cmd(&ctx, l) else { unreachable!() };
            let ans = hc_answer(&text, hits);
            out.oracle_evals += 1;
            let m = ans.ends_with('1');
            match hc_oracle(&text, hits) {
                Some(w) if w != m => out.oracle_fail("hit-condition-misread", &format!("hitCondition {text:?} at hit {hits}: adapter says {m}, DAP reading says {w}"), json!({"text": text, "hits": hits})),
                None if !ans.starts_with("invalid") => out.oracle_fail("hit-condition-accepts-garbage", &format!("hitCondition {text:?} is accepted as {ans}"), json!({"text": text})),
                Some(_) if ans.starts_with("invalid") => out.oracle_fail("hit-condition-rejects-valid", &format!("hitCondition {text:?} is rejected"), json!({"text": text})),
                _ => {}
            }
            out.count(&format!("hc.{}", ans.split(' ').next().unwrap()), 1);
            out.pair(l.clone(), ans);
        }
    }
}

pub fn run(args: &[String]) {
    let a = parse_args(args);
    let mut out = Out::new(&a.out);
    let req = match &a.replay {
        Some(f) => read_lines(f),
        None => {
            let ctx = Ctx::load(&a.out);
            let mut rng = Rng::new(a.seed);
            gen_requests_ctx(&ctx, &mut rng, a.n, &mut out)
        }
    };
    exec(&req, &mut out, &a.out);
    out.finish();
}

fn short(l: &str) -> String { if l.len() > 160 { format!("{}…", &l[..160]) } else { l.to_string() } }
