//! C03: step commands land where their definition says, relative to the real execution.
//! Sessions as in C02 (same request language, area id `C03`); the oracle follows the debugger's position in the
//! independent reference trace (matching pc AND stack pointer, so activations of a recursive function are told
//! apart) and evaluates the property's definitions on the depth-annotated trace and the independently decoded
//! line table (llvm-dwarfdump).
use super::c01::{new_line, short, user_pcs, PROGS};
use super::c02::observe;
use crate::dwline::{self, Row};
use crate::live::*;
use crate::util::*;
use bugstalker::debugger::address::{Address, RelocatedAddress};
use bugstalker::debugger::StopReason;
use serde_json::json;

pub fn gen_requests(rng: &mut Rng, n: u64, out: &mut Out) -> Vec<String> {
    let id = "C03";
    let mut req = vec![];
    for _ in 0..n {
        let name = *rng.pick(PROGS);
        let p = Prog::load(name);
        let cands = user_pcs(&p);
        req.push(new_line(id, &p));
        out.count(&format!("prog.{name}"), 1);
        // reach a random position: breakpoint, start, a few continues; then remove it so that steps are not cut short
        let a = *rng.pick(&cands);
        req.push(format!("{id} break {a:x}"));
        req.push(format!("{id} start"));
        for _ in 0..rng.below(4) { req.push(format!("{id} continue")); }
        req.push(format!("{id} remove {a:x}"));
        for _ in 0..rng.range(2, 14) {
            match rng.below(10) {
                0..=1 => { req.push(format!("{id} stepi")); out.count("op.stepi", 1); }
                2..=4 => { req.push(format!("{id} step 0")); out.count("op.step", 1); }
                5..=7 => { req.push(format!("{id} next - 0")); out.count("op.next", 1); }
                _ => { req.push(format!("{id} finish - 0")); out.count("op.finish", 1); }
            }
        }
    }
    req
}

fn raw_rsp(pid: i32) -> Option<u64> {
    let mut regs: libc::user_regs_struct = unsafe { std::mem::zeroed() };
    let r = unsafe { libc::ptrace(libc::PTRACE_GETREGS, pid, 0usize, &mut regs as *mut _ as usize) };
    if r == 0 { Some(regs.rsp) } else { None }
}

struct Truth<'a> { p: &'a Prog, rows: &'a [Row], user_file: String }
impl Truth<'_> {
    /// statement boundary of the user's source: pc is exactly the address of an is_stmt row of the user's file
    fn boundary(&self, pc: u64) -> Option<&Row> {
        dwline::row_for_pc(self.rows, pc).filter(|r| r.addr == pc && r.is_stmt && r.file == self.user_file)
    }
    /// statement boundary in any file with line information
    fn boundary_any(&self, pc: u64) -> Option<&Row> {
        dwline::row_for_pc(self.rows, pc).filter(|r| r.addr == pc && r.is_stmt)
    }
    /// lowest address of an epilogue_begin row inside the function containing pc
    fn epilogue_addr(&self, pc: u64) -> Option<u64> {
        let (start, size, _) = self.p.fn_of(pc)?;
        self.rows.iter().filter(|r| r.addr >= *start && r.addr < start + size && r.epilogue_begin).map(|r| r.addr).min()
    }
    fn line_of(&self, pc: u64) -> Option<(String, u64)> { dwline::row_for_pc(self.rows, pc).map(|r| (r.file.clone(), r.line)) }
    /// first position after `pos` at which the activation of `pos` has returned
    fn ret_pos(&self, pos: usize) -> Option<usize> {
        let d = self.p.trace[pos].depth;
        (pos + 1..self.p.trace.len()).find(|j| self.p.trace[*j].depth < d)
    }
    /// is the pc in the prologue of its function (before the first prologue_end row of the function's sequence)?
    fn in_prologue(&self, pc: u64) -> bool {
        let Some((start, _, _)) = self.p.fn_of(pc) else { return false };
        let pe = self.rows.iter().filter(|r| r.addr >= *start && r.prologue_end).map(|r| r.addr).min();
        match pe { Some(pe) => pc < pe, None => false }
    }
}

pub fn session(lines: &[String], rows: &[Row], emit: &mut dyn FnMut(String)) {
    let id = "C03";
    let t: Vec<&str> = lines[0].split(' ').collect();
    let p = Prog::load(t[2]);
    if lines[0] != new_line(id, &p) { emit(format!("{}\tstale-program", lines[0])); return; }
    let truth = Truth { p: &p, rows, user_file: format!("{}.rs", super::c01::crate_of(&p.name)) };
    let mut live = match Live::launch(&p) { Ok(l) => l, Err(e) => { emit(format!("{}\tlaunch-failed {e}", lines[0])); return; } };
    emit(format!("{}\tok", lines[0]));
    ipose::enable();
    let base = p.base;
    let mut pos: Option<usize> = None;      // position in the reference trace, None = unknown / not started / outside
    let mut shift: Option<i128> = None;     // actual rsp - reference rsp
    let mut bset: Vec<u64> = vec![];
    let mut exited = false;
    let mut started = false;
    for line in &lines[1..] {
        let t: Vec<&str> = line.split(' ').collect();
        ipose::take();
        let mut fails: Vec<(String, String)> = vec![];
        let (req, ans): (String, String) = match t.as_slice() {
            [_, "break", a] => {
                let a = u64::from_str_radix(a, 16).unwrap();
                let r = live.dbg.set_breakpoint_at_addr(RelocatedAddress::from(base + a)).map(|_| ());
                if r.is_ok() && !bset.contains(&a) { bset.push(a); }
                (line.clone(), if r.is_ok() { "ok".to_string() } else { "err".into() })
            }
            [_, "remove", a] => {
                let a = u64::from_str_radix(a, 16).unwrap();
                (line.clone(), match live.dbg.remove_breakpoint(Address::Relocated(RelocatedAddress::from(base + a))) {
                    Ok(Some(_)) => { bset.retain(|x| *x != a); "ok".into() }
                    Ok(None) => "none".to_string(),
                    Err(_) => "err".into(),
                })
            }
            [_, c @ ("start" | "continue")] => {
                let r = if *c == "start" { live.dbg.start_debugee_with_reason() } else { live.dbg.continue_debugee_with_reason() };
                let ans = match &r {
                    Ok(StopReason::Breakpoint(_, pc)) => {
                        let g = u64::from(*pc).wrapping_sub(base);
                        let from = if started { pos.map(|x| x + 1) } else { Some(0) };
                        started = true;
                        // position = first arrival at a breakpoint address (C01's projection)
                        pos = from.and_then(|f| (f..p.trace.len()).find(|j| bset.contains(&p.trace[*j].pc)));
                        if let (Some(j), Some(rsp)) = (pos, raw_rsp(live.pid())) {
                            let s = rsp as i128 - p.trace[j].rsp as i128;
                            if shift.is_none() { shift = Some(s); }
                            if p.trace[j].pc != g || shift != Some(s) { pos = None; }
                        }
                        format!("stop {g:x}")
                    }
                    Ok(StopReason::DebugeeExit(code)) => { started = true; exited = true; pos = None; format!("exit {code}") }
                    Ok(other) => { pos = None; format!("other {other:?}").replace(' ', "_") }
                    Err(_) => "err".into(),
                };
                (line.clone(), ans)
            }
            [_, c @ ("stepi" | "step" | "next" | "finish"), ..] => {
                let r = match *c {
                    "stepi" => live.dbg.stepi(),
                    "step" => live.dbg.step_into(),
                    "next" => live.dbg.step_over(),
                    _ => live.dbg.step_out(),
                };
                let gone = std::fs::read_to_string(format!("/proc/{}/stat", live.pid())).map(|s| s.contains(") Z ")).unwrap_or(true);
                let pc = u64::from(live.dbg.ecx().location().pc);
                let g = if !gone && pc >= base && p.in_text(pc - base) { Some(pc - base) } else { None };
                let ans = match &r {
                    _ if exited => (if r.is_err() { "err" } else { "ok-after-exit" }).to_string(),
                    Ok(()) if !gone => format!("done {}", g.map(|g| format!("{g:x}")).unwrap_or("out".into())),
                    Ok(()) => { exited = true; format!("exit {}", p.exit_code) }
                    Err(_) if gone && started => { exited = true; format!("exit {}", p.exit_code) }
                    Err(_) => "err".into(),
                };
                // ---------------- the oracle: where are we now in the reference execution, and is that allowed?
                // verdicts only for steps that start inside one of the program's own functions (std code is compiled
                // with different line-table conventions and is not what the property is about)
                let starts_in_user_code = pos.is_some_and(|o| truth.line_of(p.trace[o].pc).is_some_and(|l| l.0 == truth.user_file));
                if let (Some(old), true, Some(sh)) = (pos, ans.starts_with("done"), shift) {
                    let new = match (g, raw_rsp(live.pid())) {
                        (Some(g), Some(rsp)) => (old + 1..p.trace.len()).find(|j| p.trace[*j].pc == g && p.trace[*j].rsp as i128 + sh == rsp as i128),
                        _ => None,
                    };
                    let d = p.trace[old].depth;
                    let desc = |j: usize| format!("trace[{j}] pc={:x} depth={} line={:?}", p.trace[j].pc, p.trace[j].depth, truth.line_of(p.trace[j].pc));
                    match (*c, new) {
                        _ if !starts_in_user_code => {}
                        ("stepi", _) => {
                            if old + 1 < p.trace.len() && p.trace[old + 1].gap == 0 && new != Some(old + 1) {
                                fails.push(("stepi-did-not-execute-exactly-one-instruction".into(), format!("from {} landed at {:?}, expected {}", desc(old), new.map(desc), desc(old + 1))));
                            }
                        }
                        ("finish", Some(j)) => {
                            if let Some(want) = truth.ret_pos(old) && j != want {
                                let key = if j < want && p.trace[j].pc == p.trace[want].pc && p.trace[j].depth > p.trace[want].depth {
                                    "finish-stops-when-a-deeper-recursive-activation-returns-to-the-same-address"
                                } else { "finish-does-not-land-right-after-the-return-of-the-current-activation" };
                                fails.push((key.into(), format!("from {} landed at {}, the current activation returns at {}", desc(old), desc(j), desc(want))));
                            }
                        }
                        (k @ ("next" | "step"), Some(j)) => {
                            let ret = truth.ret_pos(old);
                            let min_between = (old + 1..=j).map(|i| p.trace[i].depth).min().unwrap_or(d);
                            let same_act = min_between >= d && p.trace[j].depth == d;
                            let in_caller = ret.is_some_and(|r| j >= r && p.trace[j].depth == p.trace[r].depth && (r..=j).all(|i| p.trace[i].depth >= p.trace[r].depth));
                            let start_line = truth.line_of(p.trace[old].pc);
                            if k == "next" && !same_act && !in_caller {
                                let key = if ret.is_some_and(|r| j >= r && p.trace[j].depth > p.trace[r].depth) {
                                    "next-after-the-return-steps-into-the-following-call-of-the-caller"
                                } else if p.trace[j].depth > d && p.fn_of(p.trace[j].pc).map(|f| f.0) == p.fn_of(p.trace[old].pc).map(|f| f.0) {
                                    "next-stops-inside-a-deeper-recursive-activation"
                                } else { "next-stops-inside-a-callee" };
                                fails.push((key.into(), format!("from {} landed at {}", desc(old), desc(j))));
                            }
                            let bnd = |pc: u64| if k == "step" { truth.boundary_any(pc) } else { truth.boundary(pc) };
                            // a landing exactly at the return address of the finished activation is allowed by the property
                            // ("in the caller right after the return"); otherwise it must be a statement boundary
                            if truth.boundary_any(p.trace[j].pc).is_none() && ret != Some(j) {
                                fails.push((format!("{k}-does-not-stop-at-a-statement-boundary"), format!("from {} landed at {}", desc(old), desc(j))));
                            }
                            // upper bound: the first statement boundary on a different line reached in the current activation
                            // (for `step`: in any activation with line information, function-entry rows excluded), or the return
                            let bound = (old + 1..p.trace.len()).find(|i| {
                                let i = *i;
                                if ret == Some(i) { return true; }
                                let act_ok = if k == "next" { p.trace[i].depth == d && (old + 1..=i).all(|x| p.trace[x].depth >= d) } else { true };
                                act_ok && bnd(p.trace[i].pc).is_some_and(|r| Some((r.file.clone(), r.line)) != start_line || p.trace[i].depth != d)
                                    && !truth.in_prologue(p.trace[i].pc)
                            });
                            if let Some(b) = bound {
                                // when the bound is the return, the caller may need further instructions to reach a boundary
                                let b_eff = if ret == Some(b) { (b..p.trace.len()).find(|i| bnd(p.trace[*i].pc).is_some() && p.trace[*i].depth <= p.trace[b].depth).unwrap_or(b) } else { b };
                                if j > b_eff {
                                    let after_epilogue = truth.epilogue_addr(p.trace[b_eff].pc).is_some_and(|e| p.trace[b_eff].pc > e)
                                        && p.fn_of(p.trace[b_eff].pc).map(|f| f.0) == p.fn_of(p.trace[old].pc).map(|f| f.0);
                                    let key = if k == "next" && after_epilogue { "next-skips-a-statement-row-placed-after-the-epilogue-address".to_string() }
                                              else { format!("{k}-runs-past-the-first-statement-boundary-on-another-line") };
                                    fails.push((key, format!("from {} landed at {}, but execution reached {} first", desc(old), desc(j), desc(b_eff))));
                                }
                            }
                        }
                        (_, None) => { /* landed outside the executable or position not identifiable: no verdict */ }
                        _ => {}
                    }
                    pos = new;
                } else if !ans.starts_with("done") { pos = None; }
                (format!("{} {c}", t[0]), ans)
            }
            _ => (line.clone(), "bad-op".into()),
        };
        let obs = observe(&p, base);
        let req = match t.get(1).copied() {
            // `out`: the step ended outside the executable (libc / ld.so), which the trace machine does not describe
            Some("step") => format!("{req} {}{}", obs.k_all, if ans == "done out" { " out" } else { "" }),
            Some("stepi") => format!("{req}{}", if ans == "done out" { " out" } else { "" }),
            Some("next") | Some("finish") => format!("{req} {} {}", enc_list(&obs.temps, |a| format!("{a:x}")), obs.k_tail),
            _ => req,
        };
        for (key, what) in fails {
            emit(format!("!oracle {}", json!({"key": key, "what": format!("`{req}`: {what}"), "replay": {"prog": p.name}})));
        }
        emit(format!("{req}\t{ans} p={}", obs.pokes));
    }
    let _ = live.finish();
}

pub fn exec(req: &[String], out: &mut Out, tmpdir: &std::path::Path) {
    let mut sessions: Vec<Vec<String>> = vec![];
    for l in req {
        if l.starts_with("C03 new ") || sessions.is_empty() { sessions.push(vec![]); }
        sessions.last_mut().unwrap().push(l.clone());
    }
    // independent line tables, decoded once per program by the parent process
    let mut tables: std::collections::HashMap<String, Vec<Row>> = Default::default();
    for s in &sessions {
        if let Some(name) = s[0].split(' ').nth(2) && !tables.contains_key(name) {
            let rows = dwline::line_rows(&verif_root().join("progs").join(name)).unwrap_or_default();
            tables.insert(name.to_string(), rows);
        }
    }
    let results = run_sessions(&sessions, tmpdir, "c03", par_default(), session_timeout(), |s, emit| {
        let name = s[0].split(' ').nth(2).unwrap_or("");
        session(s, tables.get(name).map(|v| v.as_slice()).unwrap_or(&[]), emit)
    });
    for (i, (s, (lines, how))) in sessions.iter().zip(results).enumerate() {
        let mut pairs: Vec<(String, String)> = vec![];
        for l in lines {
            if let Some(j) = l.strip_prefix("!oracle ") {
                let v: serde_json::Value = serde_json::from_str(j).unwrap();
                out.oracle_fail(v["key"].as_str().unwrap(), v["what"].as_str().unwrap(), json!({"session": s.iter().map(|l| short(l)).collect::<Vec<_>>(), "detail": v["replay"]}));
            } else if let Some((r, a)) = l.split_once('\t') { pairs.push((r.to_string(), a.to_string())); }
        }
        out.oracle_evals += pairs.len() as u64;
        if how != "ok" {
            out.oracle_fail("debugger-crashed-or-hung", &format!("worker ended with {how} after {} of {} commands", pairs.len(), s.len()),
                json!({"session": s.iter().map(|l| short(l)).collect::<Vec<_>>()}));
        }
        if i < 3 { out.sample(json!({"session": pairs.iter().map(|(r, a)| format!("{} => {}", short(r), short(a))).collect::<Vec<_>>()})); }
        for (k, l) in s.iter().enumerate() {
            match pairs.get(k) {
                Some((r, a)) => out.pair(r.clone(), a.clone()),
                None => out.pair(l.clone(), format!("worker-{how}")),
            }
        }
    }
}

pub fn run(args: &[String]) {
    let a = parse_args(args);
    let mut out = Out::new(&a.out);
    let req = match &a.replay {
        Some(f) => read_lines(f),
        None => { let mut rng = Rng::new(a.seed); gen_requests(&mut rng, a.n, &mut out) }
    };
    exec(&req, &mut out, &a.out);
    out.finish();
}
